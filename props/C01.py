"""C01 — assembled matrix, vector and scalar represent the weak form.

contract  BilinearForm._assemble(ubasis, vbasis)        (Mode I: Nu, Nv, nt, nq, N symbolic; form uninterpreted)
  requires  element_dofs tables in range, dx of shape (nt, nq), same number of quadrature points
  ensures   COO-B  indices.shape = (2, Nu*Nv*nt), data.shape = (Nu*Nv*nt,), shape = (vbasis.N, ubasis.N),
                   local_shape = (vbasis.Nbfun, ubasis.Nbfun); for all j<Nu, i<Nv, k<nt at p = (j*Nv+i)*nt + k:
                   indices[0,p] = vdofs[i,k] (row = test), indices[1,p] = udofs[j,k] (col = trial),
                   data[p] = sum_q form(ub[j], vb[i], w)[k,q] * dx[k,q]
            BIJ    (j,i,k) -> p is a bijection onto [0, Nu*Nv*nt)   (whole view: no stray triplet)
            PARAMS the w handed to form is default_parameters() overlaid with the normalised kwargs
  raises    ValueError when the bases have different numbers of quadrature points
contract  LinearForm._assemble, Functional._assemble/elemental, TrilinearForm._assemble  (COO-L, COO-F, COO-T analogues)
contract  AbstractBasis.interpolate(w)   (INTERP; Nbfun enumerated 1..3, nt and nq symbolic)
  ensures   out.get(n)[k,q] = sum_i w[element_dofs[i,k]] * basis[i][0].get(n)[k,q] for every present field, None stays None;
            raises ValueError iff w.shape[0] != N
contract  Form._normalize_asm_kwargs   (KW; executed on each argument kind)
contract  AbstractBasis.element_dofs, CellBasis/FacetBasis constructors  (SUBSET / FACET-SIDE: the same index array restricts
            element_dofs, basis and dx) — checked on the real constructors over the mesh zoo (bounded stand-in, native)
lemma     L-C01 (paper, listed): COO-B + SciPy's duplicate-summing coo->csr + bilinearity => v^T A u = a(u_h, v_h)
"""
from __future__ import annotations

from fractions import Fraction

import numpy as np

from skv import sarr
from skv import term as tm
from skv.sarr import SArr
from skv.term import S

LEVEL = "proof"
EXPLANATION = ("COO bookkeeping of all assemblers proved for all sizes by symbolic execution of the real _assemble methods "
               "(generic loop iterations, uninterpreted integrand); interpolate for Nbfun <= 3; end-to-end composition with real "
               "gbasis/quadrature by a bounded stand-in.")
ASSUMPTIONS = [
    "A4: the user integrand `form` is pure; for the lemma L-C01 it is linear in each argument function",
    "SciPy coo_matrix((d,(r,c))).tocsr() sums duplicate triplets (trusted; cross-checked in the stand-in)",
    "L-C01 (paper lemma): COO-B + bilinearity + INTERP imply v^T A u = a(u_h, v_h)",
    "A2: index arithmetic in mathematical integers",
]
TRUSTED = ["NumPy model skv/sarr.py", "mixed-radix decode lemma (proved in unit lemmas/radix)"]
UNITS = {}
C = tm.const


class BasisFn:
    def __init__(self, tag, idx):
        self.tag, self.idx = tag, sarr._t(idx)


class BasisSeq:
    def __init__(self, tag):
        self.tag = tag

    def __getitem__(self, j):
        return (BasisFn(self.tag, j),)


class XStub:
    def __init__(self, shape):
        self.shape = shape


class StubBasis:
    def __init__(self, c, tag, nt, nq):
        self.tag = tag
        self.nelems = nt
        self.Nbfun = c.size("Nb_" + tag, 1)
        self.N = c.size("N_" + tag, 1)
        self.element_dofs = SArr.input("dofs_" + tag, (self.Nbfun, nt), lo=0, hi=self.N)
        self.dx = SArr.input("dx_" + tag, (nt, nq), tm.REAL)
        self.X = XStub((2, nq))
        self.basis = BasisSeq(tag)
        self.params = {"x": "default-x-" + tag, "h": "default-h-" + tag}

    def default_parameters(self):
        return dict(self.params)

    def interpolate(self, w):
        return ("interpolated-by", self.tag, id(w))


class FormStub:
    """uninterpreted integrand: result[k,q] = form(<indices of the argument functions>, k, q)."""

    def __init__(self, nt, nq):
        self.nt, self.nq, self.calls = nt, nq, []

    def __call__(self, *args):
        fns, w = args[:-1], args[-1]
        self.calls.append((tuple(f.tag for f in fns), dict(w)))
        ids = [f.idx for f in fns]
        name = "form_" + "_".join(f.tag for f in fns)
        return SArr((self.nt, self.nq), lambda idx, ids=ids, name=name: tm.app(name, tm.REAL, *ids, *idx), tm.REAL)


def K(form_name, ids, dx, k, nq):
    """spec: sum_q form(ids..., k, q) * dx[k, q] — built through the same big operator."""
    nt = dx.shape[0]
    F = SArr((sarr._dim(nt), nq), lambda idx: tm.app(form_name, tm.REAL, *[sarr._t(i) for i in ids], *idx), tm.REAL)
    return sarr.np_sum(F * dx, axis=1).get((k,))


def lemma_block_unique(n, a, b, k):
    """valid NIA fact (unit lemmas/radix): 0<=k<n and n*a <= n*b + k < n*(a+1)  =>  a == b."""
    n, a, b, k = map(sarr._t, (n, a, b, k))
    return tm.implies(tm.and_(tm.le(C(0), k), tm.lt(k, n), tm.le(tm.mul(n, a), tm.add(tm.mul(n, b), k)),
                              tm.lt(tm.add(tm.mul(n, b), k), tm.mul(n, tm.add(a, C(1))))), tm.eq(a, b))


def lemma_pair_unique(n, a, b, a2, b2):
    """valid NIA fact: 0<=b,b2<n and n*a+b == n*a2+b2 => a == a2 and b == b2."""
    n, a, b, a2, b2 = map(sarr._t, (n, a, b, a2, b2))
    return tm.implies(tm.and_(tm.le(C(0), b), tm.lt(b, n), tm.le(C(0), b2), tm.lt(b2, n),
                              tm.eq(tm.add(tm.mul(n, a), b), tm.add(tm.mul(n, a2), b2))), tm.and_(tm.eq(a, a2), tm.eq(b, b2)))


def lemmas_radix(ctx):
    I = lambda n: tm.var(n, tm.INT)
    n, a, b, k, a2, b2 = I("n"), I("a"), I("b"), I("k"), I("a2"), I("b2")
    fn = "skv/sarr.py::mixed-radix lemmas"
    ctx.prove("lemmas/radix/block-unique", fn, lemma_block_unique(n, a, b, k), clause="0<=k<n, n*a <= n*b+k < n*(a+1) => a == b")
    ctx.prove("lemmas/radix/pair-unique", fn, lemma_pair_unique(n, a, b, a2, b2), clause="n*a+b == n*a2+b2 with 0<=b,b2<n => equal digits")
    # two- and three-digit decode uniqueness (the facts hint_radix instantiates)
    d1, d2, i0, i1, i2, j0, j1, j2 = (I(x) for x in ("d1", "d2", "i0", "i1", "i2", "j0", "j1", "j2"))
    rng = lambda x, d: [tm.le(C(0), x), tm.lt(x, d)]
    e3 = lambda x0, x1, x2: tm.add(tm.mul(tm.add(tm.mul(x0, d1), x1), d2), x2)
    ctx.prove("lemmas/radix/three-digit-injective", fn,
              tm.implies(tm.eq(e3(i0, i1, i2), e3(j0, j1, j2)), tm.and_(tm.eq(i0, j0), tm.eq(i1, j1), tm.eq(i2, j2))),
              hyps=rng(i1, d1) + rng(i2, d2) + rng(j1, d1) + rng(j2, d2) + [tm.le(C(0), i0), tm.le(C(0), j0),
                   lemma_pair_unique(d2, tm.add(tm.mul(i0, d1), i1), i2, tm.add(tm.mul(j0, d1), j1), j2),
                   lemma_pair_unique(d1, i0, i1, j0, j1)],
              clause="(i0*d1+i1)*d2+i2 is injective on the index box (C-order flatten has no collisions)")
    d0 = I("d0")
    ctx.prove("lemmas/radix/three-digit-range", fn,
              tm.and_(tm.le(C(0), e3(i0, i1, i2)), tm.lt(e3(i0, i1, i2), tm.mul(tm.mul(d0, d1), d2))),
              hyps=rng(i0, d0) + rng(i1, d1) + rng(i2, d2) + [sarr.lemma_mul_mono(d2, tm.add(tm.mul(i0, d1), i1), tm.mul(d0, d1)),
                                                               sarr.lemma_mul_mono(d1, i0, d0)],
              clause="the flat index of an in-range triple lies in [0, d0*d1*d2)")
    p = I("p")
    q = tm.idiv(p, d2)
    ctx.prove("lemmas/radix/three-digit-onto", fn,
              tm.and_(tm.eq(e3(tm.idiv(q, d1), tm.mod(q, d1), tm.mod(p, d2)), p), tm.le(C(0), tm.idiv(q, d1)), tm.lt(tm.idiv(q, d1), d0)),
              hyps=[tm.lt(C(0), d1), tm.lt(C(0), d2), tm.le(C(0), p), tm.lt(p, tm.mul(tm.mul(d0, d1), d2)), tm.le(C(0), d0)],
              clause="every p in [0, d0*d1*d2) is the flat index of the triple (p div d2 div d1, p div d2 mod d1, p mod d2)")


UNITS["lemmas/radix"] = lemmas_radix


def _ctx_common(c):
    nt, nq = c.size("nt", 1), c.size("nq", 1)
    return nt, nq


def coo_bilinear(ctx):
    import skfem.assembly.form.bilinear_form as BF
    fn = ctx.function(BF.BilinearForm._assemble)
    fk = ctx.function(BF.BilinearForm._kernel)
    for same in (False, True):
        with sarr.index_context() as c:
            nt, nq = _ctx_common(c)
            ub = StubBasis(c, "u", nt, nq)
            vb = ub if same else StubBasis(c, "v", nt, nq)
            form = FormStub(nt, nq)
            bf = BF.BilinearForm(form)
            cvec = np.arange(5.0)
            kw = dict(c=cvec, s=2.5, idx=(0, 1))
            with sarr.mode_i([BF]):
                if same:
                    indices, data, shape, lshape = bf._assemble(ub, **kw)
                else:
                    indices, data, shape, lshape = bf._assemble(ub, vb, **kw)
            pre = "coo/bilinear/%s" % ("same-basis" if same else "two-bases")
            want_w = dict(ub.default_parameters(), c=("interpolated-by", "u", id(cvec)), s=2.5, idx=(0, 1))
            Nu, Nv, NT = ub.Nbfun.t, vb.Nbfun.t, nt.t
            size = tm.mul(tm.mul(Nu, Nv), NT)
            ctx.prove(pre + "/shapes", fn, tm.and_(tm.eq(sarr._t(indices.shape[0]), C(2)), tm.eq(sarr._t(indices.shape[1]), size),
                                                   tm.eq(sarr._t(data.shape[0]), size), C(data.ndim == 1)), hyps=c.all_hyps(),
                      clause="indices.shape == (2, Nu*Nv*nt) and data.shape == (Nu*Nv*nt,)")
            ctx.fact(pre + "/tensor-shape", fn, shape[0] is vb.N and shape[1] is ub.N and lshape[0] is vb.Nbfun and lshape[1] is ub.Nbfun,
                     "shape %r local %r" % (shape, lshape), clause="shape == (vbasis.N, ubasis.N), local_shape == (vbasis.Nbfun, ubasis.Nbfun)",
                     backend="symbolic-execution")
            j, i, k = c.skolem("j", 0, Nu), c.skolem("i", 0, Nv), c.skolem("k", 0, NT)
            p = tm.add(tm.mul(tm.add(tm.mul(j.t, Nv), i.t), NT), k.t)
            sarr.hint_radix((Nu, Nv, NT), (j.t, i.t, k.t))
            row, col, dat = indices.get((C(0), p)), indices.get((C(1), p)), data.get((p,))
            hy = c.all_hyps()
            # hints: the witness iteration of p equals (j, i)
            for n in tm.subterms(tm.and_(tm.eq(row, C(0)), tm.eq(col, C(0)))):
                if n.op == "app" and n.args[0].startswith("lw!") and n.args[1] is p:
                    pass
            lw = sorted({n for t_ in (row, col) for n in tm.subterms(t_) if n.op == "app" and n.args[0].startswith("lw!")}, key=lambda n: n.args[0])
            for a in range(0, len(lw), 2):
                Wj, Wi = lw[a], lw[a + 1]
                hy.append(lemma_block_unique(NT, tm.add(tm.mul(Nv, Wj), Wi), tm.add(tm.mul(Nv, j.t), i.t), k.t))
                hy.append(lemma_block_unique(NT, tm.add(tm.mul(Wj, Nv), Wi), tm.add(tm.mul(j.t, Nv), i.t), k.t))
                hy.append(lemma_pair_unique(Nv, Wj, Wi, j.t, i.t))
            ctx.prove(pre + "/rows-are-test-dofs", fn, tm.eq(row, vb.element_dofs.get((i.t, k.t))), hyps=hy,
                      clause="indices[0, (j*Nv+i)*nt+k] == vbasis.element_dofs[i,k]",
                      replay=dict(kind="coo", form="bilinear", clause="rows"))
            ctx.prove(pre + "/cols-are-trial-dofs", fn, tm.eq(col, ub.element_dofs.get((j.t, k.t))), hyps=hy,
                      clause="indices[1, (j*Nv+i)*nt+k] == ubasis.element_dofs[j,k]",
                      replay=dict(kind="coo", form="bilinear", clause="cols"))
            spec = K("form_u_%s" % vb.tag, (j.t, i.t), ub.dx, k.t, sarr._dim(nq))
            ctx.prove(pre + "/data-is-local-integral", fk, tm.eq(dat, spec), hyps=hy,
                      clause="data[(j*Nv+i)*nt+k] == sum_q form(ubasis.basis[j], vbasis.basis[i], w)[k,q]*ubasis.dx[k,q]",
                      replay=dict(kind="coo", form="bilinear", clause="data"))
            tags = {cl[0] for cl in form.calls}
            ws = [cl[1] for cl in form.calls]
            ctx.fact(pre + "/argument-order", fk, tags == {("u", vb.tag)}, "form called with argument tags %s" % tags,
                     clause="form(*ubasis.basis[j], *vbasis.basis[i], w): trial function first, test function second", backend="symbolic-execution")
            ctx.fact(pre + "/params", fn, all(w == want_w for w in ws) and len(ws) > 0, "w = %s, expected %s" % (ws[:1], want_w),
                     clause="w == ubasis.default_parameters() overlaid with the kwargs normalised against the SAME basis (ubasis) that supplies dx: "
                            "coefficient vectors are interpolated by ubasis, numbers and tuples pass through",
                     backend="symbolic-execution", replay=dict(kind="coo", form="bilinear", clause="params"))
    # raises on quadrature mismatch
    with sarr.index_context() as c:
        nt, nq = _ctx_common(c)
        ub, vb = StubBasis(c, "u", nt, nq), StubBasis(c, "v", nt, nq)
        vb.X = XStub((2, 7))
        ub.X = XStub((2, 5))
        try:
            with sarr.mode_i([BF]):
                BF.BilinearForm(FormStub(nt, nq))._assemble(ub, vb)
            ok = False
        except ValueError:
            ok = True
        ctx.fact("coo/bilinear/quadrature-mismatch-raises", fn, ok, "different numbers of quadrature points must raise ValueError", backend="path-execution")


UNITS["coo/bilinear"] = coo_bilinear


def coo_linear(ctx):
    import skfem.assembly.form.linear_form as LF
    fn = ctx.function(LF.LinearForm._assemble)
    fk = ctx.function(LF.LinearForm._kernel)
    with sarr.index_context() as c:
        nt, nq = _ctx_common(c)
        vb = StubBasis(c, "v", nt, nq)
        form = FormStub(nt, nq)
        with sarr.mode_i([LF]):
            indices, data, shape, lshape = LF.LinearForm(form)._assemble(vb)
        Nv, NT = vb.Nbfun.t, nt.t
        size = tm.mul(Nv, NT)
        pre = "coo/linear"
        ctx.prove(pre + "/shapes", fn, tm.and_(tm.eq(sarr._t(indices.shape[0]), C(1)), tm.eq(sarr._t(indices.shape[1]), size),
                                               tm.eq(sarr._t(data.shape[0]), size)), hyps=c.all_hyps(), clause="indices.shape == (1, Nv*nt), data.shape == (Nv*nt,)")
        ctx.fact(pre + "/tensor-shape", fn, shape == (vb.N,) and shape[0] is vb.N and lshape[0] is vb.Nbfun, "shape %r" % (shape,),
                 clause="shape == (vbasis.N,), local_shape == (vbasis.Nbfun,)", backend="symbolic-execution")
        i, k = c.skolem("i", 0, Nv), c.skolem("k", 0, NT)
        p = tm.add(tm.mul(NT, i.t), k.t)
        row, dat = indices.get((C(0), p)), data.get((p,))
        hy = c.all_hyps()
        for W in {n for t_ in (row, dat) for n in tm.subterms(t_) if n.op == "app" and n.args[0].startswith("lw!")}:
            hy.append(lemma_block_unique(NT, W, i.t, k.t))
        ctx.prove(pre + "/rows-are-test-dofs", fn, tm.eq(row, vb.element_dofs.get((i.t, k.t))), hyps=hy, clause="indices[0, i*nt+k] == vbasis.element_dofs[i,k]",
                  replay=dict(kind="coo", form="linear", clause="rows"))
        spec = K("form_v", (i.t,), vb.dx, k.t, sarr._dim(nq))
        ctx.prove(pre + "/data-is-local-integral", fk, tm.eq(dat, spec), hyps=hy, clause="data[i*nt+k] == sum_q form(vbasis.basis[i], w)[k,q]*dx[k,q]",
                  replay=dict(kind="coo", form="linear", clause="data"))
        ctx.fact(pre + "/params", fn, all(cl[1] == vb.default_parameters() for cl in form.calls) and form.calls, "w", backend="symbolic-execution")
        try:
            with sarr.mode_i([LF]):
                LF.LinearForm(form)._assemble(vb, vb)
            ok = False
        except AssertionError:
            ok = True
        ctx.fact(pre + "/second-basis-rejected", fn, ok, "LinearForm takes one basis", backend="path-execution")


UNITS["coo/linear"] = coo_linear


def coo_functional(ctx):
    import skfem.assembly.form.functional as FU
    fn = ctx.function(FU.Functional._assemble)
    fe = ctx.function(FU.Functional.elemental)
    fk = ctx.function(FU.Functional._kernel)
    with sarr.index_context() as c:
        nt, nq = _ctx_common(c)
        vb = StubBasis(c, "v", nt, nq)
        form = FormStub(nt, nq)
        f = FU.Functional(form)
        with sarr.mode_i([FU]):
            el = f.elemental(vb)
            indices, data, shape, lshape = f._assemble(vb)
        k = c.skolem("k", 0, nt.t)
        spec = K("form_", (), vb.dx, k.t, sarr._dim(nq))
        ctx.prove("coo/functional/elemental", fk, tm.eq(el.get((k.t,)), spec), hyps=c.all_hyps(), clause="elemental(v)[k] == sum_q form(w)[k,q]*dx[k,q]")
        ctx.fact("coo/functional/elemental-shape", fe, el.ndim == 1 and sarr._t(el.shape[0]) is nt.t, "shape", backend="symbolic-execution")
        tot = sarr.np_sum(el, axis=0) if el.ndim == 1 else None
        ctx.fact("coo/functional/shape", fn, shape == () and lshape == () and np.size(indices) == 0 and data.ndim == 1 and data.shape[0] == 1,
                 "functional must return a scalar tensor (empty indices, one datum)", backend="symbolic-execution")
        ctx.prove("coo/functional/total", fn, tm.eq(data.get((C(0),)), tot.get(())), hyps=c.all_hyps(), clause="data[0] == sum_k elemental[k]")
        ctx.fact("coo/functional/params", fe, all(cl[1] == vb.default_parameters() for cl in form.calls) and form.calls, "w", backend="symbolic-execution")


UNITS["coo/functional"] = coo_functional


def coo_trilinear(ctx):
    import skfem.assembly.form.trilinear_form as TF
    fn = ctx.function(TF.TrilinearForm._assemble)
    fk = ctx.function(TF.TrilinearForm._kernel)
    with sarr.index_context() as c:
        nt, nq = _ctx_common(c)
        ub, vb, wb = StubBasis(c, "u", nt, nq), StubBasis(c, "v", nt, nq), StubBasis(c, "w", nt, nq)
        form = FormStub(nt, nq)
        with sarr.mode_i([TF]):
            indices, data, shape, lshape = TF.TrilinearForm(form)._assemble(ub, vb, wb)
        Nu, Nv, Nw, NT = ub.Nbfun.t, vb.Nbfun.t, wb.Nbfun.t, nt.t
        kk, j, i, e = c.skolem("kk", 0, Nu), c.skolem("j", 0, Nv), c.skolem("i", 0, Nw), c.skolem("e", 0, NT)
        dims = (Nu, Nv, Nw, NT)
        p = sarr.enc(dims, (kk.t, j.t, i.t, e.t))
        sarr.hint_radix(dims, (kk.t, j.t, i.t, e.t))
        pre = "coo/trilinear"
        reads = [indices.get((C(r_), p)) for r_ in range(3)] + [data.get((p,))]   # register the reads before instantiating
        hy = c.all_hyps()
        ctx.fact(pre + "/tensor-shape", fn, shape[0] is wb.N and shape[1] is vb.N and shape[2] is ub.N and lshape == (ub.Nbfun, vb.Nbfun, wb.Nbfun),
                 "shape %r" % (shape,), clause="shape == (wbasis.N, vbasis.N, ubasis.N)", backend="symbolic-execution")
        ctx.prove(pre + "/mats", fn, tm.eq(indices.get((C(0), p)), wb.element_dofs.get((i.t, e.t))), hyps=hy, clause="indices[0,p] == wbasis.element_dofs[i,e]")
        ctx.prove(pre + "/rows", fn, tm.eq(indices.get((C(1), p)), vb.element_dofs.get((j.t, e.t))), hyps=hy, clause="indices[1,p] == vbasis.element_dofs[j,e]")
        ctx.prove(pre + "/cols", fn, tm.eq(indices.get((C(2), p)), ub.element_dofs.get((kk.t, e.t))), hyps=hy, clause="indices[2,p] == ubasis.element_dofs[k,e]")
        spec = K("form_u_v_w", (kk.t, j.t, i.t), ub.dx, e.t, sarr._dim(nq))
        ctx.prove(pre + "/data", fk, tm.eq(data.get((p,)), spec), hyps=hy, clause="data[p] == sum_q form(u_k, v_j, w_i, params)[e,q]*dx[e,q]")


UNITS["coo/trilinear"] = coo_trilinear


def params_all_forms(ctx):
    """PARAMS for every form type, with user parameters whose names collide with the defaults (x, h, n)"""
    import skfem.assembly.form.bilinear_form as BF
    import skfem.assembly.form.linear_form as LF
    import skfem.assembly.form.functional as FU
    import skfem.assembly.form.trilinear_form as TF
    cvec, xvec = np.arange(5.0), np.arange(3.0)
    for name, mod, cls, nb in (("bilinear", BF, "BilinearForm", 2), ("linear", LF, "LinearForm", 1), ("functional", FU, "Functional", 1), ("trilinear", TF, "TrilinearForm", 3)):
        for entry in (("_assemble", "elemental") if name == "functional" else ("_assemble",)):
            with sarr.index_context() as c:
                nt, nq = _ctx_common(c)
                bases = [StubBasis(c, t_, nt, nq) for t_ in ("u", "v", "w")[:nb]]
                for b_ in bases:
                    b_.params = {"x": "default-x-" + b_.tag, "h": "default-h-" + b_.tag, "n": "default-n-" + b_.tag}
                form = FormStub(nt, nq)
                kw = dict(c=cvec, s=2.5, h=0.37, x=xvec, idx=(0, 1))
                f = getattr(mod, cls)(form)
                fn = ctx.function(getattr(getattr(mod, cls), entry))
                with sarr.mode_i([mod]):
                    getattr(f, entry)(*bases, **kw)
                lead = bases[0]
                want = dict(lead.default_parameters(), c=("interpolated-by", lead.tag, id(cvec)), s=2.5, h=0.37, x=("interpolated-by", lead.tag, id(xvec)), idx=(0, 1))
                ws = [cl[1] for cl in form.calls]
                ctx.fact("params/%s/%s" % (name, entry), fn, bool(ws) and all(w == want for w in ws), "w = %s, expected %s" % (ws[:1], want),
                         clause="w == default_parameters() of the integrating basis OVERLAID with the caller's parameters (a caller's x / h / n wins over the default), "
                                "coefficient vectors interpolated by that basis; identical for every form type", backend="symbolic-execution",
                         replay=dict(kind="coo", form=name, clause="params"))


UNITS["params/all-forms"] = params_all_forms


def asm_lists(ctx):
    """asm(form, [bases...], ...) == to(form.coo_data(*combination, idx=its index tuple, **the caller's kwargs) for every combination, in product order)"""
    import skfem.assembly as A
    from skfem.assembly.form.form import Form
    fn = ctx.function(A.asm)
    rec = []

    class Rec(Form):
        def coo_data(self, *args, **kw):
            rec.append((args, kw))
            return ("coo", len(rec) - 1)
    r = Rec(lambda u, v, w: None)
    cvec = np.arange(4.0)

    class B:
        def __init__(self, name):
            self.name, self.X = name, np.zeros((2, 3))

        def interpolate(self, w):
            return ("interpolated-by", self.name, id(w))

        def __repr__(self):
            return self.name
    b = [B("B0"), B("B1"), B("B2")]
    for case, args in (("one-list", ([b[0], b[1]],)), ("two-lists", ([b[0], b[1]], [b[1], b[2], b[0]])), ("list-and-single", ([b[0], b[1]], b[2])), ("singles", (b[0], b[1]))):
        del rec[:]
        out = A.asm(r, *args, to=list, k=cvec, s=1.5)
        lists = [a if isinstance(a, list) else [a] for a in args]
        import itertools as it
        want = [(combo, idx) for idx, combo in zip(it.product(*[range(len(x)) for x in lists]), it.product(*lists))]
        ok = (len(rec) == len(want) and out == [("coo", n) for n in range(len(want))]
              and all(rec[n][0] == want[n][0] and rec[n][1].get("idx") == want[n][1] and rec[n][1].get("k") is cvec and rec[n][1].get("s") == 1.5 and set(rec[n][1]) == {"idx", "k", "s"}
                      for n in range(len(want))))
        ctx.fact("asm/lists/%s" % case, fn, bool(ok), "asm does not hand every combination of bases, with its index tuple and the caller's own (un-normalised) parameters, to coo_data: %s" % rec[:2],
                 clause="asm(form, *lists, **kw) == to(form.coo_data(*combo, idx=index, **kw) for (index, combo) in product order); kw objects are passed as given, "
                        "so that each combination normalises them against ITS OWN basis", backend="path-execution", replay=dict(kind="coo", form="asm", clause="lists"))
    # plain callables are wrapped by their arity
    seen = {}
    saved = {n: getattr(A, n) for n in ("Functional", "LinearForm", "BilinearForm", "TrilinearForm")}
    try:
        for n in saved:
            def mk(n=n):
                class W(Rec):
                    def __init__(self, form):
                        Form.__init__(self, form)
                        seen["cls"] = n
                return W
            setattr(A, n, mk())
        okw = True
        for fun, want in ((lambda w: 0, "Functional"), (lambda v, w: 0, "LinearForm"), (lambda u, v, w: 0, "BilinearForm"), (lambda u, v, z, w: 0, "TrilinearForm")):
            seen.clear()
            A.asm(fun, b[0], to=list)
            okw &= seen.get("cls") == want
    finally:
        for n, v in saved.items():
            setattr(A, n, v)
    ctx.fact("asm/wrap-by-arity", fn, bool(okw), "a plain function must be wrapped as Functional / LinearForm / BilinearForm / TrilinearForm by its number of arguments", backend="path-execution")


UNITS["asm/lists"] = asm_lists


def standin_assembly(ctx):
    import time
    from skv import core
    t0 = time.time()
    r = core.run_native("standin_assembly.py", dict(seed=ctx.seed, tier=ctx.tier))
    ctx.standin("assembly end-to-end: v^T A u == a(u_h,v_h), b.v == l(v_h), COO-B on real triplets", r["bound"], r["cases"], r["failures"],
                samples=r["samples"], time_s=time.time() - t0)


UNITS["standin/assembly"] = standin_assembly


def _thread_unit(nu, nv):
    # the threaded path of BilinearForm._assemble must produce the same triplets (contract shared with C16)
    def run(ctx):
        from props import C16
        return C16.threaded_unit(nu, nv)(ctx)
    return run


for _nu, _nv in ((2, 1), (2, 3)):
    UNITS["threads/Nu%dNv%d" % (_nu, _nv)] = _thread_unit(_nu, _nv)
