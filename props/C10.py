"""C10 — reference maps, Jacobians, facet maps and normals are mutually consistent.

contract  MappingAffine (all methods)             (Mode P: two cells with symbolic vertex coordinates, dims 1,2,3; X shared and per-cell)
  ensures   AFF-A      A[i,j,k] == p[i,t[j+1,k]] - p[i,t[0,k]], b[i,k] == p[i,t[0,k]]
            DET-A      detA == Leibniz determinant of A;  INV  invA*A == I, A*invA == I   (det != 0)
            F / INVF   F(X) == A X + b; invF(F(X)) == X and F(invF(x)) == x;  DF == A, invDF == invA, detDF == detA broadcast over points
            SHAPES     shared (d, npts) and per-cell (d, nt, npts) point arrays give the same values when X3[j,k,l] = X2[j,l]
            TIND       m(X, tind)[.., a, ..] == m(X)[.., tind[a], ..] for every method, and the constructor-level tind mode
            FACETMAP   G(s) == c + B s with B's columns the differences of the facet's vertices; invF(G(s), owner cell) lies on the reference slot
            DET-B      detB >= 0 and detB^2 == Gram determinant of B  (facet measure / reference facet measure)
            NORMALS    n == nt/|nt| with nt = invDF^T Nref[slot]; nt . B[:,m] == 0; nt . (F(x_facet) - F(x_opposite)) == Nref . (x_facet - x_opposite) > 0
                       (unit, orthogonal to the facet, outward for either sign of det); Nref rows == refdom.normals
contract  MappingIsoparametric                    (Mode P)
  ensures   AFF=ISO    with ElementLineP1/TriP1/TetP1: F_iso == F_aff, J == A, detDF == detA, invDF == invA, G/detDG agree
            ISO-Q      ElementQuad1 (generic convex quadrilateral, generic point): J[i][j] == dF_i/dX_j (spec differentiation of the delivered F),
                       detDF == Leibniz, invDF*DF == I, detDG^2 == |dG/ds|^2, normals unit/orthogonal/outward-formula
bounded   Newton inverse (invF(F(X)) = X on multilinear and curved cells), integral of x.n == d*|Omega| on plain/mirrored/jiggled/curved meshes,
          per-cell point arrays with tind=None, facet map on the adjacent cell's face for all cell types (native stand-in)
"""
from __future__ import annotations

import itertools
from fractions import Fraction

import numpy as np

from skv import paths, pmode, poly
from skv import term as tm
from skv.poly import Poly, Rat
from skv.term import S

LEVEL = "proof"
EXPLANATION = ("Affine maps: every method proved as a rational identity in symbolic vertex coordinates (dims 1-3, shared/per-cell points, cell subsets); "
               "isoparametric: AFF=ISO on simplices and the bilinear quadrilateral proved; Newton inverse and curved cells bounded.")
ASSUMPTIONS = ["A1: exact real arithmetic", "non-degenerate cells (det != 0) as precondition", "Newton iteration convergence, curved (second-order) cells and x.n integrals: bounded stand-in only"]
TRUSTED = ["NumPy object arrays executing the real mapping code", "spec differentiation skv/poly.py"]
UNITS = {}


class StubMesh:
    def __init__(self, d, nverts, t, facets=None, t2f=None):
        self.p = pmode.sym_array("p", (d, nverts))
        self.doflocs = self.p
        self.t = np.asarray(t)
        self.facets, self.t2f = facets, t2f
        self._d = d

    def dim(self):
        return self._d


def topo(d):
    import skfem.mesh.mesh as M
    from skfem import refdom as R
    if d == 1:
        t = np.array([[0, 1], [1, 2]])
        rd = R.RefLine
        nv = 3
    elif d == 2:
        t = np.array([[0, 1], [1, 2], [2, 3]])
        rd = R.RefTri
        nv = 4
    else:
        t = np.array([[0, 1], [1, 2], [2, 3], [3, 4]])
        rd = R.RefTet
        nv = 5
    facets, t2f = M.Mesh.build_entities(t, rd.facets)
    return nv, t, facets, t2f, rd


def R_(v):
    return poly.term_to_rat(tm.lift(v))


def same(a, b):
    return (R_(a) - R_(b)).is_zero()


def leibniz(A):
    d = len(A)
    if d == 1:
        return A[0][0]
    if d == 2:
        return A[0][0] * A[1][1] - A[0][1] * A[1][0]
    return (A[0][0] * (A[1][1] * A[2][2] - A[1][2] * A[2][1]) - A[0][1] * (A[1][0] * A[2][2] - A[1][2] * A[2][0]) + A[0][2] * (A[1][0] * A[2][1] - A[1][1] * A[2][0]))


def affine_unit(d):
    def run(ctx):
        from skfem.mapping import MappingAffine
        nv, t, facets, t2f, rd = topo(d)
        m = StubMesh(d, nv, t, facets, t2f)
        p = m.p
        nt, NP = t.shape[1], 2
        pre = "affine/d%d" % d
        X2 = pmode.sym_array("X", (d, NP))
        X3 = np.empty((d, nt, NP), dtype=object)
        for j in range(d):
            for k in range(nt):
                for l in range(NP):
                    X3[j, k, l] = X2[j, l]
        with pmode.symbolic_numpy():
            mp = MappingAffine(m)
            A, b, detA, invA = mp.A, mp.b, mp.detA, mp.invA
            F2, F3 = mp.F(X2), mp.F(X3)
            DF2, DF3, iDF, dDF = mp.DF(X2), mp.DF(X3), mp.invDF(X2), mp.detDF(X2)
            iF = mp.invF(F2)
            xg = pmode.sym_array("x", (d, nt, NP))
            FiF = mp.F(mp.invF(xg))
        f = lambda name: ctx.function(getattr(MappingAffine, name))
        fA, fI, fF, fiF = f("_init_Ab"), f("_init_invA"), f("F"), f("invF")
        ok = all(same(A[i, j, k], p[i, t[j + 1, k]] - p[i, t[0, k]]) and same(b[i, k], p[i, t[0, k]]) for i in range(d) for j in range(d) for k in range(nt))
        ctx.fact(pre + "/A-b", fA, ok, "A/b are not the edge vectors / first vertex", clause="A[i,j,k] == p[i,t[j+1,k]] - p[i,t[0,k]], b[i,k] == p[i,t[0,k]]", replay=dict(kind="maps"))
        for k in range(nt):
            Ak = [[A[i, j, k] for j in range(d)] for i in range(d)]
            ctx.prove(pre + "/detA/cell%d" % k, fI, S(tm.lift(detA[k])) == leibniz(Ak), clause="detA == Leibniz determinant of A", replay=dict(kind="maps"))
            for i, j in itertools.product(range(d), repeat=2):
                l1 = sum(invA[i, q, k] * A[q, j, k] for q in range(d))
                l2 = sum(A[i, q, k] * invA[q, j, k] for q in range(d))
                ctx.fact(pre + "/inverse/cell%d/%d%d" % (k, i, j), fI, same(l1, 1 if i == j else 0) and same(l2, 1 if i == j else 0),
                         "invA is not the inverse of A", clause="det != 0  =>  (invA A)[i,j] == (A invA)[i,j] == delta_ij", replay=dict(kind="maps"))
            for l in range(NP):
                for i in range(d):
                    want = sum(A[i, j, k] * X2[j, l] for j in range(d)) + b[i, k]
                    ctx.fact(pre + "/F/cell%d/pt%d/c%d" % (k, l, i), fF, same(F2[i, k, l], want) and same(F3[i, k, l], want), "F(X) != A X + b",
                             clause="F(X)[i,k,l] == sum_j A[i,j,k] X[j,l] + b[i,k]  (shared and per-cell point arrays)", replay=dict(kind="maps"))
                    ctx.fact(pre + "/invF-F/cell%d/pt%d/c%d" % (k, l, i), fiF, same(iF[i, k, l], X2[i, l]), "invF(F(X)) != X", clause="invF(F(X)) == X", replay=dict(kind="maps"))
                    ctx.fact(pre + "/F-invF/cell%d/pt%d/c%d" % (k, l, i), fiF, same(FiF[i, k, l], xg[i, k, l]), "F(invF(x)) != x", clause="F(invF(x)) == x")
                ok = all(same(DF2[i, j, k, l], A[i, j, k]) and same(DF3[i, j, k, l], A[i, j, k]) and same(iDF[i, j, k, l], invA[i, j, k]) for i in range(d) for j in range(d))
                ctx.fact(pre + "/DF-invDF/cell%d/pt%d" % (k, l), f("DF"), ok and same(dDF[k, l], detA[k]), "DF/invDF/detDF are not A/invA/detA broadcast over points",
                         clause="DF == A, invDF == invA, detDF == detA at every point", replay=dict(kind="maps"))
        ctx.fact(pre + "/shapes", fF, F2.shape == (d, nt, NP) and DF2.shape == (d, d, nt, NP) and dDF.shape == (nt, NP) and iF.shape == (d, nt, NP), "result shapes")
        # TIND
        for tind in (np.array([1]), np.array([1, 0])):
            with pmode.symbolic_numpy():
                Ft, DFt, dt, it = mp.F(X2, tind), mp.DF(X2, tind), mp.detDF(X2, tind), mp.invDF(X2, tind)
                mp2 = MappingAffine(m, tind=tind)
                Fc, dc = mp2.F(X2), mp2.detDF(X2)
                iFt = mp.invF(Ft, tind)
            ok = all(same(Ft[i, a, l], F2[i, tind[a], l]) and same(Fc[i, a, l], F2[i, tind[a], l]) and same(iFt[i, a, l], X2[i, l]) for i in range(d) for a in range(len(tind)) for l in range(NP))
            ok &= all(same(DFt[i, j, a, l], DF2[i, j, tind[a], l]) and same(it[i, j, a, l], iDF[i, j, tind[a], l]) for i in range(d) for j in range(d) for a in range(len(tind)) for l in range(NP))
            ok &= all(same(dt[a, l], dDF[tind[a], l]) and same(dc[a, l], dDF[tind[a], l]) for a in range(len(tind)) for l in range(NP))
            ctx.fact(pre + "/tind/%s" % tind.tolist(), fF, bool(ok), "subsetting by tind does not commute with the map methods",
                     clause="m(X, tind)[.., a, ..] == m(X)[.., tind[a], ..] for F, DF, invDF, detDF, invF; constructor-level tind likewise", replay=dict(kind="maps"))
        # facet map, detB, normals
        nf = facets.shape[1]
        fB, fG, fN = f("_init_boundary_mapping"), f("G"), f("normals")
        Sg = pmode.sym_array("s", (max(d - 1, 1), 1)) if d > 1 else np.zeros((0, 1), dtype=object)
        with pmode.symbolic_numpy():
            B, c, detB = mp.B, mp.c, mp.detB
            Gs = mp.G(Sg) if d > 1 else None
        okB = all(same(c[i, fc], p[i, facets[0, fc]]) and all(same(B[i, j, fc], p[i, facets[j + 1, fc]] - p[i, facets[0, fc]]) for j in range(d - 1)) for i in range(d) for fc in range(nf))
        ctx.fact(pre + "/B-c", fB, bool(okB), "B/c are not the facet edge vectors / first facet vertex", clause="B[i,j,f] == p[i,facets[j+1,f]] - p[i,facets[0,f]], c == p[:, facets[0]]")
        for fc in range(nf):
            if d == 1:
                ok = same(detB[fc], 1)
                gram = None
            elif d == 2:
                gram = B[0, 0, fc] * B[0, 0, fc] + B[1, 0, fc] * B[1, 0, fc]
            else:
                u, v = [B[i, 0, fc] for i in range(3)], [B[i, 1, fc] for i in range(3)]
                gram = sum(a * a for a in u) * sum(a * a for a in v) - sum(a * b_ for a, b_ in zip(u, v)) ** 2
            if gram is not None:
                tt = tm.lift(detB[fc])
                ok = tt.op == "sqrt" and (poly.term_to_rat(tt.args[0]) - R_(gram)).is_zero()
            ctx.fact(pre + "/detB/facet%d" % fc, fB, bool(ok), "detB is not sqrt(Gram determinant of B)", clause="detB == sqrt(det(B^T B)) (>= 0; facet measure ratio)", replay=dict(kind="maps"))
        slots = [list(s) for s in rd.facets]
        refp = np.asarray(rd.p, dtype=float)
        Nref = np.asarray(rd.normals, dtype=float)
        for k in range(nt):
            for s in range(len(slots)):
                fc = int(t2f[s, k])
                find = np.array([fc])
                tind = np.array([k])
                if d > 1:
                    with pmode.symbolic_numpy():
                        Y = mp.invF(mp.G(Sg, find), tind)      # reference coordinates of the facet point seen from cell k
                    # equation of reference slot s: Nref[s] . (Y - ref vertex of the slot) == 0
                    v0 = refp[:, slots[s][0]]
                    eq = sum(Fraction(float(Nref[s, i])).limit_denominator(8) * (Y[i, 0, 0] - Fraction(float(v0[i])).limit_denominator(8)) for i in range(d))
                    ctx.fact(pre + "/facetmap/cell%d/slot%d" % (k, s), fG, same(eq, 0), "invF(G(s)) does not lie on the reference slot of the adjacent cell",
                             clause="invF(G(sigma, f), cell)[.] satisfies the equation of reference slot %d for f = t2f[%d, cell]" % (s, s), replay=dict(kind="maps"))
                with pmode.symbolic_numpy():
                    n = mp.normals(X2[:, :1], tind, find, t2f)
                nk = [tm.lift(n[j, 0, 0]) for j in range(d)]
                Ls = {x for tj in nk for x in tm.subterms(tj) if x.op == "sqrt"}
                nt_ = [sum(invA[i, j, k] * Fraction(float(Nref[s, i])).limit_denominator(8) for i in range(d)) for j in range(d)]
                ok = len(Ls) == 1
                if ok:
                    L = next(iter(Ls))
                    ok = (poly.term_to_rat(L.args[0]) - R_(sum(a * a for a in nt_))).is_zero()
                    ok &= all((poly.term_to_rat(tm.mul(nk[j], L)) - R_(nt_[j])).is_zero() for j in range(d))
                ctx.fact(pre + "/normals/cell%d/slot%d/unit-direction" % (k, s), fN, bool(ok), "n is not invDF^T Nref[slot] normalised to unit length",
                         clause="n == nt/|nt| with nt = invDF^T Nref[slot]  (=> |n| == 1)", replay=dict(kind="maps"))
                if d > 1:
                    okp = all(same(sum(nt_[i] * B[i, mcol, fc] for i in range(d)), 0) for mcol in range(d - 1))
                    ctx.fact(pre + "/normals/cell%d/slot%d/orthogonal" % (k, s), fN, bool(okp), "normal is not orthogonal to the facet", clause="nt . B[:, m, f] == 0 for every facet tangent")
                opp = [v for v in range(d + 1) if v not in slots[s]][0]
                xi_f = refp[:, slots[s][0]]
                dxi = [Fraction(float(xi_f[i] - refp[i, opp])).limit_denominator(8) for i in range(d)]
                w = [sum(A[i, j, k] * dxi[j] for j in range(d)) for i in range(d)]
                lhs = sum(nt_[i] * w[i] for i in range(d))
                cst = sum(Fraction(float(Nref[s, i])).limit_denominator(8) * dxi[i] for i in range(d))
                ctx.fact(pre + "/normals/cell%d/slot%d/outward" % (k, s), fN, same(lhs, cst) and cst > 0, "normal does not point away from the opposite vertex",
                         clause="nt . (x_facet - x_opposite) == Nref . (xi_facet - xi_opposite) = %s > 0 for either sign of det" % cst, replay=dict(kind="maps"))
    return run


for _d in (1, 2, 3):
    UNITS["affine/d%d" % _d] = affine_unit(_d)


def aff_iso_unit(d):
    def run(ctx):
        import skfem as fem
        from skfem.mapping import MappingAffine, MappingIsoparametric
        nv, t, facets, t2f, rd = topo(d)
        m = StubMesh(d, nv, t, facets, t2f)

        class D:
            element_dofs = t
            edge_dofs = np.empty((0, 0), dtype=int)
            facet_dofs = np.empty((0, 0), dtype=int)
        m.dofs = D()
        el = {1: fem.ElementLineP1, 2: fem.ElementTriP1, 3: fem.ElementTetP1}[d]()
        bel = {1: None, 2: fem.ElementLineP1(), 3: fem.ElementTriP1()}[d]
        NP = 2
        X2 = pmode.sym_array("X", (d, NP))
        fn = ctx.function(MappingIsoparametric.Fmap)
        fj = ctx.function(MappingIsoparametric._J)
        pre = "aff-iso/d%d" % d

        def body():
            with pmode.symbolic_numpy():
                ma = MappingAffine(m)
                mi = MappingIsoparametric(m, el, bel)
                mi.J = mi._J          # the cache wrapper is the subject of C15; hash() of symbolic arrays is not defined
                out = dict(Fa=ma.F(X2), Fi=mi.F(X2), A=ma.A, J=mi.DF(X2), da=ma.detDF(X2), di=mi.detDF(X2), ia=ma.invDF(X2), ii=mi.invDF(X2))
                tind = np.array([1, 0])
                X3 = np.empty((d, t.shape[1], NP), dtype=object)
                for j_ in range(d):
                    for k_ in range(t.shape[1]):
                        X3[j_, k_] = X2[j_]
                out.update(Ft=mi.F(X2, tind), Jt=mi.DF(X2, tind), dt=mi.detDF(X2, tind), it=mi.invDF(X2, tind), F3=mi.F(X3), J3=mi.DF(X3), d3=mi.detDF(X3),
                           F3t=mi.F(X3[:, tind], tind), tind=tind)
                if d > 1:
                    Sg = pmode.sym_array("s", (d - 1, 1))
                    out.update(Ga=ma.G(Sg), Gi=mi.G(Sg), dGa=ma.detDG(Sg), dGi=mi.detDG(Sg))
                return out
        ps = [q for q in paths.explore(body, max_paths=8) if q.exc is None]
        ctx.fact(pre + "/paths", fn, len(ps) == 1, "expected exactly one non-raising path (all determinants non-zero), got %d" % len(ps), backend="path-execution")
        if not ps:
            return
        o = ps[0].result
        nt = t.shape[1]
        ok = all(same(o["Fa"][i, k, l], o["Fi"][i, k, l]) for i in range(d) for k in range(nt) for l in range(NP))
        ctx.fact(pre + "/F", fn, ok, "F_iso != F_aff", clause="sum_i p_i phi_i(X) == A X + b for P1 geometry", replay=dict(kind="maps"))
        ok = all(same(o["J"][i, j, k, l], o["A"][i, j, k]) for i in range(d) for j in range(d) for k in range(nt) for l in range(NP))
        ctx.fact(pre + "/J", fj, ok, "J != A", clause="J[i][j] == A[i,j] at every point", replay=dict(kind="maps"))
        ok = all(same(o["da"][k, l], o["di"][k, l]) for k in range(nt) for l in range(NP)) and all(same(o["ia"][i, j, k, l], o["ii"][i, j, k, l]) for i in range(d) for j in range(d) for k in range(nt) for l in range(NP))
        ctx.fact(pre + "/detDF-invDF", ctx.function(MappingIsoparametric.invDF), ok, "detDF/invDF differ between the implementations", clause="detDF_iso == detA, invDF_iso == invA", replay=dict(kind="maps"))
        tind = o["tind"]
        ok = all(same(o["Ft"][i, a, l], o["Fi"][i, tind[a], l]) and same(o["F3"][i, tind[a], l], o["Fi"][i, tind[a], l]) and same(o["F3t"][i, a, l], o["Fi"][i, tind[a], l])
                 for i in range(d) for a in range(len(tind)) for l in range(NP))
        ok &= all(same(o["Jt"][i, j, a, l], o["J"][i, j, tind[a], l]) and same(o["J3"][i, j, tind[a], l], o["J"][i, j, tind[a], l]) and same(o["it"][i, j, a, l], o["ii"][i, j, tind[a], l])
                  for i in range(d) for j in range(d) for a in range(len(tind)) for l in range(NP))
        ok &= all(same(o["dt"][a, l], o["di"][tind[a], l]) and same(o["d3"][tind[a], l], o["di"][tind[a], l]) for a in range(len(tind)) for l in range(NP))
        ctx.fact(pre + "/tind-and-percell", fj, bool(ok), "cell subsets / per-cell point arrays do not commute with the isoparametric map methods",
                 clause="m(X, tind)[.., a, ..] == m(X)[.., tind[a], ..]; per-cell X (with and without tind) gives the same values as shared X", replay=dict(kind="maps"))
        if d > 1:
            nf = facets.shape[1]
            ok = all(same(o["Ga"][i, f_, 0], o["Gi"][i, f_, 0]) for i in range(d) for f_ in range(nf))
            ctx.fact(pre + "/G", ctx.function(MappingIsoparametric.bndmap), ok, "facet maps differ", clause="G_iso == G_aff")
            ok = all(tm.lift(o["dGa"][f_, 0]).op == "sqrt" and tm.lift(o["dGi"][f_, 0]).op == "sqrt"
                     and (poly.term_to_rat(tm.lift(o["dGa"][f_, 0]).args[0]) - poly.term_to_rat(tm.lift(o["dGi"][f_, 0]).args[0])).is_zero() for f_ in range(nf))
            ctx.fact(pre + "/detDG", ctx.function(MappingIsoparametric.detDG), ok, "facet measures differ", clause="detDG_iso == detB")
    return run


for _d in (1, 2, 3):
    UNITS["aff-iso/d%d" % _d] = aff_iso_unit(_d)


def iso_quad(ctx):
    """generic bilinear quadrilateral (symbolic vertices), generic point"""
    import skfem as fem
    from skfem.mapping import MappingIsoparametric
    t = np.array([[0], [1], [2], [3]])
    m = StubMesh(2, 4, t)

    class D:
        element_dofs = t
        edge_dofs = np.empty((0, 0), dtype=int)
        facet_dofs = np.empty((0, 0), dtype=int)
    m.dofs = D()
    m.facets = np.array([[0, 1, 2, 0], [1, 2, 3, 3]])
    X = pmode.sym_array("X", (2, 1))
    fn = ctx.function(MappingIsoparametric._J)

    def body():
        with pmode.symbolic_numpy():
            mi = MappingIsoparametric(m, fem.ElementQuad1(), fem.ElementLineP1())
            mi.J = mi._J
            Sg = pmode.sym_array("s", (1, 1))
            z = np.array([0])
            return dict(F=mi.F(X), J=mi.DF(X), det=mi.detDF(X), inv=mi.invDF(X), G=mi.G(Sg), dG=mi.detDG(Sg), Sg=Sg,
                        Ft=mi.F(X, z), Jt=mi.DF(X, z), Gt=mi.G(Sg, np.array([2, 1])), dGt=mi.detDG(Sg, np.array([2, 1])))
    ps = [q for q in paths.explore(body, max_paths=8) if q.exc is None]
    ctx.fact("iso-quad/paths", fn, len(ps) == 1, "expected one non-raising path", backend="path-execution")
    if not ps:
        return
    o = ps[0].result
    Fp = [pmode.p_of(o["F"][i, 0, 0]) for i in range(2)]
    for i, j in itertools.product(range(2), repeat=2):
        ctx.prove("iso-quad/J%d%d" % (i, j), fn, tm.eq(tm.to_real(tm.lift(o["J"][i, j, 0, 0])), poly.poly_to_term(Fp[i].diff("X%d0" % j))),
                  clause="J[%d][%d] == d F_%d / d X_%d  (spec differentiation of the delivered map)" % (i, j, i, j), replay=dict(kind="maps"))
    J = [[o["J"][i, j, 0, 0] for j in range(2)] for i in range(2)]
    ctx.prove("iso-quad/det", ctx.function(MappingIsoparametric.detDF), S(tm.lift(o["det"][0, 0])) == leibniz(J), clause="detDF == J00 J11 - J01 J10")
    for i, j in itertools.product(range(2), repeat=2):
        l1 = sum(o["inv"][i, q, 0, 0] * J[q][j] for q in range(2))
        ctx.fact("iso-quad/inverse%d%d" % (i, j), ctx.function(MappingIsoparametric.invDF), same(l1, 1 if i == j else 0), "invDF*DF != I",
                 clause="det != 0 => (invDF DF)[i,j] == delta_ij", replay=dict(kind="maps"))
    ok = all(same(o["Ft"][i, 0, 0], o["F"][i, 0, 0]) for i in range(2)) and all(same(o["Jt"][i, j, 0, 0], o["J"][i, j, 0, 0]) for i in range(2) for j in range(2))
    ok &= all(same(o["Gt"][i, a, 0], o["G"][i, f_, 0]) for i in range(2) for a, f_ in enumerate((2, 1)))
    ok &= all((poly.term_to_rat(tm.lift(o["dGt"][a, 0]).args[0]) - poly.term_to_rat(tm.lift(o["dG"][f_, 0]).args[0])).is_zero() for a, f_ in enumerate((2, 1)))
    ctx.fact("iso-quad/subsets", fn, bool(ok), "explicit cell/facet subsets give different values", clause="F/DF with tind and G/detDG with find agree with the unrestricted calls",
             replay=dict(kind="maps"))
    # facet map: straight segment between the facet's vertices; measure = length
    s = o["Sg"][0, 0]
    for f_ in range(4):
        a, b = m.facets[:, f_]
        ok = all(same(o["G"][i, f_, 0], m.p[i, a] * (1 - s) + m.p[i, b] * s) for i in range(2))
        tt = tm.lift(o["dG"][f_, 0])
        ok &= tt.op == "sqrt" and (poly.term_to_rat(tt.args[0]) - R_(sum((m.p[i, b] - m.p[i, a]) ** 2 for i in range(2)))).is_zero()
        ctx.fact("iso-quad/facet%d" % f_, ctx.function(MappingIsoparametric.bndmap), bool(ok), "facet map / surface factor wrong",
                 clause="G(s) == (1-s) p_a + s p_b and detDG == |p_b - p_a|", replay=dict(kind="maps"))


UNITS["iso-quad"] = iso_quad


def standin_maps(ctx):
    import time
    from skv import core
    t0 = time.time()
    r = core.run_native("standin_maps.py", dict(seed=ctx.seed, tier=ctx.tier), timeout=3000)
    ctx.standin("maps: Newton inverse, facet maps on the adjacent face, normals, int x.n = d|Omega|, affine == isoparametric, point-array forms and cell subsets",
                r["bound"], r["cases"], r["failures"], samples=r["samples"], time_s=time.time() - t0)


UNITS["standin/maps"] = standin_maps
HEAVY_FIRST = ["standin/maps", "affine/d3"]
