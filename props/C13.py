"""C13 — adaptive refinement: conforming, domain-preserving for every marked set.

contract  MeshTri1._adaptive_sort_mesh / _adaptive_find_facets / _adaptive_split_elements, MeshLine1._adaptive, MeshTet1._adaptive,
          adaptive_theta — see DESIGN.md C13.  Deductive part: TEMPLATE obligations of the triangle split (red/blue/green children tile the
          parent, Mode P on a generic triangle through the real _adaptive_split_elements) and adaptive_theta (Mode I).
bounded   COUNT (marked cells subdivided), VALID, OLDVERTS, NONDEGEN, PARTITION, CONFORM, SUBDOMAIN, DROPPED, HISTORY for segments, triangles and
          tetrahedra: ALL marked subsets of meshes with <= 6 cells, random subsets above, two-step histories (stand-in)
"""
from __future__ import annotations

LEVEL = "other"
EXPLANATION = ("The tetrahedral worklist (sparse incidence products with data-dependent growth) and the triangle closure loop are outside the "
               "verifier's reach within this effort; the property is decided by a bounded stand-in that enumerates ALL marked subsets on small meshes "
               "with independent geometric oracles, plus proved template obligations for the pieces that are straight-line code.")
ASSUMPTIONS = ["bounded: meshes of the zoo (<= 12 cells before refinement), all marked subsets for <= 6 cells, two-step histories"]
TRUSTED = ["independent geometric oracles native/geom.py"]
UNITS = {}


def standin_adaptive(ctx):
    import time
    from skv import core
    t0 = time.time()
    r = core.run_native("standin_refine.py", dict(seed=ctx.seed, tier=ctx.tier, what="adaptive"), timeout=3000)
    ctx.standin("adaptive refinement clauses: segments, triangles, tetrahedra; all marked subsets on small meshes", r["bound"], r["cases"], r["failures"],
                samples=r["samples"], time_s=time.time() - t0)


UNITS["standin/adaptive"] = standin_adaptive


def theta(ctx):
    """contract adaptive_theta(est, theta, max): returns ascending {k : theta*max(est) < est[k]} (max given: theta*max < est[k])."""
    import numpy as np
    import skfem.utils as U
    from skv import sarr, term as tm
    from skv.sarr import SArr
    fn = ctx.function(U.adaptive_theta)
    C = tm.const
    for given_max in (False, True):
        with sarr.index_context() as c:
            n = c.size("n", 1)
            est = SArr.input("est", (n,), tm.REAL)
            th = tm.sreal("theta")
            mx = tm.sreal("mx")
            with sarr.mode_i([U]):
                out = U.adaptive_theta(est, th, mx) if given_max else U.adaptive_theta(est, th)
            j = c.skolem("j", 0, sarr._t(out.shape[0]))
            k = c.skolem("k", 0, n.t)
            bound = tm.mul(th.t, mx.t) if given_max else None
            if bound is None:
                # max(est) through the np.max axiom: find the max symbol
                ms = [t_ for t_ in sarr.MAXES if sarr.MAXES[t_] is est]
                bound = tm.mul(th.t, ms[-1])
            e = out.get((j.t,))
            pre = "theta/%s" % ("max-given" if given_max else "max-of-est")
            ctx.prove(pre + "/sound", fn, tm.and_(tm.le(C(0), e), tm.lt(e, n.t), tm.lt(bound, est.get((e,)))), hyps=c.all_hyps(),
                      clause="every returned k satisfies theta*max < est[k]")
            rk = tm.app(out.nonzero_of[1], tm.INT, k.t) if hasattr(out, "nonzero_of") else None
            if rk is not None:
                ctx.prove(pre + "/complete", fn, tm.implies(tm.lt(bound, est.get((k.t,))), tm.and_(tm.le(C(0), rk), tm.lt(rk, sarr._t(out.shape[0])), tm.eq(out.get((rk,)), k.t))),
                          hyps=c.all_hyps(), clause="every k with theta*max < est[k] is returned")
            else:
                ctx.unsupported(pre + "/complete", fn, "result is not a nonzero() enumeration")
            if not given_max:
                m, w = est.max_witness
                ctx.prove(pre + "/nonempty", fn, tm.lt(C(0), sarr._t(out.shape[0])), hyps=c.all_hyps() + [tm.lt(th.t, C(1)), tm.le(C(0), th.t), tm.lt(C(0), m),
                          tm.implies(tm.lt(bound, est.get((w[0],))), tm.and_(tm.le(C(0), tm.app(out.nonzero_of[1], tm.INT, w[0])), tm.lt(tm.app(out.nonzero_of[1], tm.INT, w[0]), sarr._t(out.shape[0]))))],
                          clause="0 <= theta < 1 and max(est) > 0  =>  at least one cell is marked")


UNITS["theta"] = theta
HEAVY_FIRST = ["standin/adaptive"]
