"""C20 — autodiff gives the true Jacobian; integrand helpers equal their definitions.

contract  skfem.helpers.<h> and skfem.autodiff.helpers.<h>      (Mode P; shapes enumerated completely)
  requires  operands are tensor fields of leading shape in {(2,),(3,),(2,2),(3,3),(2,2,2),(3,3,3)}
            with one generic trailing point (nel = nqp = 1, entries free real symbols)
  ensures   the result equals the index-sum definition written below (dot, ddot, dddot, prod, mul,
            trace, transpose, eye, identity, sym_grad, div, curl, det, inv, cross, inner, jump, grad/d/dd/...)
            — entry by entry, for all real entries (z3 QF_NRA; rational identities for inv under det != 0)
  ensures   NumPy variant == JAX variant wherever both exist (both are proved equal to the same definition)
contract  NonlinearForm._assemble  (AD-BOOK; Mode I) — see the 'adbook' unit
bounded   Jacobian vs central differences / hand-linearised forms through real JAX (stand-in, native)

The JAX variant is executed under python3-vt with `jax.numpy` bound to NumPy on object arrays
(assumption: jnp.einsum/array/zeros_like agree with NumPy's; cross-checked natively in the stand-in).
"""
from __future__ import annotations

import itertools
import sys
import types
from fractions import Fraction

import numpy as np

from skv import pmode, poly
from skv import term as tm
from skv.term import S

LEVEL = "proof"
EXPLANATION = ("Every helper is executed (real function objects) on symbolic tensors of every admissible shape and "
               "proved equal to its index-sum definition; AD bookkeeping is proved in Mode I; JAX itself is trusted and "
               "exercised by a bounded stand-in.")
ASSUMPTIONS = [
    "A1: float64 arithmetic treated as exact real arithmetic",
    "jax.numpy.einsum/array/zeros_like/asarray agree with NumPy's (JAX variant executed with jnp := NumPy on object arrays)",
    "jax.linearize(f, x) returns (f(x), v -> f'(x) v) and jax.jvp the directional derivative (trusted; exercised by the bounded stand-in)",
]
TRUSTED = ["JAX 0.11 (linearize/jvp)", "NumPy einsum on object arrays"]
UNITS = {}


def unit(name):
    def deco(f):
        UNITS[name] = f
        return f
    return deco


def install_fake_jax():
    """Make skfem.autodiff importable under the engine's interpreter (no JAX
    there): jax.numpy := NumPy (object arrays carry the symbols)."""
    if "jax" in sys.modules and not getattr(sys.modules["jax"], "_skv_fake", False):
        return False
    if "jax" in sys.modules:
        return True
    jax = types.ModuleType("jax")
    jax._skv_fake = True
    jnp = types.ModuleType("jax.numpy")
    for name in ("einsum", "array", "asarray", "sum", "ndarray", "sqrt", "abs", "exp", "log", "sin", "cos"):
        setattr(jnp, name, getattr(np, name))

    def zeros_like(a, dtype=None):
        z = np.empty(np.shape(a), dtype=object)
        z.fill(0)
        return z
    jnp.zeros_like = zeros_like
    tu = types.ModuleType("jax.tree_util")
    tu.register_pytree_node = lambda *a, **k: None

    class _Cfg:
        def update(self, *a, **k):
            pass
    jax.config = _Cfg()

    def linearize(f, x):
        raise NotImplementedError("linearize is an axiom (replaced per unit)")

    def jvp(f, primals, tangents):
        raise NotImplementedError("jvp is an axiom (replaced per unit)")
    jax.linearize, jax.jvp, jax.numpy, jax.tree_util = linearize, jvp, jnp, tu
    sys.modules["jax"] = jax
    sys.modules["jax.numpy"] = jnp
    sys.modules["jax.tree_util"] = tu
    return True


def T(prefix, shape):
    """symbolic tensor field with trailing (nel=1, nqp=1)."""
    return pmode.sym_array(prefix, shape, trailing=(1, 1))


def E(a, idx=()):
    """entry of a result (drops the two trailing singleton axes)."""
    a = np.asarray(a, dtype=object)
    v = a[tuple(idx) + (0,) * (a.ndim - len(idx))]
    return v


def check(ctx, fn, oid, got, want, hyps=(), clause=None, replay=None):
    gt, wt = tm.to_real(tm.lift(got)), tm.to_real(tm.lift(want))
    return ctx.prove(oid, fn, tm.eq(gt, wt), hyps=hyps, clause=clause, replay=replay)


def check_shape(ctx, fn, oid, got, shape):
    s = np.shape(got)
    ctx.fact(oid + "/shape", fn, tuple(s) == tuple(shape) + (1, 1), "result shape %s, expected %s" % (s, tuple(shape) + (1, 1)),
             clause="result.shape == %s + (nel, nqp)" % (tuple(shape),))
    return tuple(s) == tuple(shape) + (1, 1)


def helper_units(variant):
    def run(ctx):
        if variant == "jax":
            install_fake_jax()
            import skfem.autodiff.helpers as H
            from skfem.autodiff import JaxDiscreteField as DF

            def field(value, **kw):
                return DF(value, **kw)
        else:
            import skfem.helpers as H
            from skfem.element import DiscreteField

            def field(value, **kw):
                return DiscreteField(value=value, **kw)
        pre = "helpers/%s" % variant
        RP = dict(kind="helper", variant=variant)

        framed = {}

        def F(name):
            f0 = getattr(H, name)
            fnrec = ctx.function(f0, variant=variant)

            def snap(a):
                out = []
                arrs = [a] + [getattr(a, att, None) for att in ("grad", "div", "curl", "hess", "grad3", "grad4")]
                for x in arrs:
                    if isinstance(x, np.ndarray):
                        out.append((x, x.copy()))
                return out

            def f(*args, **kw):
                before = [sn for a in args for sn in snap(a)]
                r = f0(*args, **kw)
                same = all(x.shape == c_.shape and all(x[ix] is c_[ix] or (not isinstance(x[ix], S) and x[ix] == c_[ix]) for ix in np.ndindex(*x.shape)) for x, c_ in before)
                alias = any(r is x for x, _ in before) if isinstance(r, np.ndarray) else False
                key = (name, same, alias)
                if key not in framed:
                    framed[key] = True
                    ctx.fact("%s/%s/frame%s" % (pre, name, "" if same and not alias else "-%d" % len(framed)), fnrec, same,
                             "the helper modified one of its operands (value or a derivative field) in place",
                             clause="operands (and their grad/hess/... fields) are unchanged after the call: a later helper on the same field sees the same data",
                             replay=dict(RP, name=name, frame=True))
                return r
            return f, fnrec
        with pmode.symbolic_numpy(prefixes=("skfem",)):
            for d in (2, 3):
                u, v, w = T("u", (d,)), T("v", (d,)), T("w", (d,))
                A, B = T("A", (d, d)), T("B", (d, d))
                G3, H3 = T("G", (d, d, d)), T("H", (d, d, d))
                R = range(d)
                f, fn = F("dot")
                r = f(u, v)
                check(ctx, fn, "%s/dot/d%d" % (pre, d), E(r), sum(E(u, (i,)) * E(v, (i,)) for i in R), clause="dot(u,v) == sum_i u_i v_i",
                      replay=dict(RP, name="dot", d=d))
                f, fn = F("ddot")
                r = f(A, B)
                check(ctx, fn, "%s/ddot/d%d" % (pre, d), E(r), sum(E(A, (i, j)) * E(B, (i, j)) for i in R for j in R),
                      clause="ddot(A,B) == sum_ij A_ij B_ij", replay=dict(RP, name="ddot", d=d))
                f, fn = F("dddot")
                r = f(G3, H3)
                check(ctx, fn, "%s/dddot/d%d" % (pre, d), E(r), sum(E(G3, (i, j, k)) * E(H3, (i, j, k)) for i in R for j in R for k in R),
                      clause="dddot(G,H) == sum_ijk G_ijk H_ijk", replay=dict(RP, name="dddot", d=d))
                f, fn = F("prod")
                r = f(u, v)
                if check_shape(ctx, fn, "%s/prod2/d%d" % (pre, d), r, (d, d)):
                    for i, j in itertools.product(R, R):
                        check(ctx, fn, "%s/prod2/d%d/%d%d" % (pre, d, i, j), E(r, (i, j)), E(u, (i,)) * E(v, (j,)),
                              clause="prod(u,v)[i,j] == u_i v_j", replay=dict(RP, name="prod", d=d))
                r = f(u, v, w)
                if check_shape(ctx, fn, "%s/prod3/d%d" % (pre, d), r, (d, d, d)):
                    for i, j, k in itertools.product(R, R, R):
                        check(ctx, fn, "%s/prod3/d%d/%d%d%d" % (pre, d, i, j, k), E(r, (i, j, k)), E(u, (i,)) * E(v, (j,)) * E(w, (k,)),
                              clause="prod(u,v,w)[i,j,k] == u_i v_j w_k", replay=dict(RP, name="prod3", d=d))
                f, fn = F("mul")
                r = f(A, u)
                if check_shape(ctx, fn, "%s/mul-mv/d%d" % (pre, d), r, (d,)):
                    for i in R:
                        check(ctx, fn, "%s/mul-mv/d%d/%d" % (pre, d, i), E(r, (i,)), sum(E(A, (i, j)) * E(u, (j,)) for j in R),
                              clause="mul(A,x)[i] == sum_j A_ij x_j", replay=dict(RP, name="mul", d=d))
                if variant == "jax":
                    r = f(A, B)
                    if check_shape(ctx, fn, "%s/mul-mm/d%d" % (pre, d), r, (d, d)):
                        for i, k in itertools.product(R, R):
                            check(ctx, fn, "%s/mul-mm/d%d/%d%d" % (pre, d, i, k), E(r, (i, k)), sum(E(A, (i, j)) * E(B, (j, k)) for j in R),
                                  clause="mul(A,B)[i,k] == sum_j A_ij B_jk")
                f, fn = F("trace")
                check(ctx, fn, "%s/trace/d%d" % (pre, d), E(f(A)), sum(E(A, (i, i)) for i in R), clause="trace(A) == sum_i A_ii",
                      replay=dict(RP, name="trace", d=d))
                f, fn = F("transpose")
                r = f(A)
                if check_shape(ctx, fn, "%s/transpose/d%d" % (pre, d), r, (d, d)):
                    for i, j in itertools.product(R, R):
                        check(ctx, fn, "%s/transpose/d%d/%d%d" % (pre, d, i, j), E(r, (i, j)), E(A, (j, i)), clause="transpose(A)[i,j] == A_ji",
                              replay=dict(RP, name="transpose", d=d))
                f, fn = F("eye")
                s0 = T("s", ())
                r = f(s0, d)
                if check_shape(ctx, fn, "%s/eye/d%d" % (pre, d), r, (d, d)):
                    for i, j in itertools.product(R, R):
                        check(ctx, fn, "%s/eye/d%d/%d%d" % (pre, d, i, j), E(r, (i, j)), E(s0) if i == j else 0, clause="eye(w,n)[i,j] == w*delta_ij")
                f, fn = F("sym_grad")
                r = f(field(u, grad=A))
                if check_shape(ctx, fn, "%s/sym_grad/d%d" % (pre, d), r, (d, d)):
                    for i, j in itertools.product(R, R):
                        check(ctx, fn, "%s/sym_grad/d%d/%d%d" % (pre, d, i, j), E(r, (i, j)), (E(A, (i, j)) + E(A, (j, i))) / 2,
                              clause="sym_grad(u)[i,j] == (d_j u_i + d_i u_j)/2", replay=dict(RP, name="sym_grad", d=d))
                f, fn = F("div")
                check(ctx, fn, "%s/div-from-grad/d%d" % (pre, d), E(f(field(u, grad=A))), sum(E(A, (i, i)) for i in R),
                      clause="div(u) == sum_i grad[i,i] when only grad is present", replay=dict(RP, name="div", d=d))
                dv = T("dv", ())
                r = f(field(u, div=dv) if variant == "np" else field(u, grad=T("g1", (d,)), div=dv))
                check(ctx, fn, "%s/div-field/d%d" % (pre, d), E(r), E(dv), clause="div(u) == u.div when the element delivers it")
                f, fn = F("grad")
                ctx.fact("%s/grad/d%d" % (pre, d), fn, f(field(u, grad=A)) is A, "grad(u) must return u.grad")
                f, fn = F("dd")
                ctx.fact("%s/dd/d%d" % (pre, d), fn, f(field(u, hess=G3)) is G3, "dd(u) must return u.hess")
                f, fn = F("det")
                if d == 2:
                    want = E(A, (0, 0)) * E(A, (1, 1)) - E(A, (0, 1)) * E(A, (1, 0))
                else:
                    want = sum(sgn * E(A, (0, p[0])) * E(A, (1, p[1])) * E(A, (2, p[2])) for p, sgn in PERM3)
                check(ctx, fn, "%s/det/d%d" % (pre, d), E(f(A)), want, clause="det(A) == Leibniz sum over permutations",
                      replay=dict(RP, name="det", d=d))
                if variant == "np":
                    f, fn = F("inv")
                    r = f(A)
                    dterm = tm.lift(want)
                    hy = [tm.ne(tm.to_real(dterm), tm.const(Fraction(0), tm.REAL))]
                    if check_shape(ctx, fn, "%s/inv/d%d" % (pre, d), r, (d, d)):
                        for i, j in itertools.product(R, R):
                            lhs = sum(E(r, (i, k)) * E(A, (k, j)) for k in R)
                            rat = poly.term_to_rat(tm.lift(lhs)) - poly.Rat(poly.Poly.const(1 if i == j else 0))
                            ctx.fact("%s/inv/d%d/left%d%d" % (pre, d, i, j), fn, rat.is_zero(), "(inv(A) A)[%d,%d] != delta" % (i, j),
                                     clause="det(A) != 0 => (inv(A) A)[i,j] == delta_ij", replay=dict(RP, name="inv", d=d))
                            lhs = sum(E(A, (i, k)) * E(r, (k, j)) for k in R)
                            rat = poly.term_to_rat(tm.lift(lhs)) - poly.Rat(poly.Poly.const(1 if i == j else 0))
                            ctx.fact("%s/inv/d%d/right%d%d" % (pre, d, i, j), fn, rat.is_zero(), "(A inv(A))[%d,%d] != delta" % (i, j),
                                     clause="det(A) != 0 => (A inv(A))[i,j] == delta_ij", replay=dict(RP, name="inv", d=d))
                    del hy
                    f, fn = F("cross")
                    r = f(u, v)
                    if d == 2:
                        check(ctx, fn, "%s/cross/d2" % pre, E(r), E(u, (0,)) * E(v, (1,)) - E(u, (1,)) * E(v, (0,)), clause="cross 2-D",
                              replay=dict(RP, name="cross", d=d))
                    else:
                        for k, (a, b) in enumerate([(1, 2), (2, 0), (0, 1)]):
                            check(ctx, fn, "%s/cross/d3/%d" % (pre, k), E(r, (k,)), E(u, (a,)) * E(v, (b,)) - E(u, (b,)) * E(v, (a,)),
                                  clause="cross(u,v)[k] == eps_kab u_a v_b", replay=dict(RP, name="cross", d=d))
                    f, fn = F("identity")
                    r = f(A)
                    if check_shape(ctx, fn, "%s/identity/d%d" % (pre, d), r, (d, d)):
                        for i, j in itertools.product(R, R):
                            check(ctx, fn, "%s/identity/d%d/%d%d" % (pre, d, i, j), E(r, (i, j)), 1 if i == j else 0, clause="identity(w)[i,j] == delta_ij")
                    r = f(T("s", ()), N=d)
                    ctx.fact("%s/identity/N%d" % (pre, d), fn, np.shape(r) == (d, d, 1, 1), "identity(w, N) shape")
                    try:
                        f(T("s", ()))
                        ok = False
                    except ValueError:
                        ok = True
                    ctx.fact("%s/identity/raises%d" % (pre, d), fn, ok, "identity(scalar field) without N must raise ValueError")
                    # curl: three branches
                    f, fn = F("curl")
                    cv = T("c", (d,)) if d == 3 else T("c", ())
                    ctx.fact("%s/curl-field/d%d" % (pre, d), fn, f(field(u, curl=cv)) is cv, "curl(u) must return u.curl when present")
                    if d == 2:
                        g1 = T("g", (2,))
                        r = f(field(T("s", ()), grad=g1))
                        check(ctx, fn, "%s/curl-scalar2d/0" % pre, E(r, (0,)), E(g1, (1,)), clause="curl(scalar)[0] == d_y u")
                        check(ctx, fn, "%s/curl-scalar2d/1" % pre, E(r, (1,)), -E(g1, (0,)), clause="curl(scalar)[1] == -d_x u")
                        r = f(field(u, grad=A))
                        check(ctx, fn, "%s/curl-vector2d" % pre, E(r), E(A, (1, 0)) - E(A, (0, 1)), clause="curl(u) == d_x u_y - d_y u_x",
                              replay=dict(RP, name="curl", d=2))
                    else:
                        r = f(field(u, grad=A))
                        for k, (a, b) in enumerate([(1, 2), (2, 0), (0, 1)]):
                            check(ctx, fn, "%s/curl-vector3d/%d" % (pre, k), E(r, (k,)), E(A, (b, a)) - E(A, (a, b)),
                                  clause="curl(u)[k] == eps_kab d_a u_b", replay=dict(RP, name="curl", d=3))
                    # d(): grad, else div, else curl
                    f, fn = F("d")
                    ctx.fact("%s/d/d%d" % (pre, d), fn, f(field(u, grad=A, div=dv)) is A and f(field(u, div=dv)) is dv
                             and f(field(u, curl=cv)) is cv, "d(u) precedence grad, div, curl")
                    # inner: dispatch on rank
                    f, fn = F("inner")
                    s1, s2 = T("p", ()), T("q", ())
                    check(ctx, fn, "%s/inner/scalar/d%d" % (pre, d), E(f(s1, s2)), E(s1) * E(s2), clause="inner(scalars) == u v")
                    check(ctx, fn, "%s/inner/vector/d%d" % (pre, d), E(f(u, v)), sum(E(u, (i,)) * E(v, (i,)) for i in R), clause="inner(vectors) == dot")
                    check(ctx, fn, "%s/inner/matrix/d%d" % (pre, d), E(f(A, B)), sum(E(A, (i, j)) * E(B, (i, j)) for i in R for j in R),
                          clause="inner(matrices) == ddot")
                    check(ctx, fn, "%s/inner/tuple/d%d" % (pre, d), E(f((u, s1), (v, s2))),
                          sum(E(u, (i,)) * E(v, (i,)) for i in R) + E(s1) * E(s2), clause="inner(tuples) == sum of component inner products")
            if variant == "np":
                # 1-D divergence branch and jump()
                f, fn = F("div")
                g = T("g", (1,))
                r = f(field(T("s", ()), grad=g))
                check(ctx, fn, "%s/div-1d" % pre, E(r), E(g, (0,)), clause="div(u) == grad[0] for one-dimensional u")
                try:
                    f(field(T("s", ())))
                    ok = False
                except NotImplementedError:
                    ok = True
                ctx.fact("%s/div-raises" % pre, fn, ok, "div(u) without div/grad must raise NotImplementedError")
                f, fn = F("jump")
                from skfem.assembly.form.form import FormExtraParams
                a0, a1 = T("p", ()), T("q", ())
                for idx in itertools.product((0, 1), repeat=2):
                    wx = FormExtraParams({})
                    wx.__dict__["idx"] = idx
                    try:
                        wx.idx
                    except AttributeError:
                        wx = type("W", (), {"idx": idx})()
                    r = f(wx, a0, a1)
                    check(ctx, fn, "%s/jump/%d%d/0" % (pre, *idx), E(r[0]), (-1) ** idx[0] * E(a0), clause="jump(w,a,b)[0] == (-1)^idx[0] a")
                    check(ctx, fn, "%s/jump/%d%d/1" % (pre, *idx), E(r[1]), (-1) ** idx[1] * E(a1), clause="jump(w,a,b)[1] == (-1)^idx[1] b")
                    r = f(type("W", (), {"idx": (idx[0],)})(), a0)
                    check(ctx, fn, "%s/jump/single%d" % (pre, idx[0]), E(r), (-1) ** idx[0] * E(a0), clause="jump(w,a) == (-1)^idx[0] a")
                r = f(type("W", (), {})(), a0, a1)
                ctx.fact("%s/jump/no-idx" % pre, fn, isinstance(r, tuple) and r[0] is a0 and r[1] is a1, "jump without idx returns its arguments")
    return run


PERM3 = [((0, 1, 2), 1), ((1, 2, 0), 1), ((2, 0, 1), 1), ((0, 2, 1), -1), ((2, 1, 0), -1), ((1, 0, 2), -1)]

UNITS["helpers/np"] = helper_units("np")
UNITS["helpers/jax"] = helper_units("jax")


def jaxfield_operators(ctx):
    """contract JaxDiscreteField.__add__/__sub__/__rsub__/__mul__/__rmul__/__truediv__/__rtruediv__/__pow__/__getitem__:
    the field behaves in arithmetic exactly as its value array (operand order preserved)."""
    install_fake_jax()
    from skfem.autodiff import JaxDiscreteField as DF
    a, b = T("p", ()), T("q", ())
    fa, fb = DF(a, grad=T("g", (2,))), DF(b)
    A, B = E(a), E(b)
    import operator as op
    cases = [("add", lambda x, y: x + y, A + B), ("sub", lambda x, y: x - y, A - B), ("mul", lambda x, y: x * y, A * B),
             ("truediv", lambda x, y: x / y, A / B)]
    for name, f, want in cases:
        fn = ctx.function(getattr(DF, "__%s__" % name))
        for lab, x, y in (("field-field", fa, fb), ("field-array", fa, b), ("field-number", fa, 2.5)):
            w = f(A, B if lab != "field-number" else 2.5)
            check(ctx, fn, "jaxfield/%s/%s" % (name, lab), E(f(x, y)), w, hyps=[tm.ne(tm.lift(B), tm.const(Fraction(0), tm.REAL))],
                  clause="(field %s other) == value %s other" % (name, name), replay=dict(kind="jaxfield", op=name, form=lab))
    for name, f in (("rsub", lambda x, y: y - x), ("rmul", lambda x, y: y * x), ("rtruediv", lambda x, y: y / x)):
        fn = ctx.function(getattr(DF, "__%s__" % name))
        for lab, y in (("array-field", b), ("number-field", 2.5)):
            # numpy would broadcast an ndarray on the left itself; call the reflected method as Python does for numbers
            got = getattr(fa, "__%s__" % name)(y)
            yy = B if lab == "array-field" else 2.5
            w = f(A, yy)
            check(ctx, fn, "jaxfield/%s/%s" % (name, lab), E(got), w, hyps=[tm.ne(tm.lift(A), tm.const(Fraction(0), tm.REAL))],
                  clause="(other %s field) == other %s value  (operand order preserved)" % (name[1:], name[1:]),
                  replay=dict(kind="jaxfield", op=name, form=lab))
    fn = ctx.function(DF.__pow__)
    check(ctx, fn, "jaxfield/pow", E(fa ** 3), A * A * A, clause="field ** 3 == value ** 3")
    fn = ctx.function(DF.__getitem__)
    v = T("v", (3,))
    ctx.fact("jaxfield/getitem", fn, DF(v)[1] is not None and tm.lift(E(DF(v)[1])) is tm.lift(E(v, (1,))), "field[i] must be value[i]")
    ctx.fact("jaxfield/shape", ctx.function(DF.shape.fget), DF(v).shape == v.shape, "field.shape must be value.shape")
    tup = DF(a, grad=1, div=2, curl=3, hess=4, grad3=5, grad4=6, grad5=7, grad6=8).astuple
    ctx.fact("jaxfield/astuple-order", ctx.function(DF.astuple.fget), tup[1:] == (1, 2, 3, 4, 5, 6, 7, 8) and tup[0] is a,
             "astuple must list value, grad, div, curl, hess, grad3..grad6 in this order (it feeds DiscreteField(*astuple))")
    del op


UNITS["jaxfield/operators"] = jaxfield_operators
def adbook(ctx):
    """AD-BOOK: NonlinearForm._assemble (Mode I: Nbfun, nt, nq, N symbolic).  jax.linearize is an axiom: linearize(f, x) = (f(x), U -> D f(x)[U]); the unit's stand-in
    for it evaluates f once (recording which fields and which parameters the integrand receives) and returns uninterpreted residual / directional-derivative
    integrands indexed by the test and trial function.
      JAC     rows[(j*Nb+i)*nt+k] == dofs[i,k] (test), cols == dofs[j,k] (trial), data == sum_q D F_i(x)[phi_j][k,q]*dx[k,q]
      RHS     rows1[i*nt+k] == dofs[i,k], data1 == - sum_q F_i(x)[k,q]*dx[k,q]
      PARAMS  the w handed to the form is default_parameters() of THE BASIS OF THIS CALL overlaid with the kwargs normalised against it -- also on a second call
              of the same form object with another basis (no state kept on the form)"""
    install_fake_jax()
    import skfem.autodiff as AD
    from skv import sarr
    from skv.sarr import SArr
    C = tm.const
    fn = ctx.function(AD.NonlinearForm._assemble)

    class Fld:
        def __init__(self, tag, idx=None):
            self.tag, self.idx = tag, idx
            self.astuple = (self,)

    class Seq:
        def __init__(self, tag):
            self.tag = tag

        def __getitem__(self, j):
            return (Fld(self.tag, sarr._t(j)),)

    def make_basis(c, tag, nt, nq):
        class B:
            pass
        b = B()
        b.tag, b.nelems = tag, nt
        b.Nbfun, b.N = c.size("Nb_" + tag, 1), c.size("N_" + tag, 1)
        b.element_dofs = SArr.input("dofs_" + tag, (b.Nbfun, nt), lo=0, hi=b.N)
        b.dx = SArr.input("dx_" + tag, (nt, nq), tm.REAL)
        b.basis = Seq(tag)
        b.default_parameters = lambda: {"x": Fld("default-x-" + tag), "h": Fld("default-h-" + tag)}
        b.zeros = lambda: ("zeros", tag)
        b.interpolate = lambda w: Fld("interp-%s-%s" % (tag, id(w)))
        return b
    calls = []

    def linearize(fun, x):
        y = fun(x)
        rec = calls[-1]

        def DF(U):
            ju = U[0].value.idx
            return SArr(rec["shape"], lambda idx, iv=rec["iv"], ju=ju, t_=rec["tag"]: tm.app("jac_" + t_, tm.REAL, iv, ju, *idx), tm.REAL)
        return y, DF
    dims = {}

    def unwrap(val):
        val = getattr(val, "value", val)
        if isinstance(val, np.ndarray) and val.dtype == object and val.ndim == 0:
            val = val.item()
        return val

    def form(*args):
        w = args[-1]
        u, v = args[0], args[1]
        tag = v.value.tag
        nt_, nq_ = dims[tag]
        calls.append(dict(w={k: unwrap(val) for k, val in dict(w).items()}, u=unwrap(u), iv=v.value.idx, tag=tag, shape=(sarr._dim(nt_), sarr._dim(nq_))))
        return SArr((sarr._dim(nt_), sarr._dim(nq_)), lambda idx, iv=v.value.idx, t_=tag: tm.app("res_" + t_, tm.REAL, iv, *idx), tm.REAL)
    F = AD.NonlinearForm(form)
    xvec = np.arange(3.0)
    for tag, pre in (("a", "adbook/first-call"), ("b", "adbook/second-call-same-form-other-basis")):
        with sarr.index_context() as c:
            nt, nq = c.size("nt", 1), c.size("nq", 1)
            dims[tag] = (nt, nq)
            b = make_basis(c, tag, nt, nq)
            del calls[:]
            saved = AD.linearize
            AD.linearize = linearize
            try:
                with sarr.mode_i([AD], extra_globals=dict(jnp=sarr.NPModel())):
                    mat, vec = F._assemble(b, x=xvec, s=2.5)
            finally:
                AD.linearize = saved
            cl = list(calls)
            (ind, data, shape, lshape), (ind1, data1, shape1, lshape1) = mat, vec
            Nb, NT = b.Nbfun.t, nt.t
            j, i, k = c.skolem("j", 0, Nb), c.skolem("i", 0, Nb), c.skolem("k", 0, NT)
            p_ = tm.add(tm.mul(tm.add(tm.mul(j.t, Nb), i.t), NT), k.t)
            sarr.hint_radix((Nb, Nb, NT), (j.t, i.t, k.t))
            reads = [ind.get((C(0), p_)), ind.get((C(1), p_)), data.get((p_,))]
            hy = c.all_hyps()
            # hints as for BilinearForm._assemble (C01): the last-writer witnesses of position p are the iteration (j, i)
            from props.C01 import lemma_block_unique, lemma_pair_unique
            lw = sorted({n for t_ in reads[:2] for n in tm.subterms(t_) if n.op == "app" and str(n.args[0]).startswith("lw!")}, key=lambda n: n.args[0])
            for a_ in range(0, len(lw) - 1, 2):
                Wi, Wj = lw[a_], lw[a_ + 1]
                for X_, Y_ in ((Wi, Wj), (Wj, Wi)):
                    hy.append(lemma_block_unique(NT, tm.add(tm.mul(Nb, X_), Y_), tm.add(tm.mul(Nb, j.t), i.t), k.t))
                    hy.append(lemma_block_unique(NT, tm.add(tm.mul(X_, Nb), Y_), tm.add(tm.mul(j.t, Nb), i.t), k.t))
                    hy.append(lemma_pair_unique(Nb, X_, Y_, j.t, i.t))
            ctx.fact(pre + "/shapes", fn, shape[0] is b.N and shape[1] is b.N and shape1[0] is b.N and lshape == (b.Nbfun, b.Nbfun), "tensor shapes", backend="symbolic-execution")
            okw = bool(cl) and all(set(r["w"]) == {"x", "h", "s"} and getattr(r["w"]["x"], "tag", None) == "default-x-" + tag and getattr(r["w"]["h"], "tag", None) == "default-h-" + tag
                                   and r["w"]["s"] == 2.5 and r["tag"] == tag for r in cl)
            ctx.fact(pre + "/params", fn, okw, "the integrand received w = %s" % ({k_: getattr(v_, "tag", v_) for k_, v_ in cl[0]["w"].items()} if cl else None),
                     clause="w == default_parameters() of the basis of THIS call (as JaxDiscreteField) overlaid with the normalised kwargs; nothing is remembered on the form object",
                     backend="symbolic-execution", replay=dict(kind="adform"))
            oku = bool(cl) and all(str(getattr(r["u"], "tag", "")).startswith("interp-%s-" % tag) for r in cl)
            ctx.fact(pre + "/linearisation-point", fn, oku, "the linearisation point must be basis.interpolate(x) of the basis of this call", backend="symbolic-execution")
            try:
                ctx.prove(pre + "/jacobian/rows", fn, tm.eq(reads[0], b.element_dofs.get((i.t, k.t))), hyps=hy, clause="rows[(j*Nb+i)*nt+k] == element_dofs[i,k]  (test function)")
                ctx.prove(pre + "/jacobian/cols", fn, tm.eq(reads[1], b.element_dofs.get((j.t, k.t))), hyps=hy, clause="cols[(j*Nb+i)*nt+k] == element_dofs[j,k]  (trial function)")
                q = SArr((sarr._dim(nt), sarr._dim(nq)), lambda idx, iv=i.t, ju=j.t, t_=tag: tm.app("jac_" + t_, tm.REAL, iv, ju, *idx), tm.REAL)
                spec = sarr.np_sum(q * b.dx, axis=1).get((k.t,))
                ctx.prove(pre + "/jacobian/data", fn, tm.eq(reads[2], spec), hyps=hy, clause="data[(j*Nb+i)*nt+k] == sum_q D F_i(x)[phi_j][k,q] * dx[k,q]")
                p1 = tm.add(tm.mul(i.t, NT), k.t)
                r1 = [ind1.get((C(0), p1)), data1.get((p1,))]
                hy1 = c.all_hyps()
                ctx.prove(pre + "/residual/rows", fn, tm.eq(r1[0], b.element_dofs.get((i.t, k.t))), hyps=hy1, clause="rows1[i*nt+k] == element_dofs[i,k]")
                qr = SArr((sarr._dim(nt), sarr._dim(nq)), lambda idx, iv=i.t, t_=tag: tm.app("res_" + t_, tm.REAL, iv, *idx), tm.REAL)
                ctx.prove(pre + "/residual/data", fn, tm.eq(r1[1], tm.neg(sarr.np_sum(qr * b.dx, axis=1).get((k.t,)))), hyps=hy1, clause="data1[i*nt+k] == - sum_q F_i(x)[k,q] * dx[k,q]")
            except tm.Unsupported as ex:
                ctx.unsupported(pre + "/bookkeeping", fn, str(ex))


UNITS["adbook"] = adbook


