"""C06 — Galerkin exactness end to end (patch test and projection identity).

Galerkin exactness is a theorem of linear algebra about a pipeline whose stages carry their own contracts: assembly (C01), exact integration (C02),
conforming spaces (C03), DOF numbering (C04), elimination and solve (C05), boundary DOF query (C07).  What C06 adds, and what is put under contract here:

contract  MODELS   the model forms are the bilinear forms of the model problems: laplace == sum_i du_i dv_i, vector_laplace == sum_ij, mass == u v,
                   unit_load == v, linear_elasticity(lambda, mu) == 2 mu eps(u):eps(v) + lambda div u div v, linear_stress, and lame_parameters /
                   plane_stress against the DEFINING relations of the Lame constants (not their closed forms)            (Mode P, all field values)
contract  PROJECT  _projection builds (mass matrix, load vector) of the SAME basis with integrands sum_c <u_c, v_c> and sum_c <f_c, v_c>; project solves
                   M x = f on the whole basis, on the basis' own cell/facet subset (I == get_dofs of that subset) and, for an explicit subset S, with the
                   quadrature weights of every cell/facet outside S zeroed (for all sizes, Mode I) and I == get_dofs(S)
contract  CONSISTENCY  for a two-cell triangle / three-cell line mesh with SYMBOLIC vertex coordinates and a SYMBOLIC polynomial u of the element's degree,
                   every row of the system assembled by the real CellBasis / FacetBasis / BilinearForm / LinearForm code satisfies
                   (A u_I)[i] == b[i]  with b = (f, v) + <du/dn, v>_Gamma (natural data through the real normals)  -- Galerkin consistency, the algebraic
                   core of the patch test, for all geometries and all polynomial data of that degree
lemma     (paper) consistency + symmetric positive definiteness of the free block => the discrete solution IS the interpolant (uniqueness)
bounded   sharp (2e-9) patch tests and projection identities on irregular meshes of every cell type with every polynomial-complete element (native)
"""
from __future__ import annotations

import itertools
from fractions import Fraction

import numpy as np

from skv import pmode, poly, sarr
from skv import term as tm
from skv.sarr import SArr
from skv.term import S

LEVEL = "proof"
EXPLANATION = ("model forms, projection wiring and Galerkin consistency on small meshes with symbolic geometry and symbolic polynomial data proved from the real code; "
               "the end-to-end statement on arbitrary meshes is a composition of the contracts of C01-C05/C07 (paper) and is observed by a sharp bounded stand-in")
ASSUMPTIONS = ["CONSISTENCY: quadrature tables are doubles, so the identity holds up to 1e-11 of the coefficient mass before cancellation (C08 proves the rules exact to 1e-13)",
               "uniqueness of the discrete solution (SPD free block): paper lemma", "composition of the stage contracts C01, C02, C03, C04, C05, C07 on paper",
               "sparse direct solver accurate to rounding error (stand-in tolerance 2e-9)", "exact real arithmetic for floats in the symbolic runs",
               "CONSISTENCY is proved for fixed small topologies (geometry and data unbounded)"]
TRUSTED = ["NumPy object arrays executing the real code", "NumPy model skv/sarr.py (isin as an uninterpreted membership predicate)", "exact normal forms skv/poly.py"]
UNITS = {}


def T_(prefix, shape):
    return pmode.sym_array(prefix, shape, trailing=(1, 1))


def E_(a, idx=()):
    a = np.asarray(a, dtype=object)
    return a[tuple(idx) + (0,) * (a.ndim - len(idx))]


def same(a, b):
    return (poly.term_to_rat(tm.lift(a)) - poly.term_to_rat(tm.lift(b))).is_zero()


def models(ctx):
    from skfem.element import DiscreteField
    import skfem.models.poisson as P
    import skfem.models.elasticity as EL
    RP = dict(kind="models")
    with pmode.symbolic_numpy(prefixes=("skfem",)):
        for d in (1, 2, 3):
            R = range(d)
            u, v = DiscreteField(value=T_("u", ()), grad=T_("gu", (d,))), DiscreteField(value=T_("v", ()), grad=T_("gv", (d,)))
            fn = ctx.function(P.laplace.form)
            ctx.fact("models/laplace/d%d" % d, fn, same(E_(P.laplace.form(u, v, None)), sum(E_(u.grad, (i,)) * E_(v.grad, (i,)) for i in R)), "laplace integrand",
                     clause="laplace(u,v) == sum_i du/dx_i dv/dx_i", backend="ground-rational", replay=RP)
            fn = ctx.function(P.mass.form)
            ctx.fact("models/mass/d%d" % d, fn, same(E_(P.mass.form(u, v, None)), E_(u) * E_(v)), "mass integrand", clause="mass(u,v) == u v", backend="ground-rational", replay=RP)
            fn = ctx.function(P.unit_load.form)
            ctx.fact("models/unit_load/d%d" % d, fn, same(E_(P.unit_load.form(v, None)), E_(v)), "unit load integrand", clause="unit_load(v) == v", backend="ground-rational", replay=RP)
            if d == 1:
                continue
            U, V = DiscreteField(value=T_("U", (d,)), grad=T_("GU", (d, d))), DiscreteField(value=T_("V", (d,)), grad=T_("GV", (d, d)))
            fn = ctx.function(P.vector_laplace.form)
            ctx.fact("models/vector_laplace/d%d" % d, fn, same(E_(P.vector_laplace.form(U, V, None)), sum(E_(U.grad, (i, j)) * E_(V.grad, (i, j)) for i in R for j in R)),
                     "vector laplace integrand", clause="vector_laplace(u,v) == sum_ij du_i/dx_j dv_i/dx_j", backend="ground-rational", replay=RP)
            lam, mu = tm.sreal("lam"), tm.sreal("mu")
            fn = ctx.function(EL.linear_elasticity)
            form = EL.linear_elasticity(lam, mu)
            eps = lambda W, i, j: (E_(W.grad, (i, j)) + E_(W.grad, (j, i))) / 2
            div = lambda W: sum(E_(W.grad, (i, i)) for i in R)
            want = 2 * mu * sum(eps(U, i, j) * eps(V, i, j) for i in R for j in R) + lam * div(U) * div(V)
            ctx.fact("models/linear_elasticity/d%d" % d, fn, same(E_(form.form(U, V, None)), want), "elasticity integrand",
                     clause="linear_elasticity(lambda, mu)(u,v) == 2 mu eps(u):eps(v) + lambda div(u) div(v)", backend="ground-rational", replay=RP)
            fn = ctx.function(EL.linear_stress)
            C = EL.linear_stress(lam, mu)
            Tn = T_("T", (d, d))
            r = C(Tn)
            ok = all(same(E_(r, (i, j)), 2 * mu * E_(Tn, (i, j)) + (lam * sum(E_(Tn, (k, k)) for k in R) if i == j else 0)) for i in R for j in R)
            ctx.fact("models/linear_stress/d%d" % d, fn, ok, "stress-strain law", clause="C(T) == 2 mu T + lambda tr(T) I", backend="ground-rational", replay=RP)
    # Lame constants against their defining relations
    En, nu = tm.sreal("E"), tm.sreal("nu")
    fn = ctx.function(EL.lame_parameters)
    lam, mu = EL.lame_parameters(En, nu)
    ctx.fact("models/lame/young", fn, same(mu * (3 * lam + 2 * mu), En * (lam + mu)), "E != mu(3 lambda + 2 mu)/(lambda + mu)", clause="E (lambda + mu) == mu (3 lambda + 2 mu)",
             backend="ground-rational", replay=RP)
    ctx.fact("models/lame/poisson", fn, same(lam, 2 * nu * (lam + mu)), "nu != lambda / (2 (lambda + mu))", clause="lambda == 2 nu (lambda + mu)", backend="ground-rational", replay=RP)
    fn = ctx.function(EL.plane_stress)
    E2, nu2 = EL.plane_stress(En, nu)
    lam2, mu2 = EL.lame_parameters(E2, nu2)
    ctx.fact("models/plane_stress", fn, same(mu2, mu) and same(lam2 * (lam + 2 * mu), 2 * lam * mu), "plane stress reduction",
             clause="lame(plane_stress(E, nu)) == (2 lambda mu / (lambda + 2 mu), mu)", backend="ground-rational", replay=RP)


UNITS["models"] = models


def projection(ctx):
    """_projection: integrands and basis"""
    import skfem.assembly as A
    import skfem.assembly.basis.abstract_basis as AB
    from skfem.element import DiscreteField
    fn = ctx.function(AB.AbstractBasis._projection)
    rec = {}

    class RecB:
        def __init__(self, form, dtype=None):
            rec["bform"], rec["bdtype"] = form, dtype

        def assemble(self, basis):
            rec["bbasis"] = basis
            return "M"

    class RecL:
        def __init__(self, form, dtype=None):
            rec["lform"], rec["ldtype"] = form, dtype

        def assemble(self, basis):
            rec["lbasis"] = basis
            return "f"
    saved = A.BilinearForm, A.LinearForm
    A.BilinearForm, A.LinearForm = RecB, RecL
    try:
        with pmode.symbolic_numpy(prefixes=("skfem",)):
            for ncomp, shapes in ((1, [()]), (1, [(2,)]), (1, [(2, 2)]), (2, [(2,), ()]), (3, [(), (3,), ()])):
                interp = tuple(T_("f%d" % c, sh) for c, sh in enumerate(shapes))

                class Stub:
                    basis = [tuple(range(ncomp))]

                    def _normalize_interp(self, it):
                        return AB.AbstractBasis._normalize_interp(self, it)
                stub = Stub()
                rec.clear()
                out = AB.AbstractBasis._projection(stub, interp, dtype="dt")
                us = tuple(DiscreteField(value=T_("u%d" % c, sh)) for c, sh in enumerate(shapes))
                vs = tuple(DiscreteField(value=T_("v%d" % c, sh)) for c, sh in enumerate(shapes))

                def inner(a, b, sh):
                    return sum(E_(a, ix) * E_(b, ix) for ix in itertools.product(*[range(n) for n in sh])) if sh else E_(a) * E_(b)
                tag = "project/_projection/%s" % "+".join("x".join(map(str, sh)) or "scalar" for sh in shapes)
                ctx.fact(tag + "/wiring", fn, out == ("M", "f") and rec.get("bbasis") is stub and rec.get("lbasis") is stub and rec["bdtype"] == "dt" and rec["ldtype"] == "dt",
                         "mass matrix and load vector must be assembled on the projecting basis itself with the requested dtype",
                         clause="_projection == (BilinearForm(.).assemble(self), LinearForm(.).assemble(self))", backend="symbolic-execution", replay=dict(kind="galerkin"))
                got = rec["bform"](*us, *vs, None)
                ctx.fact(tag + "/mass", fn, same(E_(got), sum(inner(us[c], vs[c], shapes[c]) for c in range(ncomp))), "mass integrand is not sum_c <u_c, v_c>",
                         clause="bilinear integrand == sum_c inner(u_c, v_c)", backend="ground-rational", replay=dict(kind="galerkin"))
                got = rec["lform"](*vs, None)
                ctx.fact(tag + "/load", fn, same(E_(got), sum(inner(interp[c], vs[c], shapes[c]) for c in range(ncomp))), "load integrand is not sum_c <f_c, v_c>",
                         clause="linear integrand == sum_c inner(f_c, v_c)", backend="ground-rational", replay=dict(kind="galerkin"))
    finally:
        A.BilinearForm, A.LinearForm = saved


UNITS["project/integrands"] = projection


def project_wiring(ctx):
    """project(): which system is solved on which DOFs, and the integration domain of explicit subsets (all sizes)"""
    import skfem.assembly.basis.cell_basis as CB
    import skfem.assembly.basis.facet_basis as FB
    import skfem.utils as U
    rec = {}

    def solve(*a, **k):
        rec["solve"] = (a, k)
        return "x"

    def condense(*a, **k):
        rec["condense"] = (a, k)
        return ("Ac", "bc", "xc", "Ic")
    saved = U.solve, U.condense
    U.solve, U.condense = solve, condense
    try:
        for cls, mod, kwname, attr in ((CB.CellBasis, CB, "elements", "tind"), (FB.FacetBasis, FB, "facets", "find")):
            fn = ctx.function(cls.project)
            name = cls.__name__
            for mode in ("whole", "own-subset", "explicit"):
                if cls is FB.FacetBasis and mode == "whole":
                    continue
                with sarr.index_context() as c:
                    n, nq, nt = c.size("n", 1), c.size("nq", 1), c.size("nt", 1)
                    dx = SArr.input("dx", (n, nq), tm.REAL)
                    own = SArr.input("own", (n,), lo=0, hi=nt)
                    rec.clear()
                    calls = {}

                    class Mesh:
                        nelements = n

                        def normalize_elements(self, e):
                            calls["norm"] = e
                            return "Sel"

                        def normalize_facets(self, e):
                            calls["norm"] = e
                            return "Sel"

                    class Stub:
                        mesh = Mesh()

                        def _projection(self, interp, dtype=None):
                            calls["proj"] = (self, interp, dtype)
                            return ("M", "f")

                        def get_dofs(self, **kw):
                            calls.setdefault("get_dofs", []).append(kw)
                            return ("I", tuple(sorted(kw.items(), key=str)))
                    stub = Stub()
                    stub.dx = dx
                    setattr(stub, attr, own if (mode != "whole" or cls is FB.FacetBasis) else None)
                    if cls is CB.CellBasis and mode == "explicit":
                        stub.tind = None          # whole basis, explicit subset
                    member = lambda t_: tm.app("member_S", tm.BOOL, t_)

                    def isin(a, b, **kw):
                        calls["isin"] = (a, b)
                        a = sarr.as_sarr(a)
                        return SArr(a._shape, lambda idx, a=a: member(a._get(idx)), tm.BOOL)
                    with sarr.mode_i([mod]) as model:
                        model._ov["isin"] = isin
                        if mode == "explicit":
                            out = cls.project(stub, "interp", **{kwname: "sel"}, dtype="dt")
                        else:
                            out = cls.project(stub, "interp", dtype="dt")
                    pre = "project/%s/%s" % (name, mode)
                    if mode == "whole":
                        ok = out == "x" and rec.get("solve") == (("M", "f"), {}) and "condense" not in rec and calls["proj"] == (stub, "interp", "dt")
                        ctx.fact(pre, fn, ok, "whole-mesh projection must be solve(M, f) of the basis' own mass matrix and load", clause="project == solve(*_projection(interp))",
                                 backend="symbolic-execution", replay=dict(kind="galerkin"))
                    elif mode == "own-subset":
                        want_I = ("I", ((kwname, own),))
                        ok = (out == "x" and rec.get("solve") == (("Ac", "bc", "xc", "Ic"), {}) and rec["condense"][0] == ("M", "f") and list(rec["condense"][1]) == ["I"]
                              and rec["condense"][1]["I"][0] == "I" and calls["get_dofs"][-1].get(kwname) is own and calls["proj"][0] is stub)
                        ctx.fact(pre, fn, bool(ok), "a basis restricted to a subset must solve on the DOFs of exactly that subset",
                                 clause="project == solve(*condense(M, f, I=get_dofs(%s=self.%s)))" % (kwname, attr), backend="symbolic-execution", replay=dict(kind="galerkin"))
                        del want_I
                    else:
                        sub = calls["proj"][0]
                        ok = (out == "x" and rec["condense"][0] == ("M", "f") and calls["get_dofs"][-1] == {kwname: "sel"} and calls.get("norm") == "sel"
                              and sub is not stub and calls["proj"][1:] == ("interp", "dt") and stub.dx is dx and calls["isin"][1] == "Sel")
                        ctx.fact(pre + "/wiring", fn, bool(ok), "explicit subset: the DOFs of the subset, the caller's basis left untouched, membership in the normalised subset",
                                 clause="project(.., S) == solve(*condense(*sub._projection(interp), I=get_dofs(S))) with sub a copy; self.dx unchanged",
                                 backend="symbolic-execution", replay=dict(kind="galerkin"))
                        k, q = c.skolem("k", 0, n.t), c.skolem("q", 0, nq.t)
                        ctx.prove(pre + "/frame", fn, tm.eq(stub.dx.get((k.t, q.t)), tm.app("dx", tm.REAL, k.t, q.t)), hyps=c.all_hyps(),
                                  clause="the projecting basis' own quadrature weights are unchanged after the call: self.dx[k,q] == old(self.dx)[k,q]  (the masked weights live in the copy only)",
                                  replay=dict(kind="galerkin"))
                        cellk = own.get((k.t,)) if (cls is FB.FacetBasis) else k.t
                        got = sub.dx.get((k.t, q.t))
                        want = tm.ite(member(cellk), dx.get((k.t, q.t)), tm.const(Fraction(0), tm.REAL))
                        ctx.prove(pre + "/domain", fn, tm.eq(tm.to_real(got), want), hyps=c.all_hyps(),
                                  clause="sub.dx[k,q] == dx[k,q] if cell/facet k of the basis is in S else 0  (integration over S only)", replay=dict(kind="galerkin"))
    finally:
        U.solve, U.condense = saved


UNITS["project/wiring"] = project_wiring


def _abs_poly(q):
    return poly.Poly({k: abs(v) for k, v in q.c.items()})


def consistency_unit(kind, elabel, deg, pnum, t):
    """Galerkin consistency on a small mesh with SYMBOLIC vertex coordinates and a SYMBOLIC polynomial of the element's degree: every free row of the system
    assembled by the real CellBasis / BilinearForm / LinearForm code is satisfied by the nodal values of the polynomial"""
    def run(ctx):
        import logging
        import skfem as fem
        from props import C03
        from skfem.element import DiscreteField
        from skfem.mapping import MappingAffine
        from skfem.models.poisson import laplace, mass
        logging.disable(logging.WARNING)
        if ctx.tier == "quick" and len(t) > 3:
            ctx.notes.append("consistency/%s/%s (%d cells, %d coordinate symbols) runs in the thorough tier only (90 s)" % (kind, elabel, len(t), np.size(pnum)))
            return
        m = C03.build_mesh(kind, np.array(pnum, dtype=float), np.array(t, dtype=np.int64).T)
        e = getattr(fem, elabel)()
        d = m.p.shape[0]
        sp = pmode.sym_array("p", m.p.shape)
        exps = [ex for ex in itertools.product(range(deg + 1), repeat=d) if sum(ex) <= deg]
        cs = {ex: tm.sreal("c" + "".join(map(str, ex))) for ex in exps}

        def mono(x, ex):
            r = 1
            for i, k in enumerate(ex):
                for _ in range(k):
                    r = r * x[i]
            return r

        def u(x):
            return sum(cs[ex] * mono(x, ex) for ex in exps) + x[0] * 0

        def lap(x):
            tot = x[0] * 0
            for ex in exps:
                for i in range(d):
                    if ex[i] >= 2:
                        k = list(ex)
                        k[i] -= 2
                        tot = tot + cs[ex] * (ex[i] * (ex[i] - 1)) * mono(x, tuple(k))
            return tot
        fn = ctx.function(fem.BilinearForm._assemble, via="%s on a %d-cell %s mesh" % (elabel, m.t.shape[1], kind))
        ctx.function(fem.LinearForm._assemble)
        ctx.function(fem.CellBasis.__init__)
        with pmode.symbolic_numpy():
            mp = MappingAffine(C03.Stub(m, sp))
            basis = fem.CellBasis(m, e, mapping=mp)
            basis.mesh_parameters = lambda: DiscreteField(np.zeros((1, 1), dtype=object))
            A = laplace.coo_data(basis)
            M = mass.coo_data(basis)
            b0 = fem.LinearForm(lambda v, w: -lap(w.x) * v).coo_data(basis)
            b1 = fem.LinearForm(lambda v, w: u(w.x) * v).coo_data(basis)
            Fd = mp.F(C03.exact(np.asarray(e.doflocs.T, dtype=float)))
        N = basis.N
        dl = np.empty((d, N), dtype=object)
        for k in range(m.t.shape[1]):
            for jl in range(basis.Nbfun):
                for a in range(d):
                    dl[a, basis.element_dofs[jl, k]] = Fd[a, k, jl]
        uj = [poly.term_to_rat(tm.lift(u([dl[a, j] for a in range(d)]))) for j in range(N)]
        env = {tm.lift(sp[ix]): tm.const(Fraction(float(m.p[ix])), tm.REAL) for ix in np.ndindex(*m.p.shape)}
        free = [int(i) for i in basis.complement_dofs(basis.get_dofs())]
        ctx.fact("consistency/%s/%s/free-rows" % (kind, elabel), fn, len(free) > 0, "the patch has no free DOF: nothing would be examined", backend="enumeration")
        for problem, mats, loads in (("poisson", [A], [b0]), ("reaction-diffusion", [A, M], [b0, b1])):
            for sgn in (1, -1):
                for i in free:
                    groups = {}

                    def add(r, neg=False):
                        n = r.n if not neg else poly.Poly() - r.n
                        groups[r.d] = groups[r.d] + n if r.d in groups else n
                    for cd in mats:
                        for q in range(cd.indices.shape[1]):
                            if cd.indices[0, q] == i:
                                add(C03.RA_(cd.data[q], env, sgn) * uj[int(cd.indices[1, q])])
                    for cd in loads:
                        for q in range(cd.indices.shape[1]):
                            if cd.indices[0, q] == i:
                                add(C03.RA_(cd.data[q], env, sgn), neg=True)
                    ds = list(groups)
                    num, scale = poly.Poly(), poly.Poly()
                    for g in ds:
                        others, aothers = poly.Poly.const(1), poly.Poly.const(1)
                        for h in ds:
                            if h is not g:
                                others, aothers = others * h, aothers * _abs_poly(h)
                        num = num + groups[g] * others
                        scale = scale + _abs_poly(groups[g]) * aothers
                    sn, ss = sum(abs(v) for v in num.c.values()), sum(abs(v) for v in scale.c.values())
                    ok = sn <= Fraction(1, 10 ** 11) * ss
                    ctx.fact("consistency/%s/%s/%s/orientation%+d/row%d" % (kind, elabel, problem, sgn, i), fn, bool(ok),
                             "residual numerator has coefficient mass %.3e against %.3e before cancellation" % (float(sn), float(ss)),
                             clause="(A u_I)[i] == b[i] for the nodal values u_I of ANY polynomial of degree %d, ANY vertex coordinates (cells of the instance's orientation "
                                    "pattern / its mirror image): coefficient mass of the residual numerator <= 1e-11 of the mass before cancellation (quadrature tables are "
                                    "doubles)" % deg, backend="ground-rational-tol", replay=dict(kind="galerkin"))
    return run


for _k, _e, _deg, _p, _t in (
        ("line", "ElementLineP1", 1, [[0., 1., 2.5, 4.]], [[0, 1], [1, 2], [2, 3]]),
        ("line", "ElementLineP2", 2, [[0., 1., 2.5]], [[0, 1], [1, 2]]),
        ("tri", "ElementTriP1", 1, [[0., 1., 1.25, -.25, .5], [0., -.125, 1., .875, .375]], [[0, 1, 4], [1, 2, 4], [2, 3, 4], [3, 0, 4]]),
        ("tri", "ElementTriP2", 2, [[0., 1., .375, .875], [0., .25, 1., -.75]], [[0, 1, 2], [0, 1, 3]])):
    UNITS["consistency/%s/%s" % (_k, _e)] = consistency_unit(_k, _e, _deg, _p, _t)


def standin_galerkin(ctx):
    import time
    from skv import core
    t0 = time.time()
    r = core.run_native("standin_galerkin.py", dict(seed=ctx.seed, tier=ctx.tier), timeout=3000)
    ctx.standin("patch tests (Poisson, reaction-diffusion, elasticity; mixed boundary data) and projection identities with a sharp tolerance", r["bound"], r["cases"], r["failures"],
                samples=r["samples"], time_s=time.time() - t0)


UNITS["standin/galerkin"] = standin_galerkin
HEAVY_FIRST = ["consistency/tri/ElementTriP1", "standin/galerkin"]
