"""C08 — quadrature rules deliver their advertised degree on every reference cell.

contract  get_quadrature_tri(n), get_quadrature_tet(n)                 (finite tables: E, exact rationals)
  ensures   TABLE  for every key n of the dict literal and every monomial |alpha| <= n:
                   |sum_q w_q x_q^alpha - alpha!/(|alpha|+d)!| <= 1e-13      (doubles read as exact rationals)
            MEASURE |sum w - |K|| <= 1e-14 ; NODES all nodes in the closed cell (exact sign tests)
            DISPATCH n below the smallest key is clamped UP to it; any n that is not a key raises
                   NotImplementedError (enumerated for n in [-3, 60]; for larger n by the AST shape obligation:
                   the only exits of the function are `return {literal}[norder]` and the raise in `except KeyError`)
contract  get_quadrature_line(n)                                       (all n: symbolic execution + z3 LIA)
  ensures   LINE   the number of Gauss points m handed to leggauss satisfies 2m-1 >= max(n, 2), m >= 1
            AFFINE nodes = X/2 + 1/2, weights = W/2 (affine image of the Gauss rule on [-1,1])
  assumes   leggauss(m) exact to degree 2m-1, nodes in (-1,1), sum W = 2  (external; bounded cross-check m <= 40)
contract  get_quadrature(refdom, n) for RefQuad, RefHex, RefWedge       (TENSOR; E over n in [0, 12])
  ensures   nodes/weights are the full tensor product of the factor rules (line x line [x line]; triangle x line
            for the prism) with matching index tuples, a bijection onto the product; weights sum to the measure;
            nodes in the closed cell; exact for per-direction degree <= n (prism: total degree <= n in (x,y), <= n in z)
contract  get_quadrature(refdom_or_elem, n)  REFDOM-DISPATCH: the rule of the matching cell; classes, instances and
            elements accepted; unknown reference domains raise NotImplementedError
"""
from __future__ import annotations

import ast
import itertools
import math
from fractions import Fraction

import numpy as np

from skv import paths, pmode
from skv import term as tm
from skv.poly import integrate_monomial_cube, integrate_monomial_simplex
from skv.term import S

LEVEL = "proof"
EXPLANATION = ("Finite tables enumerated completely with exact rational arithmetic on the doubles the real getters return; "
               "the line rule's point count is proved for all orders; tensor rules are checked structurally for orders 0..12.")
ASSUMPTIONS = [
    "numpy.polynomial.legendre.leggauss(m) is the m-point Gauss-Legendre rule (external; cross-checked exactly for m <= 40)",
    "tolerances: table rules are accepted when every monomial moment is within 1e-13 of the exact integral (tables carry 16-20 digits)",
    "product of exact 1-D rules is exact for per-direction degree (paper lemma)",
]
TRUSTED = ["exact monomial integrals a!b!/(a+b+2)! (skv/poly.py)", "Python Fraction arithmetic"]
UNITS = {}
TOL = Fraction(1, 10 ** 13)
TOLW = Fraction(1, 10 ** 14)


def fr(a):
    return [Fraction(float(v)) for v in np.asarray(a, dtype=float).ravel()]


def moments(X, W, exps_list):
    """exact sum_q w_q prod x_qk^a_k for all exponent tuples."""
    d = len(X)
    maxe = max((max(e) for e in exps_list), default=0)
    pw = [[[Fraction(1)] for _ in X[k]] for k in range(d)]
    for k in range(d):
        for q in range(len(W)):
            for _ in range(maxe):
                pw[k][q].append(pw[k][q][-1] * X[k][q])
    out = {}
    for e in exps_list:
        s = Fraction(0)
        for q in range(len(W)):
            t = W[q]
            for k in range(d):
                t *= pw[k][q][e[k]]
            s += t
        out[e] = s
    return out


def literal_keys(fname):
    import skfem.quadrature as Q
    src = open(Q.__file__).read()
    tree = ast.parse(src)
    for node in tree.body:
        if isinstance(node, ast.FunctionDef) and node.name == fname:
            keys = []
            shape_ok = False
            for sub in ast.walk(node):
                if isinstance(sub, ast.Try):
                    # try: return {..}[norder]   except KeyError: raise NotImplementedError
                    b = sub.body
                    if (len(b) == 1 and isinstance(b[0], ast.Return) and isinstance(b[0].value, ast.Subscript)
                            and isinstance(b[0].value.value, ast.Dict)
                            and isinstance(b[0].value.slice, ast.Name) and b[0].value.slice.id == "norder"
                            and len(sub.handlers) == 1 and getattr(sub.handlers[0].type, "id", None) == "KeyError"
                            and len(sub.handlers[0].body) == 1 and isinstance(sub.handlers[0].body[0], ast.Raise)
                            and not sub.orelse and not sub.finalbody):
                        shape_ok = True
                        for k in b[0].value.value.keys:
                            keys.append(k.value if isinstance(k, ast.Constant) else None)
            # statements other than docstring, the clamp `if` and the try
            others = [s for s in node.body if not isinstance(s, (ast.Try, ast.If))
                      and not (isinstance(s, ast.Expr) and isinstance(getattr(s, "value", None), ast.Constant))]
            return keys, shape_ok and not others
    return None, False


def table_unit(cell):
    def run(ctx):
        import skfem.quadrature as Q
        f = {"tri": Q.get_quadrature_tri, "tet": Q.get_quadrature_tet}[cell]
        d = {"tri": 2, "tet": 3}[cell]
        fn = ctx.function(f)
        keys, shape_ok = literal_keys(f.__name__)
        keys = sorted(k for k in (keys or []) if isinstance(k, int))
        PROBE = range(-3, 61)
        rules, raises = {}, {}
        for n in PROBE:
            try:
                X, W = f(n)
                rules[n] = (np.asarray(X, dtype=float), np.asarray(W, dtype=float))
                raises[n] = None
            except NotImplementedError:
                raises[n] = "NotImplementedError"
            except Exception as e:
                raises[n] = type(e).__name__
        offered = sorted(rules)
        ctx.fact("dispatch/%s/some-order-offered" % cell, fn, len(offered) > 0, "no order in [-3,60] returns a rule", backend="path-execution")
        if shape_ok and keys:
            # the AST has the recognised shape `clamp; try: return {literal}[norder] except KeyError: raise`: then the literal's keys are
            # all the orders that can ever be returned, which extends the claim from the probed range to every integer order
            ctx.fact("dispatch/%s/offered-orders-are-the-literal-keys" % cell, fn, set(k for k in offered if k >= min(keys)) == set(keys),
                     "offered %s vs dict keys %s" % (offered, keys), clause="orders returning a rule (>= smallest key) == keys of the dict literal; "
                     "hence every order above %d raises" % max(keys), backend="ast+path-execution")
        else:
            ctx.notes.append("%s: source does not have the recognised literal-lookup shape; 'orders outside the tables raise' is claimed "
                             "for the probed range [-3,60] only" % f.__name__)
            ctx.assume("get_quadrature_%s: orders above 60 not examined (source shape not recognised by the AST reader)" % cell)
        for n in PROBE:
            if raises[n] is not None:
                ctx.fact("dispatch/%s/n%d/raises" % (cell, n), fn, raises[n] == "NotImplementedError",
                         "order %d raised %s instead of NotImplementedError" % (n, raises[n]),
                         clause="an order that is not offered raises NotImplementedError", backend="path-execution")
        meas = Fraction(1, math.factorial(d))
        cache = {}
        for n in offered:
            X, W = rules[n]
            ok_shape = X.ndim == 2 and X.shape[0] == d and W.ndim == 1 and X.shape[1] == W.shape[0]
            ctx.fact("table/%s/n%d/shape" % (cell, n), fn, ok_shape, "X %s W %s" % (X.shape, W.shape))
            if not ok_shape:
                continue
            key = (X.tobytes(), W.tobytes())
            deg = max(n, 0)
            if key not in cache:
                cache[key] = {}
            Xf = [fr(X[k]) for k in range(d)]
            Wf = fr(W)
            exps = [e for e in itertools.product(range(deg + 1), repeat=d) if sum(e) <= deg and e not in cache[key]]
            cache[key].update(moments(Xf, Wf, exps) if exps else {})
            mom = cache[key]
            for e in [e for e in itertools.product(range(deg + 1), repeat=d) if sum(e) <= deg]:
                err = abs(mom[e] - integrate_monomial_simplex(e))
                rp = dict(kind="quadrature", cell=cell, n=n, clause="moment", exps=list(e))
                if sum(e) == 0:
                    ctx.fact("table/%s/n%d/measure" % (cell, n), fn, err <= TOLW, "sum of weights off by %.3e" % float(err),
                             clause="|sum w - %s| <= 1e-14" % meas, replay=rp)
                else:
                    ctx.fact("table/%s/n%d/moment%s" % (cell, n, "".join(map(str, e))), fn, err <= TOL,
                             "moment %s off by %.3e (relative %.2e)" % (e, float(err), float(err / integrate_monomial_simplex(e))),
                             clause="|sum_q w_q x_q^%s - %s| <= 1e-13" % (list(e), integrate_monomial_simplex(e)), replay=rp)
            inside = all(all(Xf[k][q] >= 0 for k in range(d)) and sum(Xf[k][q] for k in range(d)) <= 1 + TOLW for q in range(len(Wf)))
            ctx.fact("table/%s/n%d/nodes-in-cell" % (cell, n), fn, inside, "a node lies outside the closed reference cell",
                     clause="x_q >= 0 and sum_k x_qk <= 1 for all q", replay=dict(kind="quadrature", cell=cell, n=n, clause="inside"))
        _fresh(ctx, fn, "table/%s" % cell, f, [n for n in offered if n >= 0][:6])
    return run


def _fresh(ctx, fn, pre, getter, orders):
    """FRESH: results are not aliased with library state — mutating a returned rule must not change later results."""
    for n in orders:
        X0, W0 = getter(n)
        Xc, Wc = np.array(X0, copy=True), np.array(W0, copy=True)
        try:
            X0 *= 3.0
            W0 += 1.0
        except ValueError:       # read-only results are fine, too
            pass
        X1, W1 = getter(n)
        ok = np.array_equal(X1, Xc) and np.array_equal(W1, Wc)
        ctx.fact("%s/n%d/fresh" % (pre, n), fn, ok, "after the caller modified a returned rule in place, the next call for order %d returns a different rule" % n,
                 clause="returned arrays are fresh: in-place modification by the caller does not affect later calls",
                 replay=dict(kind="quadrature_fresh", getter=getattr(getter, "__name__", "get_quadrature"), n=n), backend="path-execution")


def line_symbolic(ctx):
    """All orders n: the Gauss point count handed to leggauss."""
    import skfem.quadrature as Q
    fn = ctx.function(Q.get_quadrature_line)
    n = tm.sint("n")
    rec = {}

    def fake_leggauss(m):
        rec["m"] = m
        X = np.empty((1,), dtype=object)
        W = np.empty((1,), dtype=object)
        X[0], W[0] = tm.sreal("Xg"), tm.sreal("Wg")
        return X, W

    def ceil(x):
        if isinstance(x, S):
            c = tm.fresh("ceil", tm.INT)
            paths.side(tm.and_(tm.lt(tm.sub(tm.to_real(c), tm.const(Fraction(1), tm.REAL)), tm.to_real(x.t)),
                               tm.le(tm.to_real(x.t), tm.to_real(c))))
            return S(c)
        return np.ceil(x)

    saved = (Q.leggauss, Q.__dict__.get("int"))
    Q.leggauss = fake_leggauss
    Q.int = lambda v: v if isinstance(v, S) else int(v)
    try:
        with pmode.symbolic_numpy(extra=dict(ceil=ceil)):
            ps = paths.explore(lambda: (Q.get_quadrature_line(n), rec.get("m")))
    finally:
        Q.leggauss = saved[0]
        del Q.int
    if any(isinstance(p.exc, (TypeError, AttributeError)) for p in ps):
        # e.g. a memoising wrapper hashing its argument: outside the symbolic subset -> undecided here; the concrete units
        # line/rules (orders -2..30) still decide the rule itself
        ctx.unsupported("line/all-orders", fn, "symbolic order not accepted by the function: %s" % [repr(p.exc) for p in ps][:2])
        return
    ctx.fact("line/paths", fn, 1 <= len(ps) <= 4 and all(p.exc is None for p in ps), "paths: %s" % ps, backend="path-execution")
    for k, p in enumerate(ps):
        if p.exc is not None:
            continue
        (Y, W), m = p.result
        hy = p.pc + p.side
        mt = tm.lift(m)
        ctx.prove("line/path%d/degree" % k, fn, tm.ge(tm.sub(tm.mul(tm.const(2), mt), tm.const(1)), n.t), hyps=hy,
                  clause="2*npts - 1 >= n   (path: %s)" % [tm.show(c, 40) for c in p.pc])
        ctx.prove("line/path%d/degree2" % k, fn, tm.ge(tm.sub(tm.mul(tm.const(2), mt), tm.const(1)), tm.const(2)), hyps=hy,
                  clause="2*npts - 1 >= 2")
        ctx.prove("line/path%d/npts-positive" % k, fn, tm.ge(mt, tm.const(1)), hyps=hy, clause="npts >= 1")
        Y = np.asarray(Y, dtype=object)
        ctx.fact("line/path%d/shape" % k, fn, Y.shape == (1, 1), "nodes must have shape (1, npts)")
        ctx.prove("line/path%d/affine-nodes" % k, fn, Y[0, 0] == tm.sreal("Xg") / 2 + Fraction(1, 2), hyps=hy, clause="node == X_gauss/2 + 1/2")
        ctx.prove("line/path%d/affine-weights" % k, fn, np.asarray(W, dtype=object)[0] == tm.sreal("Wg") / 2, hyps=hy, clause="weight == W_gauss/2")
    # vacuity guard: the path conditions cover all n
    ctx.prove("line/paths-exhaustive", fn, tm.or_(*[tm.and_(*p.pc) if p.pc else tm.TRUE for p in ps]), clause="path conditions cover every n")


UNITS["line/all-orders"] = line_symbolic


def line_rules(ctx):
    import skfem.quadrature as Q
    from numpy.polynomial.legendre import leggauss
    fn = ctx.function(Q.get_quadrature_line)
    # bounded cross-check of the external axiom
    fails = []
    t0 = __import__("time").time()
    for m in range(1, 41):
        X, W = leggauss(m)
        Xf, Wf = fr(X), fr(W)
        mom = moments([Xf], Wf, [(a,) for a in range(2 * m)])
        for a in range(2 * m):
            exact = Fraction(0) if a % 2 else Fraction(2, a + 1)
            if abs(mom[(a,)] - exact) > Fraction(1, 10 ** 12):
                fails.append(dict(input=dict(m=m, degree=a), observed=float(mom[(a,)]), required=float(exact)))
        if not all(-1 < x < 1 for x in Xf):
            fails.append(dict(input=dict(m=m), observed="node outside (-1,1)"))
    ctx.standin("leggauss(m) exact to degree 2m-1, nodes in (-1,1)", "m in 1..40, all monomials up to degree 2m-1, exact rationals",
                cases=sum(2 * m for m in range(1, 41)), failures=fails, exhaustive=False,
                samples=[dict(m=3, nodes=list(map(float, leggauss(3)[0])))], time_s=__import__("time").time() - t0)
    for n in range(-2, 31):
        X, W = Q.get_quadrature_line(n)
        Xf, Wf = fr(X[0]), fr(W)
        deg = max(n, 2)
        mom = moments([Xf], Wf, [(a,) for a in range(deg + 1)])
        bad = [(a, float(abs(mom[(a,)] - Fraction(1, a + 1)))) for a in range(deg + 1) if abs(mom[(a,)] - Fraction(1, a + 1)) > TOL]
        ctx.fact("line/n%d/exact" % n, fn, not bad, "moments off: %s" % bad[:3], clause="exact for x^a, a <= max(n,2)=%d on [0,1]" % deg,
                 replay=dict(kind="quadrature", cell="line", n=n, clause="moment", exps=[bad[0][0]] if bad else [0]))
        ctx.fact("line/n%d/nodes" % n, fn, all(0 <= x <= 1 for x in Xf), "node outside [0,1]")
    _fresh(ctx, fn, "line", Q.get_quadrature_line, [0, 2, 3, 5, 8])


UNITS["line/rules"] = line_rules


def tensor_unit(cell):
    def run(ctx):
        import skfem.quadrature as Q
        from skfem import refdom as R
        rd = {"quad": R.RefQuad, "hex": R.RefHex, "wedge": R.RefWedge}[cell]
        fn = ctx.function(Q.get_quadrature, refdom=cell)
        d = {"quad": 2, "hex": 3, "wedge": 3}[cell]
        meas = {"quad": Fraction(1), "hex": Fraction(1), "wedge": Fraction(1, 2)}[cell]
        for n in range(0, 13):
            try:
                Y, W = Q.get_quadrature(rd, n)
            except NotImplementedError as e:
                ctx.fact("tensor/%s/n%d/offered" % (cell, n), fn, cell == "wedge" and n > 12, "raised %s" % e)
                continue
            Y, W = np.asarray(Y, dtype=float), np.asarray(W, dtype=float)
            X1, W1 = Q.get_quadrature_line(n)
            X1 = X1[0]
            rp = dict(kind="quadrature", cell=cell, n=n)
            if cell == "wedge":
                X2, W2 = Q.get_quadrature_tri(n)
                want = {}
                for q in range(len(W2)):
                    for r in range(len(W1)):
                        want[(float(X2[0, q]), float(X2[1, q]), float(X1[r]))] = want.get((float(X2[0, q]), float(X2[1, q]), float(X1[r])), 0.0) + float(W2[q] * W1[r])
                npts = len(W2) * len(W1)
            else:
                want = {}
                for idx in itertools.product(range(len(W1)), repeat=d):
                    want[tuple(float(X1[i]) for i in idx)] = float(np.prod([W1[i] for i in idx]))
                npts = len(W1) ** d
            ok_shape = Y.shape == (d, npts) and W.shape == (npts,)
            ctx.fact("tensor/%s/n%d/count" % (cell, n), fn, ok_shape, "Y %s W %s, expected %d points" % (Y.shape, W.shape, npts),
                     clause="number of nodes == product of the factor rule sizes", replay=dict(rp, clause="count"))
            got = {}
            for q in range(Y.shape[1]):
                key = tuple(float(v) for v in Y[:, q])
                got[key] = got.get(key, 0.0) + float(W[q]) if q < len(W) else None
            pairing = set(got) == set(want) and all(abs(got[k] - want[k]) <= 1e-15 for k in want)
            ctx.fact("tensor/%s/n%d/pairing" % (cell, n), fn, pairing,
                     "nodes/weights are not the tensor product of the factor rules with matching indices",
                     clause="{(node, weight)} == {((x_a, x_b[, x_c]), w_a w_b [w_c])} as multisets", replay=dict(rp, clause="pairing"))
            Wf = fr(W)
            s = sum(Wf)
            ctx.fact("tensor/%s/n%d/measure" % (cell, n), fn, abs(s - meas) <= TOLW * 10, "weights sum to %s, cell measure %s" % (float(s), meas),
                     clause="|sum w - %s| <= 1e-13" % meas, replay=dict(rp, clause="moment", exps=[0] * d))
            Yf = [fr(Y[k]) for k in range(min(d, Y.shape[0]))]
            if cell == "wedge":
                inside = len(Yf) == 3 and all(Yf[0][q] >= 0 and Yf[1][q] >= 0 and Yf[0][q] + Yf[1][q] <= 1 and 0 <= Yf[2][q] <= 1 for q in range(len(Wf)))
            else:
                inside = all(0 <= Yf[k][q] <= 1 for k in range(len(Yf)) for q in range(len(Wf)))
            ctx.fact("tensor/%s/n%d/nodes-in-cell" % (cell, n), fn, inside, "a node lies outside the closed cell", replay=dict(rp, clause="inside"))
            # exactness on a probe set of monomials (all for small n, boundary-degree ones for large n)
            nn = max(n, 2) if cell != "wedge" else n
            if cell == "wedge":
                exps = [e for e in itertools.product(range(nn + 1), repeat=3) if e[0] + e[1] <= nn and (nn <= 4 or e[0] + e[1] >= nn - 1 or e[2] >= nn - 1)]
                exact = lambda e: integrate_monomial_simplex(e[:2]) * Fraction(1, e[2] + 1)
            else:
                exps = [e for e in itertools.product(range(nn + 1), repeat=d) if nn <= 4 or max(e) >= nn - 1]
                exact = integrate_monomial_cube
            if len(Yf) == d and len(Wf) == Y.shape[1] and Y.shape[1] <= 4 * npts:
                mom = moments(Yf, Wf, exps)
                bad = [(e, float(abs(mom[e] - exact(e)))) for e in exps if abs(mom[e] - exact(e)) > TOL]
                ctx.fact("tensor/%s/n%d/exact" % (cell, n), fn, not bad, "%d of %d probe monomials wrong, e.g. %s" % (len(bad), len(exps), bad[:2]),
                         clause="exact for per-direction degree <= %d (%d monomials)" % (nn, len(exps)),
                         replay=dict(rp, clause="moment", exps=list(bad[0][0]) if bad else [0] * d))
        _fresh(ctx, fn, "tensor/%s" % cell, lambda n: Q.get_quadrature(rd, n), [0, 2, 3, 4])
    return run


def refdom_dispatch(ctx):
    import skfem.quadrature as Q
    from skfem import refdom as R
    import skfem.element as E
    fn = ctx.function(Q.get_quadrature)
    direct = {R.RefTri: Q.get_quadrature_tri, R.RefTet: Q.get_quadrature_tet, R.RefLine: Q.get_quadrature_line, R.RefPoint: Q.get_quadrature_point}
    for rd, g in direct.items():
        for n in (0, 2, 3, 4):
            a, b = Q.get_quadrature(rd, n), g(n)
            ctx.fact("refdom/%s/n%d" % (rd.__name__, n), fn, np.array_equal(a[0], b[0]) and np.array_equal(a[1], b[1]),
                     "get_quadrature(%s) is not %s" % (rd.__name__, g.__name__))
    for e in (E.ElementTriP2(), E.ElementTetP1, E.ElementQuad1(), E.ElementHex1(), E.ElementLineP1(), E.ElementWedge1()):
        rd = e.refdom
        a, b = Q.get_quadrature(e, 3), Q.get_quadrature(rd, 3)
        ctx.fact("refdom/element/%s" % getattr(e, "__name__", type(e).__name__), fn, np.array_equal(a[0], b[0]) and np.array_equal(a[1], b[1]),
                 "element argument must select its refdom's rule")
    X, W = Q.get_quadrature(R.RefPoint, 5)
    ctx.fact("refdom/point", fn, np.shape(X) == (0, 1) and np.allclose(W, [1.0]), "point rule: one node of weight 1")
    for bad in (R.Refdom, int):
        try:
            Q.get_quadrature(bad, 2)
            ok = False
        except NotImplementedError:
            ok = True
        except Exception:
            ok = False
        ctx.fact("refdom/unknown/%s" % bad.__name__, fn, ok, "unknown reference domain must raise NotImplementedError")


UNITS["refdom-dispatch"] = refdom_dispatch
for _c in ("tri", "tet"):
    UNITS["table/" + _c] = table_unit(_c)
for _c in ("quad", "hex", "wedge"):
    UNITS["tensor/" + _c] = tensor_unit(_c)
HEAVY_FIRST = ["table/tri", "table/tet", "tensor/hex"]
