"""C03 — discrete functions are globally continuous in the sense of the element.

Continuity across an interior facet is a statement about TWO cells glued along a facet.  Up to the geometry there are finitely many ways to do that
(which local facets meet, how the cells list their vertices, how the global vertex numbers compare, which cell is the facet's first neighbour), so the
property becomes a finite family of identities in the point of the facet, each decided exactly from the real code:

contract  PATCH  for every gluing configuration c (enumerated exhaustively per cell type, fed through the REAL default mesh constructor, the REAL Dofs
                 numbering and the REAL mapping on exact rational vertex coordinates) and every global DOF g of the two-cell mesh:
                     trace_K(g)(lambda) == trace_K'(g)(lambda)     for ALL points lambda of the shared facet (symbolic),
                 where trace is the value (H1), the flux density value . N_F (H(div)) or the tangential moments value . T_F (H(curl)) of the REAL gbasis
                 (orientation signs, Piola factors, overrides such as ElementTriN3 / ElementQuadP included); DOFs living on one cell only have trace 0.
                 Linearity in the coefficient vector gives the statement for ANY coefficient vector.
contract  PIOLA  (lemma, symbolic Jacobian): (J^-T a).(J b) == a.b and (J a / |det J|).(cof(J) n) == sign(det J) a.n  -- the trace functionals do not
                 depend on the geometry, so one generic rational geometry per configuration decides the configuration for every affine geometry
                 (together with the pull-back contracts of C09 and the vertex-difference contract of C10).
contract  GEOM2D additionally the PATCH identity with fully SYMBOLIC vertex coordinates for the triangle families (all 24 configurations).
bounded   random coefficient vectors on the mesh zoo, random Delaunay meshes, jiggled quadrilaterals/hexahedra, curved P2/Q2 meshes, every exported
          element incl. the ElementGlobal family (C1 gradients, non-conforming functionals) -- native stand-in with own trace points.
"""
from __future__ import annotations

import itertools
from fractions import Fraction

import numpy as np

from contracts import catalog
from skv import paths, pmode, poly
from skv import term as tm
from skv.term import S

LEVEL = "proof"
EXPLANATION = ("single-valuedness of every global basis function's trace proved for all points of the facet on every two-cell gluing configuration from the real "
               "constructor/Dofs/orient/gbasis code (exact rational arithmetic, symbolic facet point; symbolic geometry for triangles); geometry independence by "
               "the Piola lemma; whole meshes, ElementGlobal family and curved meshes by a bounded stand-in")
ASSUMPTIONS = ["Jacobian determinants of the two cells do not change sign (valid cells): |det| is resolved by the sign at one sample point",
               "every interior facet of a mesh is an instance of one enumerated gluing configuration (two cells, shared facet, C04 SHARE for the DOF numbers)",
               "geometry independence of the trace functionals: PIOLA lemma + C09 pull-back contracts + C10 vertex-difference contract (composition on paper)",
               "exact real arithmetic for the floats of the real code",
               "triangle meshes built with sort_t=False are outside the claim (as the property states)"]
TRUSTED = ["NumPy object arrays executing the real element/mapping code", "exact normal forms skv/poly.py"]
UNITS = {}

P1 = {"line": "ElementLineP1", "tri": "ElementTriP1", "quad": "ElementQuad1", "tet": "ElementTetP1", "hex": "ElementHex1", "wedge": "ElementWedge1"}
BND = {"line": None, "tri": "ElementLineP1", "quad": "ElementLineP1", "tet": "ElementTriP1", "hex": "ElementQuad1", "wedge": None}
MESH = {"line": "MeshLine1", "tri": "MeshTri1", "quad": "MeshQuad1", "tet": "MeshTet1", "hex": "MeshHex1", "wedge": "MeshWedge1"}


def classify(e):
    import skfem.element as E
    n = type(e).__name__
    if isinstance(e, E.ElementGlobal) or "DG" in n or "Skeleton" in n or "HHJ" in n:
        return None
    if isinstance(e, E.ElementHdiv):
        return "hdiv"
    if isinstance(e, E.ElementHcurl):
        return "hcurl"
    if isinstance(e, E.ElementH1) and e.nodal_dofs >= 1:
        return "c0"
    return None


def refverts(kind):
    import skfem.element as E
    return np.array(getattr(E, P1[kind]).doflocs, dtype=float)      # (nverts, dim): reference position of local vertex j


# ------------------------------------------------------------------------------------------------ configurations

def _rat_points(kind):
    """generic dyadic vertex positions of the two-cell patch: K, then the extra vertices of K'"""
    if kind == "line":
        return {"K": [[0.], [1.]], "extra": [[2.5]]}
    if kind == "tri":
        return {"K": [[0., 0.], [1., .25], [.375, 1.]], "extra": [[.875, -.75]]}
    if kind == "tet":
        return {"K": [[0., 0., 0.], [1., .25, .125], [.375, 1., -.25], [.25, .125, 1.]], "extra": [[.5, .375, -.875]]}
    raise KeyError(kind)


def configs(kind, tier, unsorted=False):
    """yield (name, p (dim, nv) float array with exactly representable entries, t (nvc, 2) int array, constructor kwargs) -- the input handed to the real
    mesh constructor.

    Simplices: ONE-SIDED enumeration.  The trace on the shared facet seen from a cell depends on that cell's column of t only (and on which cell comes first),
    so every way of listing a cell K (ordered choice of its global vertex numbers out of the patch's numbers, choice of the apex) is glued to the
    canonically (ascending) listed partner K*; K*-against-K* pairs are among them, so single-valuedness for every pair (K, K') follows by transitivity
    trace_K == trace_K* == trace_K'* == trace_K' (global DOFs identified by entity and index within the entity: C04 SHARE).
    Triangle meshes are sorted per cell by the default constructor, so for them the listing is irrelevant unless sort_t=False (unsorted=True: elements
    with at most one DOF per facet stay inside the claim)."""
    if kind in ("line", "tri", "tet"):
        pts = _rat_points(kind)
        nvc = len(pts["K"])
        base = np.array(pts["K"] + pts["extra"]).T           # positions: shared vertices 0..nvc-2, apex of K: nvc-1, apex of K*: nvc
        nv = base.shape[1]
        if kind == "line":
            base = np.array([[1.], [0.], [2.5]]).T           # shared vertex at 1, K = [0, 1], K* = [1, 2.5]
        count = 0
        for col in itertools.permutations(range(nv), nvc):
            e = [l for l in range(nv) if l not in col][0]
            for apex in col:
                if kind == "tri" and not unsorted and (col.index(apex) != nvc - 1 or list(col[:-1]) != sorted(col[:-1])):
                    continue      # the constructor sorts every cell: one listing per set of numbers
                shared = sorted(l for l in col if l != apex)
                pos = {l: j for j, l in enumerate(shared)}
                pos[apex], pos[e] = nvc - 1, nvc
                p = np.empty_like(base)
                for l, j in pos.items():
                    p[:, l] = base[:, j]
                Kstar = sorted(shared + [e])
                for order in (0, 1):
                    count += 1
                    cells = [list(col), Kstar][::-1 if order else 1]
                    yield ("unsorted/" if unsorted else "") + "K%s/apex%d/order%d" % ("".join(map(str, col)), apex, order), p, np.array(cells).T, (dict(sort_t=False) if unsorted else {})
        return
    ref = refverts(kind)                                    # (nv, dim)
    import skfem.refdom as R
    rd = {"quad": R.RefQuad, "hex": R.RefHex, "wedge": R.RefWedge}[kind]
    d = ref.shape[1]
    # a sheared, exactly representable affine image of the reference cell (generic enough: no axis alignment)
    Aff = {2: np.array([[1., .25], [.375, 1.]]), 3: np.array([[1., .25, .125], [.375, 1., -.25], [.25, .125, 1.]])}[d]
    from native.zoo import QUAD_ROT, WEDGE_ROT, hex_rotations
    rots = {"quad": QUAD_ROT[:4], "hex": hex_rotations(), "wedge": WEDGE_ROT}[kind]
    if tier == "quick" and kind == "hex":
        rots = rots[::3]
    for s, fv in enumerate(rd.facets):
        fv = sorted(set(fv))
        c = ref.mean(0)
        fc = ref[fv].mean(0)
        shift = 2 * (fc - c)                               # translate the reference cell across facet s
        if kind == "wedge" and len(fv) == 4:
            # neighbour across a quadrilateral side: rotate the triangle by 180 degrees about the edge midpoint (keeps the orientation)
            ref2 = ref.copy()
            ref2[:, :2] = 2 * fc[:2] - ref[:, :2]
        else:
            ref2 = ref + shift
        allp = [tuple(r) for r in ref]
        K = list(range(len(ref)))
        K2 = []
        for r in ref2:
            tr = tuple(r)
            if tr not in allp:
                allp.append(tr)
            K2.append(allp.index(tr))
        P = (Aff @ np.array(allp).T)
        for ri, rot in enumerate(rots):
            if kind == "wedge" and len(fv) == 3 and ri > 0:
                continue      # prisms sharing a triangle must list it from the same first vertex (padded facet slots, see C11): not an admissible input
            K2r = [K2[j] for j in rot]
            for order in (0, 1):
                nv = P.shape[1]
                lab = np.arange(nv)
                if order == 1:
                    lab = lab[::-1].copy()               # reverses every comparison of global vertex numbers
                p = np.empty_like(P)
                p[:, lab] = P
                cells = [[lab[v] for v in K], [lab[v] for v in K2r]]
                if order == 1:
                    cells = cells[::-1]                   # ... and makes the other cell the facet's first neighbour
                yield "facet%d/rot%d/order%d" % (s, ri, order), p, np.array(cells).T, {}


# ------------------------------------------------------------------------------------------------ the two-cell patch

class Stub:
    """the real two-cell mesh's tables with exact rational (or symbolic) coordinates"""

    def __init__(self, m, p):
        self.p = self.doflocs = p
        self.t, self.facets, self.t2f, self.f2t = m.t, m.facets, m.t2f, m.f2t
        self.refdom, self.brefdom = m.elem.refdom, getattr(m, "brefdom", None)
        for a in ("edges", "t2e"):
            if hasattr(type(m), a) or hasattr(m, a):
                try:
                    setattr(self, a, getattr(m, a))
                except Exception:
                    pass
        self._d = m.p.shape[0]
        self.nelements, self.nvertices = m.t.shape[1], m.p.shape[1]

        class D:
            element_dofs = m.t
            edge_dofs = np.empty((0, 0), dtype=int)
            facet_dofs = np.empty((0, 0), dtype=int)
        self.dofs = D()

    def dim(self):
        return self._d


def exact(a):
    out = np.empty(np.shape(a), dtype=object)
    for ix in np.ndindex(*np.shape(a)):
        out[ix] = S(tm.const(Fraction(float(a[ix])), tm.REAL))
    return out


def build_mesh(kind, p, t, kw=None):
    import skfem as fem
    import logging
    logging.disable(logging.WARNING)
    return getattr(fem, MESH[kind])(p.copy(), t.copy(), **(kw or {}))


def make_mapping(kind, stub):
    import skfem.element as E
    from skfem.mapping import MappingAffine, MappingIsoparametric
    if kind in ("line", "tri", "tet"):
        return MappingAffine(stub)
    mp = MappingIsoparametric(stub, getattr(E, P1[kind])(), getattr(E, BND[kind])() if BND[kind] else None)
    mp.J = mp._J          # the cache wrapper is the subject of C15
    return mp


def facet_param(nfv):
    """weights of the facet's vertices (in a fixed order of their GLOBAL numbers) as polynomials in the facet point's parameters"""
    if nfv == 1:
        return [S(tm.const(Fraction(1), tm.REAL))], []
    if nfv in (2, 3):
        lam = [tm.sreal("lam%d" % j) for j in range(1, nfv)]
        return [1 - sum(lam[1:], lam[0])] + lam, lam
    s, t = tm.sreal("lam1"), tm.sreal("lam2")
    return [(1 - s) * (1 - t), s * (1 - t), s * t, (1 - s) * t], [s, t]


def R_(v):
    return poly.term_to_rat(tm.lift(v))


LAM_SAMPLE = {"lam1": Fraction(1, 3), "lam2": Fraction(1, 5)}


def RA_(v, env=None, sgn=1):
    """normal form of v with every |x| replaced by (sgn*sigma)*x, sigma the sign of x at a sample point of the facet (and, for symbolic vertex
    coordinates, on the concrete instance env): Jacobian determinants of valid cells do not change sign"""
    t = tm.lift(v)
    subs = {}
    full = dict(env or {})
    for k, val in LAM_SAMPLE.items():
        full[tm.var(k, tm.REAL)] = tm.const(val, tm.REAL)
    for st in tm.subterms(t):
        inner = _abs_arg(st)
        if inner is None:
            continue
        r = poly.term_to_rat(tm.substitute(inner, full))
        if not (r.n.is_const() and r.d.is_const()):
            raise tm.Unsupported("|x| with x not determined by the facet point and the vertex coordinates")
        val = r.n.const_value() / r.d.const_value()
        subs[st] = tm.mul(tm.const(Fraction(sgn * (1 if val > 0 else -1)), tm.REAL), inner)
    if subs:
        t = tm.substitute(t, subs)
    return poly.term_to_rat(t)


def patch_traces(kind, e, m, stub_p, cls):
    """{global dof: [trace components on cell 0, on cell 1]} as exact rational functions of the facet point; real Dofs, real gbasis"""
    from skfem.assembly.dofs import Dofs
    d = m.p.shape[0]
    f = int(np.nonzero(m.f2t[1] != -1)[0][0])
    gv = sorted(int(v) for v in set(m.t[:, 0]) & set(m.t[:, 1]))
    nfv = len(gv)
    if nfv == 4:
        # cyclic order of the face's vertices, read from cell 0's face table
        k0 = 0
        sl = int(np.nonzero(m.t2f[:, k0] == f)[0][0])
        gv = [int(m.t[j, k0]) for j in m.elem.refdom.facets[sl]]
    w, lam = facet_param(nfv)
    ref = refverts(kind)
    edofs = Dofs(m, e).element_dofs
    stub = Stub(m, stub_p)
    nb = edofs.shape[0]
    # global facet vectors from the (exact / symbolic) coordinates of the facet's vertices in the fixed global order
    P = [[stub_p[i, v] for i in range(d)] for v in gv]
    if nfv == 1:
        tang = []
    elif nfv in (2, 3):
        tang = [[P[j][i] - P[0][i] for i in range(d)] for j in range(1, nfv)]
    else:
        s, t = lam
        tang = [[(P[1][i] - P[0][i]) * (1 - t) + (P[2][i] - P[3][i]) * t for i in range(d)], [(P[3][i] - P[0][i]) * (1 - s) + (P[2][i] - P[1][i]) * s for i in range(d)]]
    if d == 2 and tang:
        normal = [tang[0][1], -tang[0][0]]
    elif d == 3 and len(tang) == 2:
        a, b = tang
        normal = [a[1] * b[2] - a[2] * b[1], a[2] * b[0] - a[0] * b[2], a[0] * b[1] - a[1] * b[0]]
    else:
        normal = [S(tm.const(Fraction(1), tm.REAL))]
    traces = {}
    points = []
    for k in (0, 1):
        li = [int(np.nonzero(m.t[:, k] == v)[0][0]) for v in gv]
        X = np.empty((d, 1), dtype=object)
        for i in range(d):
            X[i, 0] = sum(w[a] * Fraction(float(ref[li[a], i])) for a in range(nfv)) + S(tm.const(Fraction(0), tm.REAL))
        ek = catalog.make(e._label)            # fresh element: no cached tables from the other cell
        tind = np.array([k])

        def body(ek=ek, X=X, tind=tind):
            with pmode.symbolic_numpy():
                mp = make_mapping(kind, stub)
                Fx = mp.F(X, tind)
                return Fx, [ek.gbasis(mp, X, i, tind=tind)[0] for i in range(nb)]
        ps = [q for q in paths.explore(body, max_paths=16) if q.exc is None]
        if len(ps) != 1:
            allp = paths.explore(body, max_paths=16)
            raise tm.Unsupported("expected one non-raising path, got %d (%s)" % (len(ps), [str(q.exc)[:80] for q in allp][:3]))
        Fx, fields = ps[0].result
        points.append([Fx[i, 0, 0] for i in range(d)])
        for i in range(nb):
            val = np.asarray(fields[i], dtype=object)
            comp = val[..., 0, 0]
            if cls == "c0":
                tr = [comp.item() if np.ndim(comp) == 0 else comp.reshape(-1)[0]]
            elif cls == "hdiv":
                tr = [sum(comp[j] * normal[j] for j in range(d))]
            else:
                tr = [sum(comp[j] * tv[j] for j in range(d)) for tv in tang]
            g = int(edofs[i, k])
            slot = traces.setdefault(g, [None, None])
            if slot[k] is not None:
                raise tm.Unsupported("global DOF %d appears twice in cell %d" % (g, k))
            slot[k] = tr
    return traces, points, gv


def patch_unit(label, kind):
    def run(ctx):
        import skfem.element as E
        e0 = catalog.make(label)
        cls = classify(e0)
        fn = ctx.function(type(e0).gbasis, element=label, family=cls)
        fo = ctx.function(type(e0).orient) if hasattr(type(e0), "orient") else None
        from skfem.assembly.dofs import Dofs
        ctx.function(Dofs.__init__)
        n = 0
        cfgs = list(configs(kind, ctx.tier))
        if kind == "tri" and e0.facet_dofs <= 1:
            cfgs += list(configs(kind, ctx.tier, unsorted=True))
        for name, p, t, kw in cfgs:
            m = build_mesh(kind, p, t, kw)
            if m.t.shape[1] != 2 or (m.f2t[1] != -1).sum() != 1:
                ctx.fact("patch/%s/%s/shape" % (label, name), fn, False, "the constructor did not deliver a two-cell mesh with one interior facet")
                continue
            e0._label = label
            pre = "patch/%s/%s" % (label, name)
            try:
                traces, points, gv = patch_traces(kind, e0, m, exact(m.p), cls)
            except tm.Unsupported as ex:
                ctx.unsupported(pre, fn, str(ex))
                continue
            n += 1
            same_pt = all((R_(a) - R_(b)).is_zero() for a, b in zip(*points))
            ctx.fact(pre + "/same-point", fn, same_pt, "the two cells' reference points of the facet point do not map to the same global point",
                     clause="F_K(X_K(lambda)) == F_K'(X_K'(lambda))", backend="ground-rational")
            bad = []
            for g, (a, b) in sorted(traces.items()):
                na = len(a) if a is not None else len(b)
                for c in range(na):
                    ta = RA_(a[c]) if a is not None else None
                    tb = RA_(b[c]) if b is not None else None
                    if ta is None:
                        ok = tb.is_zero()
                    elif tb is None:
                        ok = ta.is_zero()
                    else:
                        ok = (ta - tb).is_zero()
                    if not ok:
                        bad.append((g, c, a is not None, b is not None))
            what = {"c0": "value", "hdiv": "normal flux density value.N_F", "hcurl": "tangential moment value.T_F"}[cls]
            ctx.fact(pre + "/single-valued", fn, not bad,
                     "global DOFs %s: the %s of the basis function differs between the two cells (or does not vanish on the cell that does not own the DOF); "
                     "cells %s, shared vertices %s" % ([b_[0] for b_ in bad][:6], what, m.t.T.tolist(), gv),
                     clause="for every global DOF g and every point of the shared facet: %s from cell 0 == from cell 1 (0 where g is not a DOF of the cell)" % what,
                     backend="ground-rational", replay=dict(kind="continuity_patch", element=label, cell=kind, p=m.p.tolist(), t=m.t.tolist(), kw=kw))
        ctx.fact("patch/%s/configurations" % label, fn, n > 0, "no configuration was examined", backend="enumeration")
    return run


def _register():
    for label, cls_, args in catalog.reference_elements():
        try:
            e = cls_(*args)
        except Exception:
            continue
        c = classify(e)
        if c is None:
            continue
        kind = catalog.refdom_kind(e.refdom)
        UNITS["patch/%s" % label] = patch_unit(label, kind)


_register()


def piola(ctx):
    """the trace functionals of Piola-mapped fields do not depend on the Jacobian"""
    import skfem.element as E
    fn1 = ctx.function(E.ElementHcurl.gbasis)
    fn2 = ctx.function(E.ElementHdiv.gbasis)
    for d in (2, 3):
        J = pmode.sym_array("J", (d, d))
        a = pmode.sym_array("a", (d,))
        b = pmode.sym_array("b", (d,))
        c = pmode.sym_array("c", (d,))
        if d == 2:
            det = J[0, 0] * J[1, 1] - J[0, 1] * J[1, 0]
            cof = [[J[1, 1], -J[1, 0]], [-J[0, 1], J[0, 0]]]          # cof[i][j] = cofactor of J[i][j]
        else:
            det = sum(J[0, j] * (J[1, (j + 1) % 3] * J[2, (j + 2) % 3] - J[1, (j + 2) % 3] * J[2, (j + 1) % 3]) for j in range(3))
            cof = [[J[(i + 1) % 3, (j + 1) % 3] * J[(i + 2) % 3, (j + 2) % 3] - J[(i + 1) % 3, (j + 2) % 3] * J[(i + 2) % 3, (j + 1) % 3] for j in range(3)] for i in range(3)]
        # J^-T = cof / det ; covariant: (J^-T a) . (J b) == a . b
        lhs = sum((sum(cof[i][k] * a[k] for k in range(d))) * (sum(J[i, k] * b[k] for k in range(d))) for i in range(d))
        ctx.fact("piola/covariant/d%d" % d, fn1, (R_(lhs) - R_(det * sum(a[k] * b[k] for k in range(d)))).is_zero(), "covariant Piola identity fails",
                 clause="det J * (J^-T a).(J b) == det J * a.b", backend="ground-rational")
        # contravariant: (J a) . (cof(J) n) == det J * a . n ; and the mapped normal: (J b) x (J c) == cof(J) (b x c)
        lhs = sum((sum(J[i, k] * a[k] for k in range(d))) * (sum(cof[i][k] * b[k] for k in range(d))) for i in range(d))
        ctx.fact("piola/contravariant/d%d" % d, fn2, (R_(lhs) - R_(det * sum(a[k] * b[k] for k in range(d)))).is_zero(), "contravariant Piola identity fails",
                 clause="(J a).(cof(J) n) == det J * a.n", backend="ground-rational")
        if d == 3:
            Jb = [sum(J[i, k] * b[k] for k in range(3)) for i in range(3)]
            Jc = [sum(J[i, k] * c[k] for k in range(3)) for i in range(3)]
            bxc = [b[1] * c[2] - b[2] * c[1], b[2] * c[0] - b[0] * c[2], b[0] * c[1] - b[1] * c[0]]
            ok = all((R_(Jb[(i + 1) % 3] * Jc[(i + 2) % 3] - Jb[(i + 2) % 3] * Jc[(i + 1) % 3]) - R_(sum(cof[i][k] * bxc[k] for k in range(3)))).is_zero() for i in range(3))
            ctx.fact("piola/normal/d3", fn2, ok, "mapped normal identity fails", clause="(J b) x (J c) == cof(J) (b x c)", backend="ground-rational")
        else:
            ok = all((R_([Jb_ for Jb_ in [sum(J[1, k] * b[k] for k in range(2)), -sum(J[0, k] * b[k] for k in range(2))]][i]) - R_(sum(cof[i][k] * [b[1], -b[0]][k] for k in range(2)))).is_zero() for i in range(2))
            ctx.fact("piola/normal/d2", fn2, ok, "mapped normal identity fails", clause="rot(J b) == cof(J) rot(b)", backend="ground-rational")


UNITS["lemmas/piola"] = piola


def geom_unit(label, kind):
    """PATCH identity with fully symbolic vertex coordinates (simplicial families)"""
    def run(ctx):
        e = catalog.make(label)
        cls = classify(e)
        fn = ctx.function(type(e).gbasis, element=label)
        e._label = label
        cfgs = list(configs(kind, ctx.tier))
        if kind == "tri" and e.facet_dofs <= 1:
            cfgs += list(configs(kind, ctx.tier, unsorted=True))
        for ci, (name, p, t, kw) in enumerate(cfgs):
            if kind == "tet" and ctx.tier == "quick" and ci % 8 != 0:
                continue
            m = build_mesh(kind, p, t, kw)
            sp = pmode.sym_array("p", m.p.shape)
            pre = "geom/%s/%s" % (label, name)
            try:
                traces, points, gv = patch_traces(kind, e, m, sp, cls)
            except tm.Unsupported as ex:
                ctx.unsupported(pre, fn, str(ex))
                continue
            # |det| of the two cells: the apexes lie on opposite sides of the shared edge  =>  sign(det_K) = s*sigma_K with the signs sigma_K of the concrete instance
            bad = []
            env = {tm.lift(sp[ix]): tm.const(Fraction(float(m.p[ix])), tm.REAL) for ix in np.ndindex(*m.p.shape)}
            for sgn in (1, -1):
                for g, (a, b) in sorted(traces.items()):
                    for c in range(len(a) if a is not None else len(b)):
                        ta = RA_(a[c], env, sgn) if a is not None else None
                        tb = RA_(b[c], env, sgn) if b is not None else None
                        d_ = ta if tb is None else (tb if ta is None else ta - tb)
                        if not d_.is_zero():
                            bad.append((g, sgn))
            ctx.fact(pre, fn, not bad, "with symbolic vertex coordinates the traces of global DOFs %s differ" % sorted(set(b_[0] for b_ in bad))[:6],
                     clause="PATCH identity for all vertex coordinates with the two apexes on opposite sides of the shared facet (both orientations)", backend="ground-rational",
                     replay=dict(kind="continuity_patch", element=label, cell=kind, p=m.p.tolist(), t=m.t.tolist(), kw=kw))
    return run


def _abs_arg(st):
    """x if st is |x| as built by term.absv: ite(x >= 0, x, -x)"""
    if st.op == "ite" and len(st.args) == 3 and tm.neg(st.args[1]) is st.args[2]:
        return st.args[1]
    return None


def _register_geom():
    for label, cls_, args in catalog.reference_elements():
        try:
            e = cls_(*args)
        except Exception:
            continue
        c = classify(e)
        kind = catalog.refdom_kind(e.refdom)
        if c in ("hdiv", "hcurl") and kind in ("tri", "tet"):
            UNITS["geom/%s" % label] = geom_unit(label, kind)
        elif c == "c0" and label in ("ElementTriP3", "ElementTetP2"):
            UNITS["geom/%s" % label] = geom_unit(label, kind)       # H1 values do not involve the geometry at all: two representatives


_register_geom()


def standin_continuity(ctx):
    import time
    from skv import core
    t0 = time.time()
    r = core.run_native("standin_continuity.py", dict(seed=ctx.seed, tier=ctx.tier), timeout=3000)
    ctx.standin("one-sided traces of random discrete functions on both sides of every interior facet", r["bound"], r["cases"], r["failures"], samples=r["samples"],
                time_s=time.time() - t0)


UNITS["standin/continuity"] = standin_continuity
HEAVY_FIRST = ["standin/continuity"] + [u for u in UNITS if u.startswith("geom/ElementTet")]
