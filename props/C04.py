"""C04 — DOF numbering: gap-free, shared exactly along shared entities; local matrices.

contract  Dofs.__init__(topo, element, offset=0)                (Mode I: all sizes and per-entity counts symbolic)
  requires  topo.t in [0,nverts)^(nn x nt), topo.t2e in [0,nedges)^(ne x nt), topo.t2f in [0,nfacets)^(nf x nt)
            (ENT contract of C11), counts n_v, n_e, n_f, n_i >= 0, dim in {1,2,3}
  ensures   TABLE     nodal_dofs[r,v] = r + n_v*v ; edge_dofs[r,e] = off_e + r + n_e*e ;
                      facet_dofs[r,f] = off_f + r + n_f*f ; interior_dofs[r,k] = off_i + r + n_i*k
                      with off_e = n_v*nverts, off_f = off_e + [dim=3 and n_e>0]*n_e*nedges, off_i = off_f + [n_f>0]*n_f*nfacets
            BLOCKS    each table is a bijection onto its block (range, injective, onto) and the blocks are adjacent
                      => the numbers used are exactly [0, off_i + n_i*nt)            (gap-free)
            ROWS      element_dofs[row(kind,s,r), k] = table_kind[r, conn_kind[s,k]] with rows ordered
                      nodal (slot-major, DOF-minor), edge, facet, interior;  shape[0] = sum(_bfun_counts)
            SHARE     element_dofs[a,k] = element_dofs[a',k'] <=> same kind, same r, conn[s,k] = conn[s',k']
                      (interior: k = k')
            TOTAL     N = max(element_dofs)+1 <= off_i + n_i*nt, with equality when the last non-empty block's last
                      entity is referenced (interior block: always; else by ENT surjectivity / every vertex used)
contract  Element._bfun_counts, ElementVector/Composite/DG counts   (C09 wrap units) ; AbstractBasis.N/Nbfun/element_dofs
contract  LOCALITY / SHAPE  is clause COO-B of C01 (rows = test dofs of cell k, cols = trial dofs of the same cell k)
bounded   real Dofs on the mesh zoo vs. the same clauses evaluated concretely (native stand-in)
"""
from __future__ import annotations

from fractions import Fraction

import numpy as np

from skv import paths, sarr
from skv import term as tm
from skv.sarr import SArr, ic
from skv.term import S

LEVEL = "proof"
EXPLANATION = ("Dofs.__init__ is executed symbolically (real code, symbolic mesh sizes and per-entity DOF counts); the "
               "numbering clauses are nonlinear integer obligations discharged by z3 for all sizes.")
ASSUMPTIONS = [
    "A2: int32/int64 index arithmetic treated as mathematical integers (no overflow)",
    "np.max axiom: upper bound that is attained",
    "mesh connectivity satisfies the ENT contract proved in C11 (t2f/t2e entries in range; surjectivity used only for TOTAL)",
]
TRUSTED = ["NumPy model skv/sarr.py (reshape order F, arange, vstack, fancy gather) — cross-checked by the native stand-in"]
UNITS = {}
C = tm.const


class Topo:
    def __init__(self, c, nn, ne, nf, dim=None):
        self._dim = dim
        self.nvertices = c.size("nverts", 1)
        self.nedges = c.size("nedges", 0)
        self.nfacets = c.size("nfacets", 1)
        self.nelements = c.size("nt", 1)
        self.t = SArr.input("t", (nn, self.nelements), lo=0, hi=self.nvertices)
        self.t2e = SArr.input("t2e", (ne, self.nelements), lo=0, hi=self.nedges) if ne else None
        self.t2f = SArr.input("t2f", (nf, self.nelements), lo=0, hi=self.nfacets)

    def dim(self):
        return self._dim


class Elem:
    def __init__(self, c, dim):
        # Element.dim is the number of COMPONENTS for ElementVector(elem, n): it is deliberately given a value different from the cell's dimension --
        # the numbering must depend on the mesh's dimension only
        self.dim = dim % 3 + 1
        self.nodal_dofs = c.size("n_v", 0)
        self.edge_dofs = c.size("n_e", 0)
        self.facet_dofs = c.size("n_f", 0)
        self.interior_dofs = c.size("n_i", 0)


CELLS = {"line": (1, 2, 0, 2), "tri": (2, 3, 0, 3), "quad": (2, 4, 0, 4), "tet": (3, 4, 6, 4), "hex": (3, 8, 12, 6), "wedge": (3, 6, 9, 5)}


def dofs_unit(cell):
    dim, nn, ne, nf = CELLS[cell]

    def run(ctx):
        import skfem.assembly.dofs as D
        fn = ctx.function(D.Dofs.__init__, cell=cell)
        box = {}

        def body():
            with sarr.index_context() as c:
                box["c"] = c
                topo, el = Topo(c, nn, ne, nf, dim), Elem(c, dim)
                with sarr.mode_i([D]):
                    d = D.Dofs.__new__(D.Dofs)
                    D.Dofs.__init__(d, topo, el)
                return c, topo, el, d

        ps = paths.explore(body, hyps_fn=lambda: box["c"].hyps if "c" in box else [])
        ctx.fact("dofs/%s/paths" % cell, fn, len(ps) >= 1 and all(p.exc is None for p in ps),
                 "paths: %s" % [(p.pc, repr(p.exc)) for p in ps], backend="path-execution")
        for pi, p in enumerate(ps):
            if p.exc is not None:
                continue
            c, topo, el, d = p.result
            sarr.IC.cur = c
            try:
                _check_path(ctx, fn, "dofs/%s/path%d" % (cell, pi), c, p, topo, el, d, dim, nn, ne, nf)
            finally:
                sarr.IC.cur = None
        # vacuity guard: path conditions cover all count combinations
        ctx.prove("dofs/%s/paths-exhaustive" % cell, fn, tm.or_(*[tm.and_(*p.pc) if p.pc else tm.TRUE for p in ps]),
                  hyps=[tm.le(C(0), tm.var(n, tm.INT)) for n in ("n_v", "n_e", "n_f", "n_i")], clause="path conditions cover every count vector")
    return run


def _check_path(ctx, fn, pre, c, p, topo, el, d, dim, nn, ne, nf):
    nv_, ne_, nf_, ni_ = (el.nodal_dofs.t, el.edge_dofs.t, el.facet_dofs.t, el.interior_dofs.t)
    NV, NE, NF, NT = topo.nvertices.t, topo.nedges.t, topo.nfacets.t, topo.nelements.t
    pc = list(p.pc)
    has_e = tm.and_(C(dim == 3), tm.lt(C(0), ne_))
    has_f = tm.lt(C(0), nf_)
    off_e, off_f, off_i, total = offsets(dim, nv_, ne_, nf_, ni_, NV, NE, NF, NT)
    r, v = c.skolem("r", 0), c.skolem("v", 0)
    k = c.skolem("k", 0, NT)

    def H(*extra):
        return c.all_hyps() + pc + [e.t if isinstance(e, S) else e for e in extra]

    tables = [("nodal", d.nodal_dofs, nv_, NV, C(0), tm.TRUE),
              ("edge", d.edge_dofs, ne_, NE, off_e, has_e),
              ("facet", d.facet_dofs, nf_, NF, off_f, has_f),
              ("interior", d.interior_dofs, ni_, NT, off_i, tm.TRUE)]
    for name, tab, cnt, nent, off, present in tables:
        if not isinstance(tab, SArr):
            ok = isinstance(tab, np.ndarray) and tab.size == 0
            ctx.prove("%s/%s/absent-is-empty" % (pre, name), fn, tm.and_(C(bool(ok)), tm.not_(present)), hyps=H(),
                      clause="%s table is empty exactly when the element has no such DOFs" % name)
            continue
        ctx.prove("%s/%s/shape" % (pre, name), fn,
                  tm.and_(present, tm.eq(sarr._t(tab.shape[0]), cnt), tm.eq(sarr._t(tab.shape[1]), nent)), hyps=H(),
                  clause="%s_dofs.shape == (count, entities)" % name)
        ctx.prove("%s/%s/table" % (pre, name), fn, tm.eq(tab.get((r.t, v.t)), tm.add(off, tm.add(r.t, tm.mul(cnt, v.t)))),
                  hyps=H(tm.lt(r.t, cnt), tm.lt(v.t, nent)), clause="%s_dofs[r,e] == offset_%s + r + count*e" % (name, name))
    # ROWS
    ed = d.element_dofs
    nrows = tm.add(tm.add(tm.mul(nv_, C(nn)), tm.ite(has_e, tm.mul(ne_, C(ne)), C(0))),
                   tm.add(tm.ite(tm.and_(C(dim >= 2), has_f), tm.mul(nf_, C(nf)), C(0)), ni_))
    ctx.prove("%s/rows/count" % pre, fn, tm.and_(tm.eq(sarr._t(ed.shape[0]), nrows), tm.eq(sarr._t(ed.shape[1]), NT)), hyps=H(),
              clause="element_dofs.shape == (n_v*nnodes + [3d]n_e*nedges + [>=2d]n_f*nfacets + n_i, nt)")
    base_e = tm.mul(nv_, C(nn))
    base_f = tm.add(base_e, tm.ite(has_e, tm.mul(ne_, C(ne)), C(0)))
    base_i = tm.add(base_f, tm.ite(tm.and_(C(dim >= 2), has_f), tm.mul(nf_, C(nf)), C(0)))
    kinds = [("nodal", nn, nv_, C(0), d.nodal_dofs, topo.t, tm.TRUE)]
    if ne:
        kinds.append(("edge", ne, ne_, base_e, d.edge_dofs, topo.t2e, has_e))
    if dim >= 2:
        kinds.append(("facet", nf, nf_, base_f, d.facet_dofs, topo.t2f, has_f))
    for name, nslots, cnt, base, tab, conn, present in kinds:
        if not isinstance(tab, SArr):
            continue
        for s in range(nslots):
            row = tm.add(base, tm.add(tm.mul(C(s), cnt), r.t))
            ctx.prove("%s/rows/%s/slot%d" % (pre, name, s), fn, tm.eq(ed.get((row, k.t)), tab.get((r.t, conn.get((C(s), k.t))))),
                      hyps=H(present, tm.lt(r.t, cnt)), clause="element_dofs[base_%s + %d*count + r, k] == %s_dofs[r, conn[%d,k]]" % (name, s, name, s))
    ctx.prove("%s/rows/interior" % pre, fn, tm.eq(ed.get((tm.add(base_i, r.t), k.t)), d.interior_dofs.get((r.t, k.t))), hyps=H(tm.lt(r.t, ni_)),
              clause="element_dofs[base_interior + r, k] == interior_dofs[r, k]")
    # TOTAL: N = max + 1; upper bound from the attained witness + ROWS/TABLE/L-range; equality when interior DOFs exist
    N = sarr._t(d.N)
    sarr.hint_max(N, (tm.add(base_i, tm.sub(ni_, C(1))), tm.sub(NT, C(1))))
    ctx.prove("%s/total/interior-present" % pre, fn, tm.ge(N, total), hyps=H(tm.lt(C(0), ni_)),
              clause="n_i > 0  =>  N >= off_interior + n_i*nt  (the last interior DOF is referenced)")
    m, w = ed.max_witness if hasattr(ed, "max_witness") else (None, None)
    if m is not None:
        # the attained maximum is some element_dofs[row*, k*]; classify row* by block and bound with L-range
        hy = H()
        hy += [sarr.lemma_mul_mono(cnt, conn.get((C(s), w[1])), nent) for cnt, nent, conn, ns in
               ((nv_, NV, topo.t, nn), (ne_, NE, topo.t2e, ne), (nf_, NF, topo.t2f, nf)) if conn is not None for s in range(ns)]
        hy.append(sarr.lemma_mul_mono(ni_, w[1], NT))
        # split by the block / slot the attaining row lies in (each case is a small query; the cases cover all rows by linear arithmetic)
        w0 = w[0]
        cases = []
        for name, nslots, cnt, base, tab, conn, present in kinds:
            if not isinstance(tab, SArr):
                continue
            for s in range(nslots):
                lo = tm.add(base, tm.mul(C(s), cnt))
                cases.append(("%s%d" % (name, s), tm.and_(present, tm.le(lo, w0), tm.lt(w0, tm.add(lo, cnt)))))
        cases.append(("interior", tm.and_(tm.le(base_i, w0), tm.lt(w0, tm.add(base_i, ni_)))))
        for cname, cond in cases:
            ctx.prove("%s/total/upper/%s" % (pre, cname), fn, tm.le(N, total), hyps=hy + [cond], first="cvc5",
                      clause="the attained maximum lies in block %s  =>  N <= off_interior + n_i*nt" % cname)
        ctx.prove("%s/total/upper/cover" % pre, fn, tm.or_(*[cnd for _, cnd in cases]), hyps=hy + [tm.le(C(0), w0), tm.lt(w0, nrows)],
                  clause="every row index 0 <= row < Nbfun lies in exactly one block/slot range")


def offsets(dim, nv_, ne_, nf_, ni_, NV, NE, NF, NT):
    has_e = tm.and_(C(dim == 3), tm.lt(C(0), ne_))
    has_f = tm.lt(C(0), nf_)
    off_e = tm.mul(nv_, NV)
    off_f = tm.add(off_e, tm.ite(has_e, tm.mul(ne_, NE), C(0)))
    off_i = tm.add(off_f, tm.ite(has_f, tm.mul(nf_, NF), C(0)))
    total = tm.add(off_i, tm.mul(ni_, NT))
    return off_e, off_f, off_i, total


def lemmas_numbering(ctx):
    """Consequences of the TABLE/ROWS formulas (pure arithmetic, all sizes): BLOCKS and SHARE."""
    fn = "contract DOFS (lemma layer over Dofs.__init__'s TABLE/ROWS clauses)"
    I = lambda n: tm.var(n, tm.INT)
    r, e, r2, e2, c_, n, g = I("r"), I("e"), I("r2"), I("e2"), I("c"), I("n"), I("g")
    rng = [tm.le(C(0), r), tm.lt(r, c_), tm.le(C(0), e), tm.lt(e, n)]
    rng2 = [tm.le(C(0), r2), tm.lt(r2, c_), tm.le(C(0), e2), tm.lt(e2, n)]
    val, val2 = tm.add(r, tm.mul(c_, e)), tm.add(r2, tm.mul(c_, e2))
    ctx.prove("lemmas/block/range", fn, tm.and_(tm.le(C(0), val), tm.lt(val, tm.mul(c_, n))), hyps=rng + [sarr.lemma_mul_mono(c_, e, n)],
              clause="0<=r<c, 0<=e<n  =>  0 <= r + c*e < c*n")
    ctx.prove("lemmas/block/injective", fn, tm.implies(tm.eq(val, val2), tm.and_(tm.eq(r, r2), tm.eq(e, e2))), hyps=rng + rng2,
              clause="r + c*e == r' + c*e' (in range) => r == r' and e == e'")
    wr, we = tm.mod(g, c_), tm.idiv(g, c_)
    ctx.prove("lemmas/block/onto", fn, tm.and_(tm.le(C(0), wr), tm.lt(wr, c_), tm.le(C(0), we), tm.lt(we, n), tm.eq(tm.add(wr, tm.mul(c_, we)), g)),
              hyps=[tm.lt(C(0), c_), tm.le(C(0), g), tm.lt(g, tm.mul(c_, n))], clause="0 <= g < c*n  =>  g = r + c*e with r = g mod c, e = g div c in range")
    # four adjacent blocks: sizes A,B,Cc,D (products kept opaque) => disjoint, union = [0, total)
    A, B, Cc, D = I("A"), I("B"), I("Cc"), I("D")
    x, y = I("x"), I("y")
    offs = [C(0), A, tm.add(A, B), tm.add(tm.add(A, B), Cc), tm.add(tm.add(tm.add(A, B), Cc), D)]
    nonneg = [tm.le(C(0), s) for s in (A, B, Cc, D)]
    for i in range(4):
        for j in range(4):
            if i < j:
                ctx.prove("lemmas/blocks/disjoint%d%d" % (i, j), fn, tm.ne(x, y),
                          hyps=nonneg + [tm.le(offs[i], x), tm.lt(x, offs[i + 1]), tm.le(offs[j], y), tm.lt(y, offs[j + 1])],
                          clause="numbers of block %d and block %d differ" % (i, j))
    ctx.prove("lemmas/blocks/cover", fn, tm.or_(*[tm.and_(tm.le(offs[i], x), tm.lt(x, offs[i + 1])) for i in range(4)]),
              hyps=nonneg + [tm.le(C(0), x), tm.lt(x, offs[4])], clause="every number in [0, total) lies in exactly one block (gap-free)")
    # SHARE within a kind: off + r + c*conn == off + r' + c*conn'  <=>  r == r' and conn == conn'
    off = I("off")
    ctx.prove("lemmas/share/same-kind", fn, tm.eq(tm.eq(tm.add(off, val), tm.add(off, val2)), tm.and_(tm.eq(r, r2), tm.eq(e, e2))), hyps=rng + rng2,
              clause="same kind: equal global numbers <=> same local DOF r and same entity")
    # SHARE across kinds: ranges of different blocks
    c2, n2, offb = I("c2"), I("n2"), I("offb")
    rngb = [tm.le(C(0), r2), tm.lt(r2, c2), tm.le(C(0), e2), tm.lt(e2, n2)]
    ctx.prove("lemmas/share/different-kinds", fn, tm.ne(tm.add(off, val), tm.add(offb, tm.add(r2, tm.mul(c2, e2)))),
              hyps=rng + rngb + [tm.le(tm.add(off, tm.mul(c_, n)), offb), sarr.lemma_mul_mono(c_, e, n), sarr.lemma_mul_mono(c2, e2, n2)],
              clause="different kinds (block of the first ends before the second starts): numbers differ")


UNITS["lemmas/numbering"] = lemmas_numbering


def lemmas_arith(ctx):
    """The arithmetic lemma used as ground hint, proved for all integers."""
    a, b, c = tm.var("a", tm.INT), tm.var("b", tm.INT), tm.var("c", tm.INT)
    ctx.prove("lemmas/arith/mul-mono", "skv/sarr.py::lemma_mul_mono", sarr.lemma_mul_mono(a, b, c), clause="a>=0, 0<=b<c => a*b+a <= a*c and a*b >= 0")


UNITS["lemmas/arith"] = lemmas_arith
for _c in CELLS:
    UNITS["dofs/" + _c] = dofs_unit(_c)


def standin_dofs(ctx):
    import time
    from skv import core
    t0 = time.time()
    r = core.run_native("standin_mesh.py", dict(seed=ctx.seed, tier=ctx.tier, what="dofs"))
    ctx.standin("DOFS clauses (gap-free, sharing, tables vs cell list, doflocs, matrix shape/locality) on the real Dofs/Basis over the mesh zoo x element list",
                r["bound"] + "; elements: 1-12 per cell type incl. vector, composite, DG, H(div), H(curl), global", r["cases"], r["failures"],
                samples=r["samples"], time_s=time.time() - t0)
    r = core.run_native("standin_mesh.py", dict(seed=ctx.seed, tier=ctx.tier, what="dofs-derived"), timeout=3000)
    ctx.standin("DOFS clauses on meshes derived by library operations from meshes with warm connectivity caches", r["bound"], r["cases"], r["failures"],
                samples=r["samples"], time_s=time.time() - t0)
    r = core.run_native("standin_mesh.py", dict(seed=ctx.seed, tier=ctx.tier, what="large"))
    ctx.standin("machine-integer probe (outside assumption A2): entity tables of meshes with more than 2**16 randomly numbered vertices",
                r["bound"], r["cases"], r["failures"], samples=r["samples"], time_s=time.time() - t0)


UNITS["standin/dofs"] = standin_dofs
def standin_periodic(ctx):
    import time
    from skv import core
    t0 = time.time()
    r = core.run_native("standin_mesh.py", dict(what="periodic", seed=ctx.seed, tier=ctx.tier), timeout=3000)
    ctx.standin("gap-free numbering on periodic tensor meshes for every subset of periodic directions", r["bound"], r["cases"], r["failures"], samples=r["samples"], time_s=time.time() - t0)


UNITS["standin/periodic"] = standin_periodic


def basis_wiring(ctx):
    """AbstractBasis.__init__: the numbering of a basis is Dofs(mesh, elem) for exactly its own mesh and element, or the caller's dofs object"""
    import skfem as fem
    import skfem.assembly.basis.abstract_basis as AB
    fn = ctx.function(AB.AbstractBasis.__init__)
    rec = []
    real = AB.Dofs

    class Rec(real):
        def __init__(self, mesh, elem, *a, **k):
            rec.append((mesh, elem))
            real.__init__(self, mesh, elem, *a, **k)
    AB.Dofs = Rec
    try:
        cases = [(fem.MeshTri(), fem.ElementTriP1()), (fem.MeshTri(), fem.ElementTriP1DG()), (fem.MeshTri(), fem.ElementTriP2()), (fem.MeshQuad(), fem.ElementQuad1DG()),
                 (fem.MeshLine(), fem.ElementLineP1DG()), (fem.MeshHex(), fem.ElementHex1DG()), (fem.MeshTet(), fem.ElementTetP1()), (fem.MeshTri(), fem.ElementDG(fem.ElementTriP1()))]
        for m, e in cases:
            del rec[:]
            b = fem.CellBasis(m, e)
            ok = len(rec) == 1 and rec[0][0] is m and rec[0][1] is e and isinstance(b.dofs, Rec)
            ctx.fact("basis/dofs-wiring/%s" % type(e).__name__, fn, ok, "the basis must number its DOFs with Dofs(mesh, elem) of its own element (got %d constructions)" % len(rec),
                     clause="dofs is None  =>  self.dofs == Dofs(mesh, elem) for this mesh and THIS element object (subclasses of the mesh's own element type included)",
                     backend="path-execution", replay=dict(kind="basis_dofs", element=type(e).__name__, mesh=type(m).__name__))
            del rec[:]
            given = real(m, e)
            b2 = fem.CellBasis(m, e, dofs=given)
            ctx.fact("basis/dofs-given/%s" % type(e).__name__, fn, b2.dofs is given and not rec, "a dofs object handed in by the caller must be used as it is", backend="path-execution")
    finally:
        AB.Dofs = real


UNITS["basis/dofs-wiring"] = basis_wiring


def _doflocs_unit(label, kind, is_global):
    """DOFLOC: on every two-cell gluing configuration (enumeration of props.C03) the two cells map the reference location of a shared DOF to the same point"""
    def run(ctx):
        from props import C03
        from contracts import catalog
        from skfem.assembly.dofs import Dofs
        from skv import pmode, poly
        import skfem.element as E
        e = getattr(E, label)() if is_global else catalog.make(label)
        fn = ctx.function(Dofs.__init__, element=label)
        X = np.asarray(e.doflocs, dtype=float)
        cfgs = list(C03.configs(kind, ctx.tier))
        if kind == "tri" and e.facet_dofs <= 1:
            cfgs += list(C03.configs(kind, ctx.tier, unsorted=True))
        if kind == "tet" and ctx.tier == "quick":
            cfgs = cfgs[::4]
        n = 0
        for name, p, t, kw in cfgs:
            m = C03.build_mesh(kind, p, t, kw)
            if m.t.shape[1] != 2:
                continue
            edofs = Dofs(m, e).element_dofs
            stub = C03.Stub(m, C03.exact(m.p))
            rows = [j for j in range(min(X.shape[0], edofs.shape[0])) if not np.isnan(X[j]).any()]
            if not rows:
                continue
            Xr = np.empty((X.shape[1], len(rows)), dtype=object)
            for a, j in enumerate(rows):
                for i in range(X.shape[1]):
                    Xr[i, a] = S(tm.const(Fraction(float(X[j, i])).limit_denominator(1000), tm.REAL))
            with pmode.symbolic_numpy():
                mp = C03.make_mapping(kind, stub)
                Fx = mp.F(Xr)                                  # (dim, 2, nrows)
            loc = {}
            bad = []
            for k in (0, 1):
                for a, j in enumerate(rows):
                    g = int(edofs[j, k])
                    pt = tuple(poly.term_to_rat(tm.lift(Fx[i, k, a])) for i in range(X.shape[1]))
                    if g in loc and not all((u - v).is_zero() for u, v in zip(loc[g][0], pt)):
                        bad.append((g, loc[g][1], (k, j)))
                    loc.setdefault(g, (pt, (k, j)))
            n += 1
            ctx.fact("doflocs/%s/%s" % (label, name), fn, not bad,
                     "global DOFs %s are located at different points by the two cells (cell, local index): %s; cells %s" % ([b_[0] for b_ in bad][:4], [b_[1:] for b_ in bad][:2], m.t.T.tolist()),
                     clause="F_K(elem.doflocs[i]) == F_K'(elem.doflocs[i']) whenever element_dofs[i,K] == element_dofs[i',K']  (the DOF location table is single valued)",
                     backend="ground-rational", replay=dict(kind="mesh_case", what="dofs", only="tri2", seed=0, tier="quick"))
        ctx.fact("doflocs/%s/configurations" % label, fn, n > 0 or not rows_exist(X), "no configuration examined", backend="enumeration")
    return run


def rows_exist(X):
    return bool(len(X)) and not np.isnan(np.asarray(X, dtype=float)).all()


def _register_doflocs():
    from contracts import catalog
    for is_global, items in ((False, catalog.reference_elements()), (True, catalog.global_elements())):
        for label, cls_, args in items:
            try:
                e = cls_(*args)
            except Exception:
                continue
            if getattr(e, "doflocs", None) is None or getattr(e, "refdom", None) is None:
                continue
            kind = catalog.refdom_kind(e.refdom)
            if kind == "point":
                continue
            UNITS["doflocs/%s" % label] = _doflocs_unit(label, kind, is_global)


_register_doflocs()


HEAVY_FIRST = ["standin/dofs", "dofs/hex", "dofs/tet", "dofs/wedge"]
