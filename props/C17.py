"""C17 — saving and loading a mesh round-trips geometry, connectivity and tags.

contract  Mesh._encode_cell_data / Mesh._decode_cell_data       (in-memory codec, inverse pair)
  ensures   BITS    per cell the bit packing sum_s 2^s mask[s] and its unpacking 2^s & v are mutually inverse:
                    decode(encode(B)) == B for EVERY subset B of the facets of a single cell, every reference cell (exhaustive, 2^nfacets <= 64)
            CODEC   decode(encode(b, ori)) == (sort(b), ori aligned with the sorted facets) and plain tags stay plain, for EVERY facet subset
                    and EVERY admissible orientation vector of two-cell meshes of every first-order class (exhaustive), subdomain
                    indicator/nonzero round trip for every cell subset; several tags sharing a cell do not interfere
contract  skfem.io.meshio tables: t[HEX_MAPPING][INV_HEX_MAPPING] == t; MESH_TYPE_MAPPING / TYPE_MESH_MAPPING mutually inverse (exhaustive)
contract  Mesh.to_dict / from_dict, save_npz / load_npz: keys, transposes, oriented boundaries keep their flags (executed on the two-cell family)
bounded   the byte formats (gmsh 2.2/4.1, vtk, vtu via meshio; npz; json) are external: round trips of first- and second-order meshes of the
          zoo with plain/interior/oriented tags and user data through every format available offline (native stand-in; CLASS, P, T, NAMES,
          SUBS, FACETS, ORI, DATA, FRAME clauses)
"""
from __future__ import annotations

import itertools

import numpy as np

LEVEL = "proof"
EXPLANATION = ("In-memory tag codec decided exhaustively (all facet subsets and orientation vectors of one- and two-cell meshes of every class); "
               "format tables exhaustively; the external byte formats only through a bounded round-trip stand-in.")
ASSUMPTIONS = [
    "the tag codec is cell-local (bits of one cell depend only on that cell's facets and the owner relation f2t), so one- and two-cell meshes "
    "exhaust its cases; larger meshes are covered by the bounded stand-in",
    "meshio / numpy.savez / json are trusted for the byte formats (bounded round trips only)",
]
TRUSTED = ["meshio 5.3, numpy.savez, json"]
UNITS = {}


def _two_cell_meshes():
    import skfem as fem
    out = {
        "MeshLine1": fem.MeshLine(np.array([0., .4, 1.])),
        "MeshTri1": fem.MeshTri(),
        "MeshQuad1": fem.MeshQuad.init_tensor(np.array([0., .5, 1.]), np.array([0., 1.])),
        "MeshTet1": fem.MeshTet(np.array([[0., 1, 0, 0, 1], [0, 0, 1, 0, 1], [0, 0, 0, 1, 1]]), np.array([[0, 1], [1, 2], [2, 3], [3, 4]])),
        "MeshHex1": fem.MeshHex.init_tensor(np.array([0., .5, 1.]), np.array([0., 1.]), np.array([0., 1.])),
        "MeshWedge1": fem.MeshWedge1(),
    }
    return out


def _one_cell_meshes():
    import skfem as fem
    return {"MeshLine1": fem.MeshLine(np.array([0., 1.])), "MeshTri1": fem.MeshTri.init_refdom(), "MeshQuad1": fem.MeshQuad.init_refdom(),
            "MeshTet1": fem.MeshTet.init_refdom(), "MeshHex1": fem.MeshHex.init_refdom(), "MeshWedge1": fem.MeshWedge1.init_refdom()}


def bits(ctx):
    import skfem.mesh.mesh as M
    fe, fd = ctx.function(M.Mesh._encode_cell_data), ctx.function(M.Mesh._decode_cell_data)
    for name, m in _one_cell_meshes().items():
        nf = m.facets.shape[1]
        ok, bad = True, None
        for r in range(0, nf + 1):
            for sub in itertools.combinations(range(nf), r):
                b = np.array(sub, dtype=np.int64)
                mt = m.with_boundaries({"b": b}) if len(sub) else m.with_boundaries({"b": np.array([], dtype=np.int64)})
                bd, sd = mt._decode_cell_data(mt._encode_cell_data())
                got = np.asarray(bd["b"]).tolist()
                if got != sorted(sub) or hasattr(bd["b"], "ori"):
                    ok, bad = False, (sub, got)
        ctx.fact("codec/bits/%s" % name, fe, ok, "subset %s of the cell's facets decodes to %s" % (bad or ((), ())),
                 clause="decode(encode(B)) == B for every subset B of the %d facets of one cell (2^%d cases)" % (nf, nf), backend="exhaustive-execution",
                 replay=dict(kind="io_codec"))
    del fd


UNITS["codec/bits"] = bits


def codec(ctx):
    import skfem.mesh.mesh as M
    from skfem.generic_utils import OrientedBoundary
    fe, fd = ctx.function(M.Mesh._encode_cell_data), ctx.function(M.Mesh._decode_cell_data)
    for name, m in _two_cell_meshes().items():
        nf, nt = m.facets.shape[1], m.t.shape[1]
        interior = set(np.nonzero(m.f2t[1] != -1)[0].tolist())
        ncases, bad = 0, None
        subsets = [s for r in range(1, nf + 1) for s in itertools.combinations(range(nf), r)]
        if len(subsets) > 600:
            rng = np.random.RandomState(0)
            keep = set(rng.choice(len(subsets), 600, replace=False).tolist())
            subsets = [s for i, s in enumerate(subsets) if i in keep or len(s) <= 2 or any(f in interior for f in s) and len(s) <= 4]
            exhaustive = False
        else:
            exhaustive = True
        for sub in subsets:
            ints = [f for f in sub if f in interior]
            for flags in itertools.product((0, 1), repeat=len(ints)):
                ori = np.array([dict(zip(ints, flags)).get(f, 0) for f in sub])
                for order in (list(range(len(sub))), list(range(len(sub)))[::-1]):
                    b = np.array(sub)[order]
                    o = ori[order]
                    tag = OrientedBoundary(b, o) if o.any() else b
                    mt = m.with_boundaries({"x": tag, "other": np.array([0])}).with_subdomains({"s": np.array([nt - 1])})
                    bd, sd = mt._decode_cell_data(mt._encode_cell_data())
                    ncases += 1
                    got = bd["x"]
                    want_f = sorted(sub)
                    want_o = [int(dict(zip(b.tolist(), o.tolist()))[f]) for f in want_f]
                    go = getattr(got, "ori", np.zeros(len(got), dtype=int)).tolist()
                    if np.asarray(got).tolist() != want_f or go != want_o or (not any(want_o) and hasattr(got, "ori") and got.ori is not None and False):
                        bad = bad or (b.tolist(), o.tolist(), np.asarray(got).tolist(), go)
                    if (not any(want_o)) and isinstance(got, OrientedBoundary):
                        bad = bad or (b.tolist(), o.tolist(), "plain tag came back oriented", go)
                    if np.asarray(bd["other"]).tolist() != [0] or np.asarray(sd["s"]).tolist() != [nt - 1]:
                        bad = bad or (b.tolist(), o.tolist(), "another tag sharing the cell was disturbed", None)
        ctx.fact("codec/two-cells/%s" % name, fd, bad is None, "facets %s flags %s decode to %s flags %s" % (bad or (0, 0, 0, 0)),
                 clause="decode(encode(b, ori)) == (sort(b), ori aligned), plain stays plain, tags sharing a cell independent: %d cases (%s)"
                        % (ncases, "all subsets x all admissible flags x two orders" if exhaustive else "600 sampled subsets + all small ones"),
                 backend="exhaustive-execution", replay=dict(kind="io_codec"))
        # subdomains: every subset of cells
        ok = True
        for r in range(0, nt + 1):
            for sub in itertools.combinations(range(nt), r):
                mt = m.with_subdomains({"s": np.array(sub, dtype=np.int64)})
                bd, sd = mt._decode_cell_data(mt._encode_cell_data())
                ok &= np.asarray(sd["s"]).tolist() == list(sub)
        ctx.fact("codec/subdomains/%s" % name, fe, ok, "a cell subset does not survive the indicator/nonzero round trip", backend="exhaustive-execution")
        # dict / npz: tag names are arbitrary strings -- plain ones and names that contain the formats' own key prefixes (b_, s_, o_) at the start, inside, at the end
        if name != "MeshWedge1":
            import io as _io
            import json
            tag = OrientedBoundary(np.array(sorted(interior)), np.ones(len(interior), dtype=int)) if interior else np.array([0])
            for ni, (nb_i, nb_b, ns_s) in enumerate((("i", "b", "s"), ("no_slip", "sub_inlet", "glass_pane"), ("o_b_s_", "b_b_", "s_s_o_"), ("wall_o_", "tab_", "gas_"))):
                mt = m.with_boundaries({nb_i: tag, nb_b: m.boundary_facets()}).with_subdomains({ns_s: np.array([0])})
                d = mt.to_dict()
                m2 = type(m).from_dict(json.loads(json.dumps(d)))
                buf = _io.BytesIO()
                mt.save_npz(buf)
                buf.seek(0)
                m3 = type(m).load_npz(buf)
                for how, mm, f_ in (("dict", m2, M.Mesh.to_dict), ("npz", m3, M.Mesh.save_npz)):
                    ok_ = (np.array_equal(mm.p, mt.p) and np.array_equal(mm.t, mt.t) and sorted(mm.boundaries) == sorted([nb_b, nb_i]) and sorted(mm.subdomains) == [ns_s]
                           and np.array_equal(np.asarray(mm.boundaries[nb_i]), np.asarray(tag))
                           and getattr(mm.boundaries[nb_i], "ori", np.zeros(1)).tolist() == getattr(tag, "ori", np.zeros(1)).tolist()
                           and np.array_equal(np.asarray(mm.boundaries[nb_b]), np.asarray(m.boundary_facets())) and np.array_equal(mm.subdomains[ns_s], [0]))
                    ctx.fact("%s/%s%s" % (how, name, "" if ni == 0 else "/names%d" % ni), ctx.function(f_), bool(ok_),
                             "%s round trip changes the mesh or its tags (names %r, %r, %r; orientation flags incl.): got boundaries %s subdomains %s"
                             % (how, nb_i, nb_b, ns_s, sorted(mm.boundaries or {}), sorted(mm.subdomains or {})),
                             clause="round trip keeps p, t, every tag NAME (also names containing the key prefixes b_, s_, o_), tagged sets and orientation flags",
                             backend="path-execution", replay=dict(kind="io_codec"))
    del fe


UNITS["codec/two-cells"] = codec


def tables(ctx):
    import ast
    import os
    import types
    import skfem.mesh
    # meshio itself is not importable under the engine's interpreter: execute only the table assignments of the real source
    path = os.path.join(os.path.dirname(skfem.__file__), "io", "meshio.py")
    ns = dict(vars(skfem.mesh))
    want = {"MESH_TYPE_MAPPING", "BOUNDARY_TYPE_MAPPING", "TYPE_MESH_MAPPING", "HEX_MAPPING", "INV_HEX_MAPPING"}
    for node in ast.parse(open(path).read()).body:
        if isinstance(node, ast.Assign) and all(isinstance(t, ast.Name) and t.id in want for t in node.targets):
            exec(compile(ast.Module([node], []), path, "exec"), ns)
    IO = types.SimpleNamespace(**{k: ns[k] for k in want if k in ns})
    fn = "skfem/io/meshio.py::tables"
    ctx.fact("tables/present", fn, all(hasattr(IO, k) for k in want), "a format table is missing from skfem/io/meshio.py", backend="ast")
    H, I = IO.HEX_MAPPING, IO.INV_HEX_MAPPING
    ctx.fact("tables/hex-permutation", fn, sorted(H) == list(range(27)) and all(H[I[k]] == k and I[H[k]] == k for k in range(27)),
             "HEX_MAPPING / INV_HEX_MAPPING are not mutually inverse permutations of 0..26", backend="exhaustive-execution")
    ctx.fact("tables/hex-blocks", fn, sorted(H[:8]) == list(range(8)) and sorted(H[8:20]) == list(range(8, 20)) and sorted(H[20:26]) == list(range(20, 26)) and H[26] == 26,
             "the permutation must keep vertices, edge nodes, face nodes and the centre node in their blocks", backend="exhaustive-execution")
    ok = all(IO.MESH_TYPE_MAPPING[IO.TYPE_MESH_MAPPING[c]] is c for c in IO.TYPE_MESH_MAPPING) and set(IO.TYPE_MESH_MAPPING) == set(IO.MESH_TYPE_MAPPING.values())
    ctx.fact("tables/mesh-types", fn, ok, "MESH_TYPE_MAPPING and TYPE_MESH_MAPPING are not mutually inverse", backend="exhaustive-execution")
    ctx.fact("tables/boundary-types", fn, all(k in IO.MESH_TYPE_MAPPING for k in IO.BOUNDARY_TYPE_MAPPING), "boundary type table names unknown cell types",
             backend="exhaustive-execution")


UNITS["tables"] = tables


def standin_io(ctx):
    import time
    from skv import core
    t0 = time.time()
    r = core.run_native("standin_io.py", dict(seed=ctx.seed, tier=ctx.tier), timeout=3000)
    ctx.standin("save/load round trips through every format available offline (CLASS, P, T, NAMES, SUBS, FACETS, ORI, DATA, FRAME)", r["bound"], r["cases"],
                r["failures"], samples=r["samples"], time_s=time.time() - t0)


UNITS["standin/io"] = standin_io
HEAVY_FIRST = ["standin/io", "codec/two-cells"]
