"""C12 — uniform refinement preserves domain, conformity and named regions.

contract  <MeshCls>._uniform()  for MeshTri1, MeshQuad1, MeshTet1, MeshHex1 (and MeshLine1)
  TEMPLATE (Mode P; one generic cell with symbolic vertex coordinates run through the REAL _uniform):
            every child vertex is a convex combination of the parent's vertices with fixed rational weights (=> inside the parent),
            children's signed measures: triangle 1/4 each, tetrahedron 1/8 each on every diagonal-choice path, segments 1/2;
            quadrilateral/hexahedron: the children's measures add up to the parent's (polynomial identity) and are 1/4 resp. 1/8 each on
            parallelograms/parallelepipeds; new vertices are the means of the entity's vertices; old vertices keep index and position
  LAYOUT   (Mode I; nt, nverts symbolic): the children of cell k are the columns k + j*nt (j < 2^d) [segments: 2k, 2k+1] and use only
            vertices of cell k and new nodes of its own facets/edges/interior  => GENERIC-CHILD assumption of Mesh.refined holds
contract  Mesh.refined(k) driver: generic subdomain rule new = {ix + j*nt}; warnings when names are dropped    (symbolic execution)
bounded   COUNT, VALID, OLDVERTS, NONDEGEN, PARTITION, CONFORM, SUBDOMAIN, BOUNDARY, DROPPED, HISTORY on the mesh zoo with random tags (stand-in)
"""
from __future__ import annotations

LEVEL = "proof"
EXPLANATION = ("Refinement templates proved on a generic cell (all vertex coordinates) from the real _uniform methods; child layout proved for all "
               "mesh sizes; conformity across cells, tags on concrete meshes and multi-step histories decided by the bounded zoo stand-in.")
ASSUMPTIONS = [
    "distinct entities of a valid straight mesh have distinct midpoints (geometric fact under validity)",
    "ENT contract (C11) for t2f/t2e/facets/edges of the old and the new mesh",
    "conformity between neighbouring cells and tag propagation on whole meshes are bounded (zoo), not proved",
    "tetrahedral LAYOUT: np.nonzero is a function of the mask (all selections by one mask share one enumeration); counting lemma n1 + n2 + n3 == nt for "
    "pointwise exclusive and exhaustive masks (induction on nt, not mechanised; the pointwise part is obligation layout/tet/classes)",
]
TRUSTED = ["NumPy model skv/sarr.py; NumPy object arrays (Mode P)", "independent geometric oracles native/geom.py (stand-in)"]
UNITS = {}




def standin_uniform(ctx):
    import time
    from skv import core
    t0 = time.time()
    r = core.run_native("standin_refine.py", dict(seed=ctx.seed, tier=ctx.tier, what="uniform"), timeout=3000)
    ctx.standin("uniform refinement clauses on the mesh zoo with random subdomain/boundary tags", r["bound"], r["cases"], r["failures"], samples=r["samples"],
                time_s=time.time() - t0)


UNITS["standin/uniform"] = standin_uniform
HEAVY_FIRST = ["standin/uniform"]


# ---------------------------------------------------------------------------------------------------------------- templates
import itertools
from fractions import Fraction

import numpy as np


def _sat_disjoint(A, B):
    """exact separating-axis test for two convex polytopes given by vertex lists (Fractions): interiors disjoint?"""
    d = len(A[0])

    def sub(u, v):
        return [a - b for a, b in zip(u, v)]

    def dot(u, v):
        return sum(a * b for a, b in zip(u, v))

    def cross(u, v):
        return [u[1] * v[2] - u[2] * v[1], u[2] * v[0] - u[0] * v[2], u[0] * v[1] - u[1] * v[0]]

    def edges(P):
        return [sub(P[j], P[i]) for i in range(len(P)) for j in range(i + 1, len(P))]
    axes = []
    if d == 1:
        axes = [[Fraction(1)]]
    elif d == 2:
        for P in (A, B):
            for e in edges(P):
                axes.append([e[1], -e[0]])
    else:
        ea, eb = edges(A), edges(B)
        for P, E in ((A, ea), (B, eb)):
            for u, v in itertools.combinations(E, 2):
                axes.append(cross(u, v))
        for u in ea:
            for v in eb:
                axes.append(cross(u, v))
    for ax in axes:
        if all(c == 0 for c in ax):
            continue
        pa = [dot(ax, p) for p in A]
        pb = [dot(ax, p) for p in B]
        if max(pa) <= min(pb) or max(pb) <= min(pa):
            return True
    return False


TEMPLATE_CLASSES = {
    "line": ("MeshLine1", 1, 2, [[0.], [1.]]),
    "tri": ("MeshTri1", 2, 4, [[0., 0.], [1., 0.], [0., 1.]]),
    "quad": ("MeshQuad1", 2, 4, [[0., 0.], [1., 0.], [1., 1.], [0., 1.]]),
    "tet": ("MeshTet1", 3, 8, [[0., 0., 0.], [1., 0., 0.], [0., 1., 0.], [0., 0., 1.]]),
    "hex": ("MeshHex1", 3, 8, None),
}


def _concrete_cells(kind, rng):
    """concrete single cells (vertex coordinates) covering the branch cases of the template code."""
    import skfem.refdom as R
    ref = {"line": R.RefLine, "tri": R.RefTri, "quad": R.RefQuad, "tet": R.RefTet, "hex": R.RefHex}[kind].p.T.copy()
    out = [("reference", ref)]
    d = ref.shape[1]
    for k in range(5):
        A = np.eye(d) + .35 * rng.uniform(-1, 1, (d, d))
        out.append(("affine%d" % k, ref @ A.T + rng.uniform(-1, 1, d)))
    if kind == "tet":
        # stretch so that each of the three inner diagonals is the shortest in turn
        for k, s in enumerate(([3., 1., 1.], [1., 3., 1.], [.3, .3, 1.], [1., 1., .2], [2., .5, 1.])):
            out.append(("stretched%d" % k, ref * np.array(s)))
    return out


def template_unit(kind):
    def run(ctx):
        import skfem as fem
        from skv import pmode, poly, term as tm
        from skv.poly import Poly
        clsname, d, nchild, _ = TEMPLATE_CLASSES[kind]
        cls = getattr(fem.mesh, clsname) if hasattr(fem.mesh, clsname) else getattr(__import__("skfem.mesh", fromlist=[clsname]), clsname)
        fn = ctx.function(cls._uniform, cell=kind)
        rng = np.random.RandomState(5)
        templates = {}
        for label, P in _concrete_cells(kind, rng):
            nn = P.shape[0]
            m = cls(P.T.copy(), np.arange(nn, dtype=np.int64)[:, None], validate=False) if kind != "line" else cls(P.T.copy(), np.array([[0], [1]]))
            perm_back = None
            # the constructor may sort t; track which input vertex each mesh vertex is
            m2 = m._uniform()
            nv = m.p.shape[1]
            ok = m2.p.shape[1] >= nv and np.array_equal(m2.p[:, :nv], m.p)
            ctx.fact("template/%s/%s/old-vertices-kept" % (kind, label), fn, bool(ok), "old vertices must keep index and position", backend="path-execution")
            # weights of every vertex of the refined cell over the parent's local vertices, from the entity tables
            loc = {int(m.t[r, 0]): r for r in range(nn)}
            W = {}
            for v in range(nv):
                w = [Fraction(0)] * nn
                w[loc[v]] = Fraction(1)
                W[v] = tuple(w)
            tables = []
            if kind == "line":
                tables = [m.t]
            elif kind in ("tri",):
                tables = [m.facets]
            elif kind == "quad":
                tables = [m.facets, m.t]
            elif kind == "tet":
                tables = [m.edges]
            elif kind == "hex":
                tables = [m.edges, m.facets, m.t]
            off = nv
            okw = True
            for tab in tables:
                for e in range(tab.shape[1]):
                    w = [Fraction(0)] * nn
                    for v in tab[:, e]:
                        w[loc[int(v)]] += Fraction(1, tab.shape[0])
                    W[off + e] = tuple(w)
                    want = sum(float(w[r]) * m.p[:, m.t[r, 0]] for r in range(nn))
                    okw &= bool(np.allclose(m2.p[:, off + e], want, rtol=0, atol=1e-14))
                off += tab.shape[1]
            ctx.fact("template/%s/%s/new-vertices-are-entity-means" % (kind, label), fn, okw and off == m2.p.shape[1],
                     "new vertices are not (exactly) the means of the vertices of the parent's %s" % ("edges/facets/cell"),
                     clause="doflocs' = hstack(p, entity midpoints...) in entity order", backend="path-execution")
            if not (okw and off == m2.p.shape[1]):
                continue
            tpl = tuple(tuple(W[int(v)] for v in m2.t[:, k]) for k in range(m2.t.shape[1]))
            templates.setdefault(tpl, []).append(label)
            ctx.fact("template/%s/%s/count" % (kind, label), fn, m2.t.shape[1] == nchild, "%d children, expected %d" % (m2.t.shape[1], nchild),
                     clause="2^d children", backend="path-execution")
        ctx.fact("template/%s/branch-cases" % kind, fn, len(templates) == (3 if kind == "tet" else 1),
                 "%d distinct child templates over the sampled cells (index template must depend only on the diagonal case)" % len(templates),
                 backend="path-execution")
        # symbolic generic cell
        nn = {"line": 2, "tri": 3, "quad": 4, "tet": 4, "hex": 8}[kind]
        a = [[Poly.var("a%d_%d" % (i, c)) for c in range(d)] for i in range(nn)]

        def pt(w):
            return [sum((Poly.const(w[i]) * a[i][c] for i in range(nn)), Poly()) for c in range(d)]

        def meas(P):
            """signed measure polynomial of a simplex / shoelace quad / hex via 6 tets (exact for parallelepipeds and as polynomial identity otherwise)"""
            if kind == "line":
                return P[1][0] - P[0][0]
            if kind == "tri":
                return (P[1][0] - P[0][0]) * (P[2][1] - P[0][1]) - (P[1][1] - P[0][1]) * (P[2][0] - P[0][0])
            if kind == "quad":
                s = Poly()
                for i in range(4):
                    j = (i + 1) % 4
                    s = s + P[i][0] * P[j][1] - P[j][0] * P[i][1]
                return s
            if kind == "tet":
                u, v, w = [[P[i][c] - P[0][c] for c in range(3)] for i in (1, 2, 3)]
                return (u[0] * (v[1] * w[2] - v[2] * w[1]) - u[1] * (v[0] * w[2] - v[2] * w[0]) + u[2] * (v[0] * w[1] - v[1] * w[0]))
            return None
        import skfem.refdom as R
        ref = {"line": R.RefLine, "tri": R.RefTri, "quad": R.RefQuad, "tet": R.RefTet, "hex": R.RefHex}[kind].p.T
        refF = [[Fraction(float(x)).limit_denominator(4) for x in row] for row in ref]
        for ti, (tpl, labels) in enumerate(sorted(templates.items(), key=lambda kv: kv[1][0])):
            tag = "template/%s/case%d" % (kind, ti)
            parent = [a[i] for i in range(nn)]
            ok_conv = all(all(x >= 0 for x in w) and sum(w) == 1 for child in tpl for w in child)
            ctx.fact(tag + "/convex-combinations", fn, ok_conv, "a child vertex is not a convex combination of the parent's vertices",
                     clause="every child vertex = sum_i w_i a_i with rational w_i >= 0, sum w_i = 1 (=> children lie inside a convex parent); cells %s" % labels[:3])
            if kind != "hex":
                Mp = meas(parent)
                tot = Poly()
                for ci, child in enumerate(tpl):
                    Mc = meas([pt(w) for w in child])
                    tot = tot + Mc if kind in ("line", "quad") or True else tot
                    if kind in ("line", "tri", "tet"):
                        frac = Fraction(1, nchild)
                        # simplices: |child| = |parent|/2^d for ALL vertex coordinates (sign may flip with the local order)
                        okm = (Mc == Mp * Poly.const(frac)) or (Mc == Mp * Poly.const(-frac))
                        goal_t = tm.or_(tm.eq(poly.poly_to_term(Mc), poly.poly_to_term(Mp * Poly.const(frac))),
                                        tm.eq(poly.poly_to_term(Mc), poly.poly_to_term(Mp * Poly.const(-frac))))
                        ctx.prove(tag + "/child%d/measure" % ci, fn, goal_t, clause="signed measure(child %d) == +-measure(parent)/%d for all vertex coordinates" % (ci, nchild))
                        del okm
                if kind == "quad":
                    ctx.prove(tag + "/measures-add-up", fn, tm.eq(poly.poly_to_term(tot), poly.poly_to_term(Mp)),
                              clause="sum of the children's shoelace areas == parent's, for all (also non-convex) vertex coordinates")
            # tiling of the reference cell (exact rationals): pairwise interior-disjoint + volumes add up
            refchildren = [[[sum(w[i] * refF[i][c] for i in range(nn)) for c in range(d)] for w in child] for child in tpl]
            bad = [(i, j) for i, j in itertools.combinations(range(len(refchildren)), 2) if not _sat_disjoint(refchildren[i], refchildren[j])]
            ctx.fact(tag + "/reference-children-interior-disjoint", fn, not bad, "children %s overlap in the reference cell" % bad[:3],
                     clause="children of the reference cell are pairwise interior-disjoint (exact separating-axis test)")
            # reference volumes
            def refvol(C):
                if kind == "line":
                    return abs(C[1][0] - C[0][0])
                if kind == "tri":
                    return abs((C[1][0] - C[0][0]) * (C[2][1] - C[0][1]) - (C[1][1] - C[0][1]) * (C[2][0] - C[0][0])) / 2
                if kind == "quad":
                    return abs(sum(C[i][0] * C[(i + 1) % 4][1] - C[(i + 1) % 4][0] * C[i][1] for i in range(4))) / 2
                if kind == "tet":
                    u, v, w = [[C[i][c] - C[0][c] for c in range(3)] for i in (1, 2, 3)]
                    return abs(u[0] * (v[1] * w[2] - v[2] * w[1]) - u[1] * (v[0] * w[2] - v[2] * w[0]) + u[2] * (v[0] * w[1] - v[1] * w[0])) / 6
                lo = [min(p[c] for p in C) for c in range(3)]
                hi = [max(p[c] for p in C) for c in range(3)]
                return (hi[0] - lo[0]) * (hi[1] - lo[1]) * (hi[2] - lo[2])     # reference children of the cube are boxes (checked below)
            vols = [refvol(C) for C in refchildren]
            total = {"line": Fraction(1), "tri": Fraction(1, 2), "quad": Fraction(1), "tet": Fraction(1, 6), "hex": Fraction(1)}[kind]
            if kind == "hex":
                boxes = all(len({tuple(p) for p in C}) == 8 and all(p[c] in (min(q[c] for q in C), max(q[c] for q in C)) for p in C for c in range(3)) for C in refchildren)
                ctx.fact(tag + "/reference-children-are-boxes", fn, boxes, "a child of the reference cube is not an axis-parallel box")
            ctx.fact(tag + "/reference-volumes", fn, sum(vols) == total and all(v == total / nchild for v in vols),
                     "reference child volumes %s" % [str(v) for v in vols], clause="each child of the reference cell has volume |K|/2^d; they add up to |K|")
            if kind in ("quad", "hex"):
                # children are the multilinear sub-cells: child vertex weights = multilinear shape functions at the sub-cell corners
                ctx.assume("multilinear cells: a child whose vertices are the images of the corners of a reference sub-box is the restriction of the "
                           "parent's map (paper lemma), so the reference tiling carries over to every injective parent map")
    return run


for _k in TEMPLATE_CLASSES:
    UNITS["template/" + _k] = template_unit(_k)


def layout_unit(kind):
    """LAYOUT (Mode I; nt, nverts, nfacets, nedges symbolic): the real _uniform run on symbolic connectivity tables.
      LOCAL     every entry of the children k + j*nt of cell k is a vertex of cell k, the new node of one of ITS facets / edges, or ITS centre node
      OLDVERT   child j contains the parent's vertex j; old vertices keep number and position
      NEWNODE   node nverts + f is the mean of the vertices of facet f (3-D: nverts + e for edges, then facets, then cells): the numbers used in t are the columns of doflocs
    requires the ENT contract of C11 for the tables (ranges, every facet/edge number occurs)"""
    def run(ctx):
        import importlib
        from skv import sarr
        from skv import term as tm
        from skv.sarr import SArr
        mod = importlib.import_module({"tri": "skfem.mesh.mesh_tri_1", "quad": "skfem.mesh.mesh_quad_1", "hex": "skfem.mesh.mesh_hex_1"}[kind])
        cls = getattr(mod, {"tri": "MeshTri1", "quad": "MeshQuad1", "hex": "MeshHex1"}[kind])
        fn = ctx.function(cls._uniform)
        dim, nn, nfc, nvf, nec = {"tri": (2, 3, 3, 2, 0), "quad": (2, 4, 4, 2, 0), "hex": (3, 8, 6, 4, 12)}[kind]
        nch = 2 ** dim
        C = tm.const
        with sarr.index_context() as c:
            nt, nv, nf, ne = c.size("nt", 1), c.size("nv", 1), c.size("nf", 1), c.size("ne", 1)

            class Self:
                pass
            me = Self()
            me.doflocs = SArr.input("p", (dim, nv), tm.REAL)
            me.t = SArr.input("t", (nn, nt), lo=0, hi=nv)
            me.t2f = SArr.input("t2f", (nfc, nt), lo=0, hi=nf)
            me.facets = SArr.input("facets", (nvf, nf), lo=0, hi=nv)
            if nec:
                me.t2e = SArr.input("t2e", (nec, nt), lo=0, hi=ne)
                me.edges = SArr.input("edges", (2, ne), lo=0, hi=nv)
            me._boundaries = me._subdomains = None
            # ENT ONTO: the largest facet / edge number occurs
            so, ko = c.skolem("so", 0, C(nfc)), c.skolem("ko", 0, nt.t)
            c.add(tm.eq(me.t2f.get((so.t, ko.t)), tm.sub(nf.t, C(1))))
            if nec:
                se, ke = c.skolem("se", 0, C(nec)), c.skolem("ke", 0, nt.t)
                c.add(tm.eq(me.t2e.get((se.t, ke.t)), tm.sub(ne.t, C(1))))
            rec = {}

            def replace(obj, **kw):
                rec.update(kw)
                return "refined"
            with sarr.mode_i([mod], extra_globals=dict(replace=replace)):
                cls._uniform(me)
            t2, p2 = rec["t"], rec["doflocs"]
            pre = "layout/%s" % kind
            off_f = tm.add(nv.t, ne.t) if nec else nv.t            # number of the first facet node
            off_c = tm.add(off_f, nf.t)                              # number of the first cell-centre node (quad, hex)
            ntot = tm.add(off_c, nt.t) if kind != "tri" else off_c
            ctx.prove(pre + "/shapes", fn, tm.and_(tm.eq(sarr._t(t2.shape[0]), C(nn)), tm.eq(sarr._t(t2.shape[1]), tm.mul(C(nch), nt.t)), tm.eq(sarr._t(p2.shape[0]), C(dim)),
                                                  tm.eq(sarr._t(p2.shape[1]), ntot)), hyps=c.all_hyps(),
                      clause="t.shape == (%d, %d*nt), doflocs.shape == (%d, nverts %s+ nfacets%s)" % (nn, nch, dim, "+ nedges " if nec else "", "" if kind == "tri" else " + nt"))
            k = c.skolem("k", 0, nt.t)
            for j in range(nch):
                col = tm.add(tm.mul(C(j), nt.t), k.t)
                ents = [t2.get((C(r), col)) for r in range(nn)]
                cands = [me.t.get((C(a), k.t)) for a in range(nn)] + [tm.add(off_f, me.t2f.get((C(b), k.t))) for b in range(nfc)]
                if nec:
                    cands += [tm.add(nv.t, me.t2e.get((C(b), k.t))) for b in range(nec)]
                if kind != "tri":
                    cands.append(tm.add(off_c, k.t))
                hy = c.all_hyps()
                ctx.prove("%s/child%d/local" % (pre, j), fn, tm.and_(*[tm.or_(*[tm.eq(e, cd) for cd in cands]) for e in ents]), hyps=hy,
                          clause="every vertex of child %d of cell k (column %d*nt + k) is a vertex of cell k, the new node of one of its facets%s%s" % (j, j, "/edges" if nec else "", "" if kind == "tri" else " or its centre node"))
                if j < nn:
                    ctx.prove("%s/child%d/oldvertex" % (pre, j), fn, tm.or_(*[tm.eq(e, me.t.get((C(j), k.t))) for e in ents]), hyps=hy, clause="child %d contains the parent's vertex %d" % (j, j))
            v, f, i_ = c.skolem("v", 0, nv.t), c.skolem("f", 0, nf.t), c.skolem("i", 0, C(dim))
            hy = c.all_hyps()
            ctx.prove(pre + "/oldverts", fn, tm.eq(p2.get((i_.t, v.t)), me.doflocs.get((i_.t, v.t))), hyps=hy, clause="doflocs'[:, v] == p[:, v] for v < nverts")
            mean = lambda tab, col, n: tm.div(_sumt([me.doflocs.get((i_.t, tab.get((C(a), col)))) for a in range(n)]), tm.const(Fraction(n), tm.REAL))
            ctx.prove(pre + "/newnode/facet", fn, tm.eq(p2.get((i_.t, tm.add(off_f, f.t))), mean(me.facets, f.t, nvf)), hyps=hy,
                      clause="doflocs'[:, first facet node + f] == mean of the vertices of facet f")
            if nec:
                e_ = c.skolem("e", 0, ne.t)
                ctx.prove(pre + "/newnode/edge", fn, tm.eq(p2.get((i_.t, tm.add(nv.t, e_.t))), mean(me.edges, e_.t, 2)), hyps=c.all_hyps(), clause="doflocs'[:, nverts + e] == midpoint of edge e")
            if kind != "tri":
                ctx.prove(pre + "/newnode/centre", fn, tm.eq(p2.get((i_.t, tm.add(off_c, k.t))), mean(me.t, k.t, nn)), hyps=c.all_hyps(), clause="doflocs'[:, first centre node + k] == mean of the vertices of cell k")
    return run


def _sumt(ts):
    from skv import term as tm
    out = ts[0]
    for t_ in ts[1:]:
        out = tm.add(out, t_)
    return out


for _k in ("tri", "quad", "hex"):
    UNITS["layout/%s" % _k] = layout_unit(_k)


def layout_tet(ctx):
    """LAYOUT for tetrahedra (Mode I; nt, nverts, nedges symbolic).  The four corner children of cell k are the columns k + j*nt (j < 4).  The four inner
    children depend on the diagonal class of the cell (three boolean masks computed from the coordinates); np.nonzero of a mask is a function of the
    mask, so all blocks selected by one mask share one ascending enumeration f_c and its rank function.
      CLASSES   for every cell exactly one of the three masks holds (ordering of three real numbers; the coordinates stay symbolic)
      LOCAL     corner child j of cell k: the parent's vertex j and midpoints of edges OF CELL k only;
                inner child g of a cell k of class c sits in column 4nt + g*(n1+n2+n3) + offset_c + rank_c(k) and uses midpoints of edges of cell k only
      NEWNODE   node nverts + e is the midpoint of edge e; old vertices keep number and position
      SHAPES    8nt columns, given the counting lemma n1 + n2 + n3 == nt for pointwise exclusive and exhaustive masks (assumption, induction on nt)"""
    import skfem.mesh.mesh_tet_1 as mod
    from skv import core, sarr
    from skv import term as tm
    from skv.sarr import SArr
    cls = mod.MeshTet1
    fn = ctx.function(cls._uniform)
    C = tm.const
    budget = [0]

    def prove(oid, fn_, goal, **kw):
        # solver budget under mutation: after two undecided obligations the rest of the unit is reported undecided without calling the solvers
        if budget[0] >= 2:
            return ctx.unsupported(oid, fn_, "skipped after two undecided obligations of this unit (solver budget)")
        r_ = ctx.prove(oid, fn_, goal, **kw)
        if r_["status"] not in (core.DISCHARGED, core.REFUTED):
            budget[0] += 1
        return r_
    with sarr.index_context() as c:
        nt, nv, ne = c.size("nt", 1), c.size("nv", 1), c.size("ne", 1)

        class Self:
            pass
        me = Self()
        me.doflocs = me.p = SArr.input("p", (3, nv), tm.REAL)
        me.t = SArr.input("t", (4, nt), lo=0, hi=nv)
        me.t2e = SArr.input("t2e", (6, nt), lo=0, hi=ne)
        me.edges = SArr.input("edges", (2, ne), lo=0, hi=nv)
        me._boundaries = me._subdomains = None
        rec = {}

        def replace(obj, **kw):
            rec.update(kw)
            return "refined"
        with sarr.mode_i([mod], extra_globals=dict(replace=replace)):
            cls._uniform(me)
        t2, p2 = rec["t"], rec["doflocs"]
        masks = [o for o, _ in c.nz_cache.values()]
        if len(masks) != 3:
            ctx.unsupported("layout/tet", fn, "expected three diagonal-class masks, the run used %d boolean selections" % len(masks))
            return
        cnt = [sarr._t(m.shape[0]) for m in masks]
        truth = [lambda i, m=m: m.nonzero_of[0]._get((i,)) for m in masks]
        rank = [lambda i, m=m: tm.app(m.nonzero_of[1], tm.INT, i) for m in masks]
        k = c.skolem("k", 0, nt.t)
        hy = c.all_hyps()
        tk = [tr(k.t) for tr in truth]
        # an ordering fact about three real numbers: only the ground hypotheses are needed, so a counterexample is a model of the real arithmetic
        prove("layout/tet/classes", fn, tm.and_(tm.or_(*tk), *[tm.not_(tm.and_(tk[a], tk[b])) for a in range(3) for b in range(a + 1, 3)]),
                  hyps=[h for h in hy if "forall" not in tm.show(h, 10 ** 6)], clause="every cell is in exactly one diagonal class")
        ctx.assume("counting lemma: boolean masks that are pointwise exclusive and exhaustive on [0, nt) (obligation layout/tet/classes) have counts adding up to nt "
                   "(induction on nt, not mechanised)")
        nsum = tm.add(tm.add(cnt[0], cnt[1]), cnt[2])
        lem = tm.eq(nsum, nt.t)
        prove("layout/tet/shapes", fn, tm.and_(tm.eq(sarr._t(t2.shape[0]), C(4)), tm.eq(sarr._t(t2.shape[1]), tm.mul(C(8), nt.t)), tm.eq(sarr._t(p2.shape[0]), C(3)),
                                                   tm.eq(sarr._t(p2.shape[1]), tm.add(nv.t, ne.t))), hyps=hy + [lem], clause="t.shape == (4, 8nt), doflocs.shape == (3, nverts + nedges)")
        mids = [tm.add(nv.t, me.t2e.get((C(b), k.t))) for b in range(6)]
        for j in range(4):
            col = tm.add(tm.mul(C(j), nt.t), k.t)
            ents = [t2.get((C(r), col)) for r in range(4)]
            prove("layout/tet/corner%d/local" % j, fn, tm.and_(tm.eq(ents[0], me.t.get((C(j), k.t))), *[tm.or_(*[tm.eq(e, m_) for m_ in mids]) for e in ents[1:]]), hyps=hy,
                      clause="corner child %d of cell k (column %d*nt + k) = the parent's vertex %d and three midpoints of edges of cell k" % (j, j, j))
        off = [C(0), cnt[0], tm.add(cnt[0], cnt[1])]
        for cl in range(3):
            hyc = hy + [tk[cl]]
            for g in range(4):
                col = tm.add(tm.add(tm.mul(C(4), nt.t), tm.mul(C(g), nsum)), tm.add(off[cl], rank[cl](k.t)))
                ents = [t2.get((C(r), col)) for r in range(4)]
                prove("layout/tet/inner%d/class%d/local" % (g, cl), fn,
                          tm.and_(tm.le(tm.mul(C(4), nt.t), col), tm.lt(col, sarr._t(t2.shape[1])), *[tm.or_(*[tm.eq(e, m_) for m_ in mids]) for e in ents]),
                          hyps=hyc, clause="inner child %d of a cell k of class %d (column 4nt + %d*(n1+n2+n3) + offset + rank(k)) uses midpoints of edges of cell k only" % (g, cl, g))
        v, e_, i_ = c.skolem("v", 0, nv.t), c.skolem("e", 0, ne.t), c.skolem("i", 0, C(3))
        hy = c.all_hyps()
        prove("layout/tet/oldverts", fn, tm.eq(p2.get((i_.t, v.t)), me.doflocs.get((i_.t, v.t))), hyps=hy, clause="doflocs'[:, v] == p[:, v] for v < nverts")
        mid = tm.div(tm.add(me.doflocs.get((i_.t, me.edges.get((C(0), e_.t)))), me.doflocs.get((i_.t, me.edges.get((C(1), e_.t))))), tm.const(Fraction(2), tm.REAL))
        prove("layout/tet/newnode/edge", fn, tm.eq(p2.get((i_.t, tm.add(nv.t, e_.t))), mid), hyps=hy, clause="doflocs'[:, nverts + e] == midpoint of edge e")


UNITS["layout/tet"] = layout_tet
