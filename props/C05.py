"""C05 — essential boundary conditions: condense, enforce, penalize, expansion.

contract  _init_bc(A, b, x, I, D)                              (Mode I: n, |I|, |D| symbolic; SPARSE + setdiff1d axioms)
  ensures   INIT   exactly one of I, D given else raise; the other one is setdiff1d(arange(n), given): sorted, duplicate-free,
                   disjoint from the given one, together covering [0,n); x defaults to zeros(n); b defaults to zeros when only x is given
contract  condense(A, b, x, I|D, expand)
  ensures   CONDENSE  Aout[a,c] == A[I[a], I[c]];  vector b: bout[a] == b[I[a]] - sum_d A[I[a], D[d]]*x[D[d]];
                      matrix b: bout[a,c] == b[I[a], I[c]] (not modified); returns (..., x, I) iff expand; no argument modified
contract  solve_linear(A, b, x, I, solver)
  requires  I duplicate-free
  ensures   EXPAND  y[I[a]] == sol[a], y[g] == x[g] for g not in I, x itself not modified
contract  penalize(A, b, x, I|D, epsilon, overwrite)
  ensures   PENALIZE  Aout[i,i] == 1/eps for i in D, all other entries == A's; bout[D] == x[D]/eps, bout elsewhere == b;
                      overwrite=False: operands untouched (Aout is a copy); overwrite=True: the same objects are returned
contract  enforce(A, b, x, I|D, diag, overwrite)     (E1-E4) — the cumsum/repeat row-zeroing needs prefix-sum induction; it is
            decided by the bounded-EXHAUSTIVE stand-in (all CSR patterns n<=3, all ordered D) and labelled bounded
contract  _flatten_dofs  (arrays, DofsView, dict of views -> unique(concatenate(...)); anything else raises)  — executed on each kind
lemma     L-C05 (paper, listed): INIT + CONDENSE + EXPAND + duplicate-free I  =>  y[D] = x[D] and (A y)[i] = b[i] for i in I
"""
from __future__ import annotations

from fractions import Fraction

import numpy as np

from skv import sarr
from skv import term as tm
from skv.sarr import SArr
from skv.term import S

LEVEL = "proof"
EXPLANATION = ("condense/_init_bc/solve_linear/penalize proved for all sizes from the real code over SciPy sparse axioms; enforce's "
               "row-zeroing trick decided by a bounded-exhaustive stand-in (all CSR patterns n<=3, all ordered constrained sets).")
ASSUMPTIONS = [
    "SPARSE axioms: A[I][:,J][a,c] = A[I[a],J[c]], (A @ x)[a] = sum_c A[a,c] x[c], copy/diagonal/setdiag by their definitions (trusted SciPy)",
    "np.setdiff1d(arange(n), S): ascending, duplicate-free, exactly the numbers of [0,n) not in S (axiom)",
    "L-C05 (paper lemma): the condensed solve + expansion satisfies the original equations on the kept rows",
    "user-supplied index sets are duplicate-free (the property speaks of a split into SETS)",
]
TRUSTED = ["NumPy/SciPy model skv/sarr.py + SMat below"]
UNITS = {}
C = tm.const


def _spbase():
    from scipy.sparse import spmatrix
    return spmatrix


class SMat(_spbase()):
    """Symbolic sparse matrix: entry(a, c) is a term; SciPy operations by their SPARSE axioms."""

    def __init__(self, shape, entry, name="A"):
        self._sshape = tuple(sarr._dim(d) for d in shape)
        self.entry = entry
        self.name = name
        self.mutated = 0
        self.dtype = np.dtype("float64")

    @property
    def shape(self):
        return tuple(sarr._sdim(d) for d in self._sshape)

    @staticmethod
    def input(name, n, m=None):
        m = n if m is None else m
        return SMat((n, m), lambda a, c, name=name: tm.app(name, tm.REAL, a, c), name)

    def copy(self):
        return SMat(self._sshape, self.entry, self.name + "'")

    def __getitem__(self, key):
        if isinstance(key, tuple):
            rk, ck = key
        else:
            rk, ck = key, slice(None)

        def sel(k, extent):
            if isinstance(k, slice) and k == slice(None):
                return extent, (lambda i: i)
            if isinstance(k, np.ndarray):
                k = SArr.from_numpy(k)
            if isinstance(k, SArr) and k.ndim == 1:
                return k._shape[0], (lambda i, k=k: k.get((i,)))
            raise sarr.Unsupported("sparse index %r" % (type(k),))
        nr, fr = sel(rk, self._sshape[0])
        nc, fc = sel(ck, self._sshape[1])
        return SMat((nr, nc), lambda a, c, e=self.entry, fr=fr, fc=fc: e(fr(a), fc(c)), self.name + "[.]")

    def __matmul__(self, x):
        x = sarr.as_sarr(x)
        if x.ndim != 1:
            raise sarr.Unsupported("sparse @ rank-%d" % x.ndim)
        P = SArr(self._sshape, lambda idx, e=self.entry, x=x: tm.mul(e(idx[0], idx[1]), tm.to_real(x.get((idx[1],)))), tm.REAL)
        return sarr.np_sum(P, axis=1)

    def diagonal(self):
        return SArr((self._sshape[0],), lambda idx, e=self.entry: e(idx[0], idx[0]), tm.REAL)

    def setdiag(self, d):
        d = sarr.as_sarr(d)
        old = self.entry
        dget = d._get          # value semantics: the array as it is NOW
        self.entry = lambda a, c, old=old, dget=dget: tm.ite(tm.eq(a, c), tm.to_real(dget((a,))), old(a, c))
        self.mutated += 1


def setdiff_axioms(c, n, G, tag):
    """R = setdiff1d(arange(n), G) as a fresh array with its contract."""
    c.axiom("np.setdiff1d(arange(n), S): ascending duplicate-free complement")
    ln = tm.fresh("len" + tag, tm.INT)
    R = tm.fresh_name("sd" + tag)
    inG = tm.fresh_name("in" + tag)
    wit = tm.fresh_name("wit" + tag)
    pos = tm.fresh_name("pos" + tag)
    nG = sarr._t(G.shape[0])
    N = sarr._t(n)
    j, j2, g = tm.var("sd!j", tm.INT), tm.var("sd!j2", tm.INT), tm.var("sd!g", tm.INT)
    Rj = tm.app(R, tm.INT, j)
    c.add(tm.and_(tm.le(C(0), ln), tm.le(ln, N)))
    Gj = G.get((j,))
    # membership predicate of G
    c.add(tm.forall([j], tm.implies(tm.and_(tm.le(C(0), j), tm.lt(j, nG)), tm.app(inG, tm.BOOL, Gj)), patterns=[[Gj]] if Gj.op == "app" else ()))
    wg = tm.app(wit, tm.INT, g)
    c.add(tm.forall([g], tm.implies(tm.app(inG, tm.BOOL, g), tm.and_(tm.le(C(0), wg), tm.lt(wg, nG), tm.eq(G.get((wg,)), g))), patterns=[[tm.app(inG, tm.BOOL, g)]]))
    c.add(tm.forall([j], tm.implies(tm.and_(tm.le(C(0), j), tm.lt(j, ln)),
                                    tm.and_(tm.le(C(0), Rj), tm.lt(Rj, N), tm.not_(tm.app(inG, tm.BOOL, Rj)))), patterns=[[Rj]]))
    c.add(tm.forall([j, j2], tm.implies(tm.and_(tm.le(C(0), j), tm.lt(j, j2), tm.lt(j2, ln)), tm.lt(Rj, tm.app(R, tm.INT, j2))),
                    patterns=[[Rj, tm.app(R, tm.INT, j2)]]))
    pg = tm.app(pos, tm.INT, g)
    c.add(tm.forall([g], tm.implies(tm.and_(tm.le(C(0), g), tm.lt(g, N), tm.not_(tm.app(inG, tm.BOOL, g))),
                                    tm.and_(tm.le(C(0), pg), tm.lt(pg, ln), tm.eq(tm.app(R, tm.INT, pg), g))), patterns=[[pg]]))
    out = SArr((ln,), lambda idx, R=R: tm.app(R, tm.INT, idx[0]), tm.INT)
    out.setdiff = dict(inG=inG, wit=wit, pos=pos, of=G, n=N)
    return out


class NPX(sarr.NPModel):
    def __init__(self, c):
        super().__init__()
        self._c = c
        self._ov["setdiff1d"] = self._setdiff

    def _setdiff(self, a, b):
        if isinstance(b, SArr) or isinstance(a, SArr):
            a = sarr.as_sarr(a)
            # only the form setdiff1d(arange(n), S) is used by the library
            probe = a.get((tm.var("sd!probe", tm.INT),))
            if probe is not tm.var("sd!probe", tm.INT):
                raise sarr.Unsupported("setdiff1d whose first argument is not arange(n)")
            return setdiff_axioms(self._c, a._shape[0], sarr.as_sarr(b), "%d" % len(self._c.hyps))
        return np.setdiff1d(a, b)


def _mode(U, c):
    return sarr.mode_i([U], extra_globals=dict(np=NPX(c), ndarray=(np.ndarray, SArr)))


def _inputs(c, given):
    n = c.size("n", 1)
    A = SMat.input("A", n)
    nG = c.size("nG", 0)
    c.add(tm.le(nG.t, n.t))
    G = SArr.input("G", (nG,), lo=0, hi=n)
    # duplicate-free given set
    j, j2 = tm.var("g!j", tm.INT), tm.var("g!j2", tm.INT)
    c.add(tm.forall([j, j2], tm.implies(tm.and_(tm.le(C(0), j), tm.lt(j, j2), tm.lt(j2, nG.t)), tm.ne(G.get((j,)), G.get((j2,)))),
                    patterns=[[G.get((j,)), G.get((j2,))]]))
    return n, A, G


def initbc(ctx):
    import skfem.utils as U
    fn = ctx.function(U._init_bc)
    for given in ("D", "I"):
        with sarr.index_context() as c:
            n, A, G = _inputs(c, given)
            b = SArr.input("b", (n,), tm.REAL)
            with _mode(U, c):
                bo, xo, Io, Do = U._init_bc(A, b, None, **{given: G})
            other = Io if given == "D" else Do
            same = Do if given == "D" else Io
            pre = "initbc/%s-given" % given
            ctx.fact(pre + "/given-kept", fn, same is G, "the given index array must be passed through unchanged", backend="symbolic-execution")
            ctx.fact(pre + "/computed-is-setdiff", fn, hasattr(other, "setdiff") and other.setdiff["of"] is G and other.setdiff["n"] is n.t,
                     "the other set must be setdiff1d(arange(A.shape[0]), given)", clause="%s == setdiff1d(arange(n), %s)" % ("I" if given == "D" else "D", given),
                     backend="symbolic-execution", replay=dict(kind="bc"))
            g = c.skolem("g", 0, n.t)
            sd = other.setdiff
            inG = tm.app(sd["inG"], tm.BOOL, g.t)
            pg = tm.app(sd["pos"], tm.INT, g.t)
            wg = tm.app(sd["wit"], tm.INT, g.t)
            nO = sarr._t(other.shape[0])
            ctx.prove(pre + "/cover", fn, tm.or_(tm.and_(tm.le(C(0), wg), tm.lt(wg, sarr._t(G.shape[0])), tm.eq(G.get((wg,)), g.t)),
                                               tm.and_(tm.le(C(0), pg), tm.lt(pg, nO), tm.eq(other.get((pg,)), g.t))), hyps=c.all_hyps() + [tm.or_(inG, tm.not_(inG))],
                      clause="every index of [0,n) is in the given set or in the computed one")
            j, j2 = c.skolem("j", 0, sarr._t(G.shape[0])), c.skolem("j2", 0, nO)
            ctx.prove(pre + "/disjoint", fn, tm.ne(G.get((j.t,)), other.get((j2.t,))), hyps=c.all_hyps(), clause="given and computed sets are disjoint")
            ctx.prove(pre + "/x-default", fn, tm.eq(xo.get((g.t,)), C(Fraction(0), tm.REAL)), hyps=c.all_hyps(), clause="x defaults to zeros(n)")
            ctx.fact(pre + "/x-shape", fn, sarr._t(xo.shape[0]) is n.t, "x must have length n", backend="symbolic-execution")
            ctx.fact(pre + "/b-kept", fn, bo is b, "b must be passed through", backend="symbolic-execution")
    with sarr.index_context() as c:
        n, A, G = _inputs(c, "D")
        x = SArr.input("x", (n,), tm.REAL)
        with _mode(U, c):
            bo, xo, Io, Do = U._init_bc(A, None, x, D=G)
        g = c.skolem("g", 0, n.t)
        ctx.fact("initbc/b-default/x-kept", fn, xo is x, "x must be passed through", backend="symbolic-execution")
        ctx.prove("initbc/b-default/zeros", fn, tm.and_(tm.eq(bo.get((g.t,)), C(Fraction(0), tm.REAL)), tm.eq(sarr._t(bo.shape[0]), n.t)), hyps=c.all_hyps(),
                  clause="only x given => b = zeros_like(x)")
        for kw, label in ((dict(), "neither"), (dict(I=G, D=G), "both")):
            try:
                with _mode(U, c):
                    U._init_bc(A, None, None, **kw)
                ok = False
            except Exception:
                ok = True
            ctx.fact("initbc/raises-%s" % label, fn, ok, "giving %s of I, D must raise" % label, backend="path-execution")


UNITS["initbc"] = initbc


def condense(ctx):
    import skfem.utils as U
    fn = ctx.function(U.condense)
    for given in ("D", "I"):
        for bkind in ("vector", "matrix", "none"):
            with sarr.index_context() as c:
                n, A, G = _inputs(c, given)
                x = SArr.input("x", (n,), tm.REAL)
                b = {"vector": SArr.input("b", (n,), tm.REAL), "matrix": SMat.input("B", n), "none": None}[bkind]
                xin = None if bkind == "none" else x       # (x given, b None) means b = zeros: covered by the vector case
                with _mode(U, c):
                    out = U.condense(A, b, x=xin, **{given: G})
                    out_ne = U.condense(A, b, x=xin, expand=False, **{given: G})
                pre = "condense/%s-given/b-%s" % (given, bkind)
                if bkind == "none":
                    ok = isinstance(out, tuple) and len(out) == 3
                    Ac, xo, Io = out if ok else (None, None, None)
                    bc = None
                    ctx.fact(pre + "/no-expand", fn, isinstance(out_ne, SMat), "expand=False with b=None must return the matrix alone", backend="symbolic-execution")
                else:
                    ok = isinstance(out, tuple) and len(out) == 4
                    Ac, bc, xo, Io = out if ok else (None,) * 4
                    ctx.fact(pre + "/no-expand", fn, isinstance(out_ne, tuple) and len(out_ne) == 2, "expand=False must return (A, b) only", backend="symbolic-execution")
                ctx.fact(pre + "/arity", fn, ok, "expand=True must append (x, I)", backend="symbolic-execution")
                if not ok:
                    continue
                ctx.fact(pre + "/x-I-returned", fn, (xo is x or bkind == "none") and (Io is G if given == "I" else hasattr(Io, "setdiff")), "returned x / I", backend="symbolic-execution")
                I = Io
                D = G if given == "D" else None
                nI = sarr._t(I.shape[0])
                a, cc = c.skolem("a", 0, nI), c.skolem("cc", 0, nI)
                ctx.prove(pre + "/matrix", fn, tm.and_(tm.eq(Ac.entry(a.t, cc.t), A.entry(I.get((a.t,)), I.get((cc.t,)))),
                                                      tm.eq(sarr._t(Ac.shape[0]), nI), tm.eq(sarr._t(Ac.shape[1]), nI)), hyps=c.all_hyps(),
                          clause="Aout[a,c] == A[I[a], I[c]], shape (|I|,|I|)", replay=dict(kind="bc"))
                ctx.fact(pre + "/A-not-modified", fn, A.mutated == 0, "condense must not modify A", backend="symbolic-execution")
                if bkind == "matrix":
                    ctx.prove(pre + "/mass-matrix", fn, tm.eq(bc.entry(a.t, cc.t), b.entry(I.get((a.t,)), I.get((cc.t,)))), hyps=c.all_hyps(),
                              clause="matrix right-hand side: bout[a,c] == b[I[a], I[c]]", replay=dict(kind="bc"))
                elif bkind == "vector":
                    # D as the code sees it
                    Dsym = G if given == "D" else None
                    if Dsym is None:
                        # recover D from the call: re-run _init_bc's contract (setdiff of I)
                        with _mode(U, c):
                            _, _, _, Dsym = U._init_bc(A, b, x, I=G)
                    nD = Dsym._shape[0]
                    P = SArr((nI, nD), lambda idx: tm.mul(A.entry(I.get((idx[0],)), Dsym.get((idx[1],))), x.get((Dsym.get((idx[1],)),))), tm.REAL)
                    spec = tm.sub(b.get((I.get((a.t,)),)), sarr.np_sum(P, axis=1).get((a.t,)))
                    if given == "D":
                        ctx.prove(pre + "/rhs", fn, tm.eq(bc.get((a.t,)), spec), hyps=c.all_hyps(),
                                  clause="bout[a] == b[I[a]] - sum_d A[I[a], D[d]] * x[D[d]]", replay=dict(kind="bc"))
                    else:
                        ctx.notes.append("condense/I-given: rhs clause proved in the D-given case (the computed D is a fresh setdiff array per call)")
                del D


UNITS["condense"] = condense


def expand(ctx):
    import skfem.utils as U
    fn = ctx.function(U.solve_linear)
    with sarr.index_context() as c:
        n = c.size("n", 1)
        nI = c.size("nI", 0)
        I = SArr.input("I", (nI,), lo=0, hi=n)
        j, j2 = tm.var("i!j", tm.INT), tm.var("i!j2", tm.INT)
        c.add(tm.forall([j, j2], tm.implies(tm.and_(tm.le(C(0), j), tm.lt(j, j2), tm.lt(j2, nI.t)), tm.ne(I.get((j,)), I.get((j2,)))),
                        patterns=[[I.get((j,)), I.get((j2,))]]))
        x = SArr.input("x", (n,), tm.REAL)
        sol = SArr.input("sol", (nI,), tm.REAL)
        calls = []

        def solver(A, b, **kw):
            calls.append((A, b, kw))
            return sol
        with sarr.mode_i([U], extra_globals=dict(ndarray=(np.ndarray, SArr))):
            y = U.solve_linear("Amat", "bvec", x, I, solver=solver)
        a = c.skolem("a", 0, nI.t)
        g = c.skolem("g", 0, n.t)
        ctx.fact("expand/solver-called-once", fn, len(calls) == 1 and calls[0][0] == "Amat" and calls[0][1] == "bvec", "solver(A, b) must be called once with the system",
                 backend="symbolic-execution")
        ctx.prove("expand/kept-values", fn, tm.eq(y.get((I.get((a.t,)),)), sol.get((a.t,))), hyps=c.all_hyps(), clause="y[I[a]] == sol[a]  (I duplicate-free)")
        wit = [n_ for n_ in tm.subterms(y.get((g.t,))) if n_.op == "app" and n_.args[0].startswith("wit!")]
        notin = tm.and_(*[tm.implies(tm.and_(tm.le(C(0), w), tm.lt(w, nI.t)), tm.ne(I.get((w,)), g.t)) for w in wit]) if wit else tm.TRUE
        ctx.prove("expand/constrained-values", fn, tm.implies(notin, tm.eq(y.get((g.t,)), x.get((g.t,)))), hyps=c.all_hyps(), clause="g not in I => y[g] == x[g]")
        ctx.fact("expand/x-not-modified", fn, x.writes == 0 and y is not x, "solve_linear must work on a copy of x", backend="symbolic-execution")
        with sarr.mode_i([U]):
            y2 = U.solve_linear("Amat", "bvec", solver=solver)
        ctx.fact("expand/no-expansion-without-x-I", fn, y2 is sol, "without (x, I) the solver's result is returned as is", backend="symbolic-execution")


UNITS["expand"] = expand


def penalize(ctx):
    import skfem.utils as U
    fn = ctx.function(U.penalize)
    for overwrite in (False, True):
        with sarr.index_context() as c:
            n, A, G = _inputs(c, "D")
            x = SArr.input("x", (n,), tm.REAL)
            b = SArr.input("b", (n,), tm.REAL)
            eps = tm.sreal("eps")
            c.add(tm.lt(C(Fraction(0), tm.REAL), eps.t))
            with _mode(U, c):
                Aout, bout = U.penalize(A, b, x=x, D=G, epsilon=eps, overwrite=overwrite)
            pre = "penalize/overwrite-%s" % overwrite
            a, cc = c.skolem("a", 0, n.t), c.skolem("cc", 0, n.t)
            d = c.skolem("d", 0, sarr._t(G.shape[0]))
            gd = G.get((d.t,))
            inv = tm.div(C(Fraction(1), tm.REAL), eps.t)
            reads = [Aout.entry(gd, gd), bout.get((gd,)), Aout.entry(a.t, cc.t), bout.get((a.t,))]
            hy = c.all_hyps()
            ctx.prove(pre + "/diagonal", fn, tm.eq(reads[0], inv), hyps=hy, clause="Aout[D[d], D[d]] == 1/epsilon", replay=dict(kind="bc"))
            ctx.prove(pre + "/rhs", fn, tm.eq(reads[1], tm.div(x.get((gd,)), eps.t)), hyps=hy, clause="bout[D[d]] == x[D[d]]/epsilon")
            ctx.prove(pre + "/offdiag", fn, tm.implies(tm.ne(a.t, cc.t), tm.eq(reads[2], tm.app("A", tm.REAL, a.t, cc.t))), hyps=hy, clause="off-diagonal entries unchanged")
            wit = [n_ for t_ in reads[2:] for n_ in tm.subterms(t_) if n_.op == "app" and n_.args[0].startswith("wit!")]
            nG = sarr._t(G.shape[0])
            notinD = tm.and_(*[tm.implies(tm.and_(tm.le(C(0), w), tm.lt(w, nG)), tm.ne(G.get((w,)), a.t)) for w in wit]) if wit else tm.TRUE
            ctx.prove(pre + "/other-diagonal", fn, tm.implies(notinD, tm.eq(Aout.entry(a.t, a.t), tm.app("A", tm.REAL, a.t, a.t))), hyps=hy,
                      clause="a not in D => Aout[a,a] == A[a,a]")
            ctx.prove(pre + "/other-rhs", fn, tm.implies(notinD, tm.eq(reads[3], tm.app("b", tm.REAL, a.t))), hyps=hy, clause="a not in D => bout[a] == b[a]")
            if overwrite:
                ctx.fact(pre + "/same-objects", fn, Aout is A and bout is b, "overwrite=True returns the operands themselves", backend="symbolic-execution")
            else:
                ctx.fact(pre + "/operands-untouched", fn, Aout is not A and bout is not b and A.mutated == 0 and b.writes == 0 and x.writes == 0,
                         "overwrite=False must leave A, b, x untouched (A.copy(), b.copy())", clause="modifies nothing when overwrite=False",
                         backend="symbolic-execution", replay=dict(kind="bc"))


UNITS["penalize"] = penalize


def flatten(ctx):
    import skfem as fem
    import skfem.utils as U
    fn = ctx.function(U._flatten_dofs)
    m = fem.MeshTri().refined(1)
    basis = fem.Basis(m, fem.ElementTriP2())
    a = np.array([3, 1, 2])
    ctx.fact("flatten/array", fn, U._flatten_dofs(a) is a, "index arrays pass through", backend="path-execution")
    ctx.fact("flatten/none", fn, U._flatten_dofs(None) is None, "None passes through", backend="path-execution")
    v = basis.get_dofs("left") if False else basis.get_dofs(lambda x: x[0] == 0)
    ctx.fact("flatten/view", fn, np.array_equal(U._flatten_dofs(v), v.flatten()), "a DofsView flattens to its DOFs", backend="path-execution")
    d = {"left": basis.get_dofs(lambda x: x[0] == 0), "top": basis.get_dofs(lambda x: x[1] == 1)}       # the views share a corner
    got = U._flatten_dofs(d)
    want = np.unique(np.concatenate([d["left"].flatten(), d["top"].flatten()]))
    ctx.fact("flatten/dict-overlapping-views", fn, np.array_equal(got, want), "dict of views must flatten to the duplicate-free sorted union (got %s)" % (got.tolist(),),
             clause="_flatten_dofs(dict of views) == unique(concatenate(view.flatten()))", backend="path-execution", replay=dict(kind="bc"))
    for bad in ([1, 2], {"a": np.array([1])}, 3.5):
        try:
            U._flatten_dofs(bad)
            ok = False
        except NotImplementedError:
            ok = True
        ctx.fact("flatten/raises/%s" % type(bad).__name__, fn, ok, "unsupported collections must raise NotImplementedError", backend="path-execution")


UNITS["flatten"] = flatten


def standin_bc(ctx):
    import time
    from skv import core
    t0 = time.time()
    r = core.run_native("standin_bc.py", dict(seed=ctx.seed, tier=ctx.tier))
    ctx.standin("enforce (E1-E4) and condense on all small CSR patterns x all ordered constrained sets", r["bound"], r["cases"], r["failures"],
                exhaustive=False, samples=r["samples"], time_s=time.time() - t0)
    r = core.run_native("standin_bc2.py", dict(seed=ctx.seed, tier=ctx.tier))
    ctx.standin("condense/enforce/penalize + solve on FEM systems: views, dicts of overlapping views, eigenproblems, same solution", r["bound"], r["cases"], r["failures"],
                samples=r["samples"], time_s=time.time() - t0)


UNITS["standin/bc"] = standin_bc
HEAVY_FIRST = ["standin/bc"]
