"""C16 — threaded assembly equals serial assembly under every schedule.

Deductive tools are silent on schedules.  What is proved is the classical sufficient condition (Bernstein): the workers'
write sets are pairwise disjoint, no worker reads what another writes, every worker is joined before the result is read and
each worker stores the same expression the serial path stores.  Determinism under every interleaving then follows
(paper lemma, under the stated memory-model assumption).

contract  BilinearForm._assemble(ubasis, vbasis) with nthreads = n > 0     (Nu, Nv in 1..3 and n in 1..Nu*Nv+2 enumerated
                                                                            completely; nt, nq, N symbolic; form uninterpreted)
  ensures   PAIRS     the index list handed to the workers enumerates [0,Nv) x [0,Nu) exactly once
            SPLIT     the chunks given to the n workers partition that list (empty chunks when n > Nu*Nv)
            ONCE      the in-loop kernel is disabled (nthreads > 0) so every pair is computed exactly once overall
            WFRAME    a worker writes only data[j,i,:] for (i,j) in its chunk and reads only ubasis[j], vbasis[i], wdict, dx
            DISJOINT  write sets of different workers are disjoint; rows/cols are complete before any worker starts
            JOIN      every started worker is joined before data is flattened / returned
            SAME      triplets (indices, data) are term-for-term those of the serial path (nthreads = 0)
contract  BilinearForm._threaded_kernel(data, ix, ubasis, vbasis, wdict, dx): modifies only data[j,i] for (i,j) in ix
bounded   real threads: nthreads in 1..Nu*Nv+2 vs serial, bit-for-bit, repeated (native stand-in; OS schedules)
"""
from __future__ import annotations

import itertools

import numpy as np

from props.C01 import FormStub, StubBasis
from skv import sarr
from skv import term as tm
from skv.sarr import SArr

LEVEL = "other"
EXPLANATION = ("Contract-level sufficient condition for schedule independence (disjoint write sets, joins, same expression), "
               "decided by symbolic execution of the real _assemble/_threaded_kernel with a recording Thread; schedules themselves "
               "are only sampled by a bounded stand-in with real threads.")
ASSUMPTIONS = [
    "CPython threads writing disjoint slices of one ndarray do not interfere; Thread.join is a happens-before edge (memory model)",
    "Bernstein's conditions imply schedule independence (paper lemma)",
    "the user integrand is pure (does not modify basis arrays or the parameter dictionary)",
    "np.array_split(a, n, axis=0) returns n chunks whose concatenation is a (executed concretely by real NumPy for every enumerated case)",
]
TRUSTED = ["NumPy model skv/sarr.py", "threading.Thread replaced by a recording stand-in during symbolic execution"]
UNITS = {}
C = tm.const


class ConcBasis(StubBasis):
    def __init__(self, c, tag, nt, nq, nb):
        super().__init__(c, tag, nt, nq)
        self.Nbfun = nb
        self.element_dofs = SArr.input("dofs_" + tag, (nb, nt), lo=0, hi=self.N)
        self.basis = [(_Fn(tag, j),) for j in range(nb)]


class _Fn:
    def __init__(self, tag, j):
        self.tag, self.idx = tag, C(j)


class RecData(SArr):
    """data array that records which [j,i] blocks each worker writes / reads."""

    def __init__(self, base, log):
        super().__init__(base._shape, base._get, base.sort, base.name)
        self.log = log

    def __setitem__(self, key, value):
        self.log.append(("write", _cur[0], key))
        SArr.__setitem__(self, key, value)

    def __getitem__(self, key):
        self.log.append(("read", _cur[0], key))
        return SArr.__getitem__(self, key)


_cur = [None]


def threaded_unit(Nu, Nv):
    def run(ctx):
        import skfem.assembly.form.bilinear_form as BF
        fn = ctx.function(BF.BilinearForm._assemble, Nu=Nu, Nv=Nv)
        ft = ctx.function(BF.BilinearForm._threaded_kernel)
        pre = "threads/Nu%dNv%d" % (Nu, Nv)
        # serial reference
        with sarr.index_context() as c:
            nt, nq = c.size("nt", 1), c.size("nq", 1)
            ub, vb = ConcBasis(c, "u", nt, nq, Nu), ConcBasis(c, "v", nt, nq, Nv)
            with sarr.mode_i([BF]):
                sidx, sdat, sshape, slshape = BF.BilinearForm(FormStub(nt, nq))._assemble(ub, vb)
            k = c.skolem("k", 0, nt.t)
            serial = {}
            for j, i in itertools.product(range(Nu), range(Nv)):
                p = tm.add(tm.mul(C(j * Nv + i), nt.t), k.t)
                serial[(j, i)] = (sidx.get((C(0), p)), sidx.get((C(1), p)), sdat.get((p,)))
            hyps_serial = c.all_hyps()
            for n, schedule in [(n_, sc) for n_ in range(1, Nu * Nv + 3) for sc in ("eager", "late")]:
                events = []

                class Thread:
                    """recording stand-in for threading.Thread.  Two legal schedules are played: `eager` runs a worker when it is started,
                    `late` runs every worker only when the launcher first joins one (all workers created/started before any of them runs) —
                    arguments must therefore be bound at creation time, not read from the launcher's variables later."""
                    pending = []

                    def __init__(self, target=None, args=(), kwargs=None):
                        self.target, self.args, self.kwargs, self.id = target, args, kwargs or {}, len([e for e in events if e[0] == "create"])
                        self.ran = False
                        events.append(("create", self.id))

                    def run_now(self):
                        if self.ran:
                            return
                        self.ran = True
                        _cur[0] = self.id
                        try:
                            self.target(*self.args, **self.kwargs)      # sequentialised; disjointness makes the order irrelevant
                        finally:
                            _cur[0] = None

                    def start(self):
                        events.append(("start", self.id))
                        if schedule == "eager":
                            self.run_now()
                        else:
                            Thread.pending.append(self)

                    def join(self):
                        for t_ in list(Thread.pending):
                            t_.run_now()
                        Thread.pending.clear()
                        events.append(("join", self.id))

                Thread.pending = []

                log = []
                orig_zeros = sarr.NPModel._zeros
                made = []

                def rec_zeros(self_, shape, dtype=None, order="C"):
                    a = orig_zeros(self_, shape, dtype, order)
                    if isinstance(a, SArr) and a.ndim == 3 and not made:
                        a = RecData(a, log)
                        made.append(a)
                    return a
                sarr.NPModel._zeros = rec_zeros
                form = FormStub(nt, nq)
                try:
                    with sarr.mode_i([BF], extra_globals=dict(Thread=Thread)):
                        bf = BF.BilinearForm(form, nthreads=n)
                        ncalls0 = len(form.calls)
                        tidx, tdat, tshape, tlshape = bf._assemble(ub, vb)
                finally:
                    sarr.NPModel._zeros = orig_zeros
                tag = "%s/n%d/%s" % (pre, n, schedule)
                writes = [(e[1], e[2]) for e in log if e[0] == "write"]
                main_writes = [w for w in writes if w[0] is None]
                ctx.fact(tag + "/once", fn, not main_writes, "the serial in-loop kernel also ran: %s" % main_writes[:2],
                         clause="nthreads > 0 => no kernel evaluation in the main loop", backend="symbolic-execution")
                per = {}
                for tid, key in writes:
                    if tid is None:
                        continue
                    key = key if isinstance(key, tuple) else (key,)
                    jj, ii = int(key[0]), int(key[1])
                    per.setdefault(tid, []).append((jj, ii))
                allw = [w for ws in per.values() for w in ws]
                ctx.fact(tag + "/pairs", fn, sorted(allw) == sorted(itertools.product(range(Nu), range(Nv))),
                         "pairs written by the workers: %s" % sorted(allw), clause="every local pair (j,i) is written exactly once overall",
                         backend="symbolic-execution")
                ctx.fact(tag + "/disjoint", ft, len(set(allw)) == len(allw), "two workers write the same block", clause="write sets pairwise disjoint",
                         backend="symbolic-execution")
                reads = [e for e in log if e[0] == "read" and e[1] is not None]
                ctx.fact(tag + "/no-read-of-shared-output", ft, not reads, "a worker reads the shared output array", backend="symbolic-execution")
                created = [e[1] for e in events if e[0] == "create"]
                started = [e[1] for e in events if e[0] == "start"]
                joined = [e[1] for e in events if e[0] == "join"]
                ctx.fact(tag + "/workers", fn, len(created) == n and sorted(started) == sorted(created), "created %d started %d (nthreads %d)" % (len(created), len(started), n),
                         clause="exactly nthreads workers are created and all are started", backend="symbolic-execution")
                ctx.fact(tag + "/join", fn, sorted(joined) == sorted(started), "started %s joined %s" % (started, joined),
                         clause="every started worker is joined before the data is read", backend="symbolic-execution")
                # SAME: triplets equal the serial ones, term for term
                same = True
                for (j, i), (r0, c0, d0) in serial.items():
                    p = tm.add(tm.mul(C(j * Nv + i), nt.t), k.t)
                    g = tm.and_(tm.eq(tidx.get((C(0), p)), r0), tm.eq(tidx.get((C(1), p)), c0), tm.eq(tdat.get((p,)), d0))
                    if g is not tm.TRUE:
                        same = False
                        ctx.prove(tag + "/same/j%di%d" % (j, i), fn, g, hyps=c.all_hyps(), clause="threaded triplet == serial triplet for local pair (%d,%d), all cells" % (j, i))
                if same:
                    ctx.fact(tag + "/same", fn, True, clause="threaded triplets are syntactically the serial triplets for every local pair and cell", backend="simplifier")
                ctx.fact(tag + "/shapes", fn, tshape[0] is vb.N and tshape[1] is ub.N and tlshape == (Nv, Nu), "shape")
            del hyps_serial
    return run


for _nu, _nv in ((1, 1), (2, 1), (1, 3), (2, 2), (3, 2), (3, 3)):
    UNITS["threads/Nu%dNv%d" % (_nu, _nv)] = threaded_unit(_nu, _nv)


def standin_threads(ctx):
    import time
    from skv import core
    t0 = time.time()
    r = core.run_native("standin_threads.py", dict(seed=ctx.seed, tier=ctx.tier))
    ctx.standin("threaded vs serial assembly with real threads, bit-for-bit", r["bound"], r["cases"], r["failures"], samples=r["samples"],
                time_s=time.time() - t0)


UNITS["standin/threads"] = standin_threads
