"""C02 — integration is exact for polynomial data on cells and facets.

Exactness on a mesh cell = exactness of the reference rule (C08) + dx = |det| W + change of variables (paper lemma) + the determinant
formulas being determinants (C10) + the default order being sufficient.

contract  CellBasis.__init__ (the part after AbstractBasis.__init__)          (Mode I: nt, nq, subset size symbolic)
  ensures   DX-CELL   dx[k,q] == |detDF(X, tind)[k,q]| * W[q]   (absolute value: independent of the sign of the determinant)
            SUBSET    basis[j] == elem.gbasis(mapping, X, j, tind) for the SAME tind that restricts dx and element_dofs; nelems == len(tind)
contract  FacetBasis.__init__                                                  (Mode I)
  ensures   DX-FACET  dx[k,q] == |detDG(X, find)[k,q]| * W[q]
            SIDE      tind == f2t[side, find], Y == invF(G(X, find), tind), basis[j] == gbasis(mapping, Y, j, tind), normals from
                      tind_normals == f2t[0, find] (oriented boundaries: f2t[ori, find]) at Y0 == invF(G(X, find), tind_normals)
contract  AbstractBasis.__init__  ORDER: default quadrature order == 2*maxdeg; explicit intorder / quadrature honoured (executed)
          + every exported polynomial element has deg(phi_i) <= maxdeg (C09 DEGREE) so products phi_i phi_j are integrated exactly
contract  |det| invariances (Mode P on the real MappingAffine): det changes at most its sign under any permutation of the cell's vertices, is
          unchanged by translation and by rotations  => |det| independent of vertex numbering and rigid motion
bounded   exact-rational reference values: functionals of monomials up to the integration order over the domain, tagged subdomains and facet sets,
          mass-matrix sums, P1/P2 mass/stiffness/load entries, invariance under renumbering / rigid motion / refinement (native stand-in)
"""
from __future__ import annotations

import itertools
from fractions import Fraction

import numpy as np

from skv import pmode, poly, sarr
from skv import term as tm
from skv.sarr import SArr
from skv.term import S

LEVEL = "proof"
EXPLANATION = ("dx formulas and subset/side alignment of the basis constructors proved for all sizes; determinant invariances proved; default order "
               "sufficiency from the proved degrees; the composition on concrete meshes is compared with exact rational integrals (bounded).")
ASSUMPTIONS = ["change of variables for integrals under affine maps (paper lemma)", "reference rules exact (C08)", "exact reference values are computed on rational meshes of the zoo (bounded)"]
TRUSTED = ["NumPy model skv/sarr.py", "exact simplex integration skv/poly.py"]
UNITS = {}
C = tm.const


def cell_init(ctx):
    import skfem.assembly.basis.cell_basis as CB
    import skfem.assembly.basis.abstract_basis as AB
    fn = ctx.function(CB.CellBasis.__init__)
    for subset in (False, True):
        with sarr.index_context() as c:
            nt, nq, ns, nb = c.size("nt", 1), c.size("nq", 1), c.size("ns", 1), 3
            W = SArr.input("W", (nq,), tm.REAL)
            calls = {}

            class Mesh:
                refdom = "refdom"
                nelements = nt

                def normalize_elements(self, e):
                    calls["normalize"] = e
                    return tindarr
            tindarr = SArr.input("tind", (ns,), lo=0, hi=nt)

            class Mapping:
                def detDF(self, X, tind=None):
                    calls["detDF"] = (X, tind)
                    n = ns if tind is not None else nt
                    return SArr((sarr._dim(n), sarr._dim(nq)), lambda idx: tm.app("detDF", tm.REAL, *idx), tm.REAL)

            class Elem:
                def gbasis(self, mapping, X, j, tind=None):
                    calls.setdefault("gbasis", []).append((mapping, X, j, tind))
                    return ("field", j)
            mapping, elem, mesh = Mapping(), Elem(), Mesh()

            def fake_abstract_init(self, mesh_, elem_, mapping_, intorder, quadrature, refdom, dofs, disable_doflocs):
                calls["super"] = (mesh_, elem_, mapping_, refdom)
                self.mesh, self.elem, self.mapping = mesh_, elem_, mapping
                self.X, self.W, self.Nbfun = "X", W, nb
            saved = AB.AbstractBasis.__init__
            AB.AbstractBasis.__init__ = fake_abstract_init
            try:
                with sarr.mode_i([CB]):
                    b = CB.CellBasis.__new__(CB.CellBasis)
                    CB.CellBasis.__init__(b, mesh, elem, mapping, elements=("some selection" if subset else None))
            finally:
                AB.AbstractBasis.__init__ = saved
            pre = "basis/cell/%s" % ("subset" if subset else "all")
            n = ns if subset else nt
            k, q = c.skolem("k", 0, n.t), c.skolem("q", 0, nq.t)
            ctx.prove(pre + "/dx", fn, tm.eq(b.dx.get((k.t, q.t)), tm.mul(tm.absv(tm.app("detDF", tm.REAL, k.t, q.t)), W.get((q.t,)))), hyps=c.all_hyps(),
                      clause="dx[k,q] == |detDF(X, tind)[k,q]| * W[q]", replay=dict(kind="integration"))
            want_t = tindarr if subset else None
            ok = calls["detDF"] == ("X", want_t) and len(calls["gbasis"]) == nb and all(g == (mapping, "X", j, want_t) for j, g in enumerate(calls["gbasis"]))
            ctx.fact(pre + "/same-subset", fn, ok and b.tind is want_t and sarr._t(b.nelems) is (ns if subset else nt).t,
                     "gbasis / detDF / tind / nelems do not use the same element subset", clause="basis[j] == gbasis(mapping, X, j, tind) and dx from detDF(X, tind) with the same tind; "
                     "nelems == len(tind) (or nelements)", backend="symbolic-execution", replay=dict(kind="integration"))
            ctx.fact(pre + "/refdom", fn, calls["super"][3] == "refdom", "cell bases must take their quadrature from mesh.refdom", backend="symbolic-execution")
            if subset:
                ctx.fact(pre + "/normalize", fn, calls.get("normalize") == "some selection", "elements must go through mesh.normalize_elements", backend="symbolic-execution")


UNITS["basis/cell-init"] = cell_init


def facet_init(ctx):
    import skfem.assembly.basis.facet_basis as FB
    import skfem.assembly.basis.abstract_basis as AB
    from skfem.generic_utils import OrientedBoundary
    from skv import paths
    import logging
    logging.disable(logging.WARNING)
    fn = ctx.function(FB.FacetBasis.__init__)
    for side, given in itertools.product((0, 1), ("default", "given")):
        with sarr.index_context() as c:
            nf, nq, ns, nt, nb = c.size("nf", 0), c.size("nq", 1), c.size("ns", 0), c.size("nt", 1), 2
            W = SArr.input("W", (nq,), tm.REAL)
            f2t = SArr.input("f2t", (2, nf), lo=-1, hi=nt)
            findarr = SArr.input("find", (ns,), lo=0, hi=nf)
            base_hyps = list(c.hyps)

            def run():
                calls = {}
                del c.hyps[len(base_hyps):]
                del c.inst[:]

                class Mesh:
                    brefdom = "brefdom"
                    t2f = "t2f"

                    def normalize_facets(self, f):
                        calls["normalize"] = f
                        return findarr
                Mesh.f2t = f2t

                class Mapping:
                    def G(self, X, find=None):
                        calls["G"] = (X, find)
                        return "x-global"

                    def invF(self, x, tind=None):
                        calls.setdefault("invF", []).append((x, tind))
                        return ("Y", tind)

                    def normals(self, Y0, tind, find, t2f):
                        calls["normals"] = (Y0, tind, find, t2f)
                        return np.zeros((2, 1, 1))

                    def detDG(self, X, find=None):
                        calls["detDG"] = (X, find)
                        return SArr((find._shape[0], sarr._dim(nq)), lambda idx: tm.app("detDG", tm.REAL, *idx), tm.REAL)

                class Elem:
                    def gbasis(self, mapping, X, j, tind=None):
                        calls.setdefault("gbasis", []).append((X, j, tind))
                        return ("field", j)
                mapping, elem, mesh = Mapping(), Elem(), Mesh()

                def fake_abstract_init(self, mesh_, elem_, mapping_, intorder, quadrature, refdom, dofs, disable_doflocs):
                    calls["super"] = refdom
                    self.mesh, self.elem, self.mapping = mesh_, elem_, mapping
                    self.X, self.W, self.Nbfun = "X", W, nb
                saved = AB.AbstractBasis.__init__
                AB.AbstractBasis.__init__ = fake_abstract_init
                try:
                    with sarr.mode_i([FB], extra_globals=dict(OrientedBoundary=OrientedBoundary)):
                        b = FB.FacetBasis.__new__(FB.FacetBasis)
                        if given == "default":
                            FB.FacetBasis.__init__(b, mesh, elem, mapping, side=side)
                        else:
                            FB.FacetBasis.__init__(b, mesh, elem, mapping, facets="sel", side=side)
                finally:
                    AB.AbstractBasis.__init__ = saved
                return b, calls, list(c.hyps), list(c.inst)
            ps = paths.explore(run, hyps=base_hyps, hyps_fn=lambda: c.hyps[len(base_hyps):])
            for pi, path in enumerate(ps):
                pre = "basis/facet/side%d/%s/path%d" % (side, given, pi)
                if path.exc is not None:
                    ctx.fact(pre + "/no-exception", fn, False, "constructor raises %s: %s" % (type(path.exc).__name__, path.exc), backend="symbolic-execution")
                    continue
                b, calls, c.hyps, c.inst = path.result
                find = b.find
                nfind = sarr._t(find.shape[0])
                k, q = c.skolem("k%d" % pi, 0, nfind), c.skolem("q%d" % pi, 0, nq.t)
                dxv = b.dx.get((k.t, q.t))
                t1, t2 = b.tind.get((k.t,)), b.tind_normals.get((k.t,))
                fk = find.get((k.t,))
                hy = c.all_hyps() + list(path.pc)
                ctx.prove(pre + "/dx", fn, tm.eq(dxv, tm.mul(tm.absv(tm.app("detDG", tm.REAL, k.t, q.t)), W.get((q.t,)))), hyps=hy,
                          clause="dx[k,q] == |detDG(X, find)[k,q]| * W[q]", replay=dict(kind="integration"))
                ctx.prove(pre + "/side", fn, tm.and_(tm.eq(t1, f2t.get((C(side), fk))), tm.eq(t2, f2t.get((C(0), fk)))),
                          hyps=hy, clause="tind[k] == f2t[side, find[k]] and tind_normals[k] == f2t[0, find[k]]", replay=dict(kind="integration"))
                if given == "default":
                    ctx.prove(pre + "/boundary-facets", fn, tm.eq(f2t.get((C(1), fk)), C(-1)), hyps=hy, clause="default facets: f2t[1, find[k]] == -1")
                else:
                    ctx.fact(pre + "/normalize", fn, calls.get("normalize") == "sel" and find is findarr, "facets must go through mesh.normalize_facets", backend="symbolic-execution")
                ok = (calls["G"][0] == "X" and calls["G"][1] is find and calls["detDG"][0] == "X" and calls["detDG"][1] is find
                      and calls["invF"][0][0] == "x-global" and calls["invF"][0][1] is b.tind and calls["invF"][1][0] == "x-global" and calls["invF"][1][1] is b.tind_normals
                      and len(calls["gbasis"]) == nb and all(g[0][0] == "Y" and g[0][1] is b.tind and g[1] == j and g[2] is b.tind for j, g in enumerate(calls["gbasis"]))
                      and calls["normals"][0][1] is b.tind_normals and calls["normals"][1] is b.tind_normals and calls["normals"][2] is find and calls["normals"][3] == "t2f")
                ctx.fact(pre + "/wiring", fn, bool(ok), "G/invF/gbasis/normals/detDG are not evaluated for the same facets and the side's cells",
                         clause="Y == invF(G(X, find), tind); basis[j] == gbasis(mapping, Y, j, tind); normals(invF(G(X, find), tind_normals), tind_normals, find, t2f); "
                                "dx from detDG(X, find)", backend="symbolic-execution", replay=dict(kind="integration"))
                ctx.fact(pre + "/refdom", fn, calls["super"] == "brefdom", "facet bases take their quadrature from mesh.brefdom", backend="symbolic-execution")
            ctx.fact("basis/facet/side%d/%s/paths" % (side, given), fn, len(ps) >= 1, "no feasible path", backend="symbolic-execution")


UNITS["basis/facet-init"] = facet_init


def order(ctx):
    """default / explicit integration order and explicit quadrature, decided on what the basis actually holds (X, W), not on how it obtained it"""
    import skfem as fem
    import skfem.assembly.basis.abstract_basis as AB
    from skfem.quadrature import get_quadrature
    fn = ctx.function(AB.AbstractBasis.__init__)
    same = lambda b, rule: np.array_equal(b.X, rule[0]) and np.array_equal(b.W, rule[1])
    for mk, e in ((fem.MeshTri, fem.ElementTriP2()), (fem.MeshQuad, fem.ElementQuad2()), (fem.MeshTet, fem.ElementTetP1()), (fem.MeshLine, fem.ElementLineP2()),
                  (fem.MeshHex, fem.ElementHex1()), (fem.MeshTri, fem.ElementTriMini()), (fem.MeshTri, fem.ElementTriP4()), (fem.MeshTet, fem.ElementTetP2())):
        m = mk()
        n = type(e).__name__
        b = fem.CellBasis(m, e)
        ctx.fact("order/default/%s" % n, fn, same(b, get_quadrature(m.refdom, 2 * e.maxdeg)) and not same(b, get_quadrature(m.refdom, max(0, 2 * e.maxdeg - 2))),
                 "the default rule of the basis is not the rule of order 2*maxdeg = %d of the cell's reference domain" % (2 * e.maxdeg),
                 clause="default (X, W) == get_quadrature(mesh.refdom, 2*maxdeg)", backend="path-execution", replay=dict(kind="integration"))
        b = fem.CellBasis(m, e, intorder=3)
        ctx.fact("order/explicit/%s" % n, fn, same(b, get_quadrature(m.refdom, 3)), "explicit intorder=3 not honoured", clause="intorder=n  =>  (X, W) == get_quadrature(mesh.refdom, n)",
                 backend="path-execution")
        X, W = get_quadrature(m.refdom, 5)
        b = fem.CellBasis(m, e, quadrature=(X, W), intorder=1)
        ctx.fact("order/quadrature/%s" % n, fn, b.X is X and b.W is W, "explicit quadrature not used as given (it has precedence over intorder)", backend="path-execution")
        if getattr(m, "brefdom", None) is not None and m.dim() > 1:
            fb = fem.FacetBasis(m, e)
            ctx.fact("order/facet-default/%s" % n, fn, same(fb, get_quadrature(m.brefdom, 2 * e.maxdeg)), "facet default rule is not order 2*maxdeg on the facet's reference domain",
                     backend="path-execution")


UNITS["order"] = order


def det_invariance(ctx):
    from props.C10 import StubMesh, R_, same
    from skfem.mapping import MappingAffine
    fn = ctx.function(MappingAffine._init_invA)
    for d in (2, 3):
        nn = d + 1
        base = np.arange(nn)[:, None]
        m0 = StubMesh(d, nn, base)
        with pmode.symbolic_numpy():
            det0 = MappingAffine(m0).detA[0]
        for perm in itertools.permutations(range(nn)):
            m = StubMesh(d, nn, np.array(perm)[:, None])
            m.p = m0.p
            m.doflocs = m0.p
            with pmode.symbolic_numpy():
                det = MappingAffine(m).detA[0]
            # parity of the permutation
            sign = 1
            pl = list(perm)
            for i in range(nn):
                for j in range(i + 1, nn):
                    if pl[i] > pl[j]:
                        sign = -sign
            ctx.fact("det/permutation/d%d/%s" % (d, "".join(map(str, perm))), fn, same(det, det0 * sign), "det under the vertex permutation is not sign(perm)*det",
                     clause="detA(cell listed as pi) == sign(pi) * detA(cell)  => |det| independent of the local vertex order")
        # translation and rotation
        tr = pmode.sym_array("c", (d,))
        m = StubMesh(d, nn, base)
        m.p = np.array([[m0.p[i, v] + tr[i] for v in range(nn)] for i in range(d)], dtype=object)
        with pmode.symbolic_numpy():
            det = MappingAffine(m).detA[0]
        ctx.fact("det/translation/d%d" % d, fn, same(det, det0), "det changes under translation", clause="detA(p + c) == detA(p)")
        if d == 2:
            co, si = tm.sreal("co"), tm.sreal("si")
            Q = [[co, -si], [si, co]]
            hy = [(co * co + si * si == 1).t]
        else:
            # rotation about the z axis composed with one about the x axis (generators)
            co, si, c2, s2 = tm.sreal("co"), tm.sreal("si"), tm.sreal("c2"), tm.sreal("s2")
            Qz = [[co, -si, 0], [si, co, 0], [0, 0, 1]]
            Qx = [[1, 0, 0], [0, c2, -s2], [0, s2, c2]]
            Q = [[sum(Qz[i][k] * Qx[k][j] for k in range(3)) for j in range(3)] for i in range(3)]
            hy = [(co * co + si * si == 1).t, (c2 * c2 + s2 * s2 == 1).t]
        m = StubMesh(d, nn, base)
        m.p = np.array([[sum(Q[i][k] * m0.p[k, v] for k in range(d)) for v in range(nn)] for i in range(d)], dtype=object)
        with pmode.symbolic_numpy():
            det = MappingAffine(m).detA[0]
        ctx.prove("det/rotation/d%d" % d, fn, S(tm.lift(det)) == S(tm.lift(det0)), hyps=hy, clause="detA(Q p) == detA(p) for rotations Q (cos^2 + sin^2 = 1)")
    del R_


UNITS["det-invariance"] = det_invariance


def normalize_union(ctx):
    """Mesh.normalize_facets / normalize_elements on a list of index sets: the union WITHOUT multiplicity (an integration domain given as several possibly
    overlapping tagged sets is integrated once)"""
    import skfem.mesh.mesh as M
    for meth in ("normalize_facets", "normalize_elements"):
        fn = ctx.function(getattr(M.Mesh, meth))
        for kind in (list, tuple):
            with sarr.index_context() as c:
                na, nb, nn = c.size("na", 1), c.size("nb", 1), c.size("n", 1)
                A = SArr.input("A", (na,), lo=0, hi=nn)
                B = SArr.input("B", (nb,), lo=0, hi=nn)

                class Mesh:
                    boundaries = subdomains = None
                mesh = Mesh()
                setattr(Mesh, meth, getattr(M.Mesh, meth))
                with sarr.mode_i([M], extra_globals=dict(ndarray=(np.ndarray, SArr))):
                    U = getattr(mesh, meth)(kind([A, B]))
                pre = "select/%s/%s" % (meth, kind.__name__)
                nu = sarr._t(U.shape[0])
                i, j = c.skolem("i", 0, nu), c.skolem("j", 0, nu)
                a, b = c.skolem("a", 0, na.t), c.skolem("b", 0, nb.t)
                sarr.hint_unique(U, a.t)
                sarr.hint_unique(U, tm.add(na.t, b.t))
                ctx.prove(pre + "/no-multiplicity", fn, tm.implies(tm.lt(i.t, j.t), tm.lt(U.get((i.t,)), U.get((j.t,)))), hyps=c.all_hyps(),
                          clause="the selected indices are strictly increasing: an entity named by several of the listed sets is selected once", replay=dict(kind="integration"))
                rec = U.unique_of
                ia = tm.app(rec["ixb"], tm.INT, a.t)
                ibb = tm.app(rec["ixb"], tm.INT, tm.add(na.t, b.t))
                ctx.prove(pre + "/contains-all", fn, tm.and_(tm.eq(U.get((ia,)), A.get((a.t,))), tm.eq(U.get((ibb,)), B.get((b.t,))), tm.le(C(0), ia), tm.lt(ia, nu), tm.le(C(0), ibb), tm.lt(ibb, nu)),
                          hyps=c.all_hyps(), clause="every index of every listed set is selected", replay=dict(kind="integration"))
                src = tm.app(rec["ixa"], tm.INT, i.t)
                ctx.prove(pre + "/nothing-else", fn, tm.or_(tm.and_(tm.lt(src, na.t), tm.eq(U.get((i.t,)), A.get((src,)))),
                                                         tm.and_(tm.le(na.t, src), tm.lt(tm.sub(src, na.t), nb.t), tm.eq(U.get((i.t,)), B.get((tm.sub(src, na.t),))))),
                          hyps=c.all_hyps(), clause="every selected index stems from one of the listed sets", replay=dict(kind="integration"))


UNITS["select/normalize-union"] = normalize_union


def standin_integration(ctx):
    import time
    from skv import core
    t0 = time.time()
    r = core.run_native("standin_integration.py", dict(seed=ctx.seed, tier=ctx.tier), timeout=3000)
    ctx.standin("exact-rational integrals: monomial functionals over domain / subdomains / facet sets, mass sums, P1/P2 entries, invariances", r["bound"], r["cases"],
                r["failures"], samples=r["samples"], time_s=time.time() - t0)


UNITS["standin/integration"] = standin_integration
HEAVY_FIRST = ["standin/integration"]
