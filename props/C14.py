"""C14 — point location and point evaluation of discrete functions are exact.

contract  CellBasis.probes(x)                (PROBES; Mode I: number of points, cells and DOFs symbolic; Nbfun in 1..3, components in 1..2)
  requires  the finder returns cells[p] in [0, nt) (its contract), invF/gbasis are the mapping's / element's (their contracts: C10, C09)
  ensures   the triplet with flat index q = ((k*comp + c)*npts + p) is (row c*npts + p, column element_dofs[k, cells[p]],
            value gbasis(k)[c, p]) — i.e. row (c, p) of the matrix holds, at the DOFs of the LOCATED cell, the c-th components of its local basis
            functions at point p; the matrix has shape (comp*npts, N); repeated points give repeated rows (duplicates summed by COO)
contract  CellBasis.point_source(x) == probes(x[:, None]).toarray()[0]          (executed)
contract  finders (post-condition, completeness, raise outside), interpolator reshapes, agreement with interpolate at quadrature points,
          all cell types and element kinds: bounded stand-in on the zoo + graded/sheared/non-convex meshes with an independent containment
          oracle and independent local expansion (FIND-CONTAINS, FIND-OUTSIDE, EVAL-SHAPE, EVAL-EXACT, EVAL-FRESH, POINT-SOURCE, QUAD-POINTS)
"""
from __future__ import annotations

import numpy as np

from skv import sarr
from skv import term as tm
from skv.sarr import SArr

LEVEL = "proof"
EXPLANATION = ("The probing matrix's index bookkeeping is proved for all numbers of points/cells/DOFs from the real probes(); point location "
               "itself is floating-point geometry and is decided by a bounded stand-in with independent oracles.")
ASSUMPTIONS = [
    "floating-point geometry of the finders (KD-tree candidates, Newton inverse) is bounded only",
    "SciPy coo_matrix sums duplicate triplets",
]
TRUSTED = ["NumPy model skv/sarr.py", "independent containment / local-expansion oracles in native/standin_points.py"]
UNITS = {}
C = tm.const


def probes(ctx):
    import skfem.assembly.basis.cell_basis as CB
    fn = ctx.function(CB.CellBasis.probes)
    for nb in (1, 2, 3):
        for comp_shape in ((), (2,), (2, 2)):
            comp = int(np.prod(comp_shape)) if comp_shape else 1
            with sarr.index_context() as c:
                npts, nt, N = c.size("npts", 1), c.size("nt", 1), c.size("N", 1)
                cells = SArr.input("cells", (npts,), lo=0, hi=nt)
                edofs = SArr.input("edofs", (nb, nt), lo=0, hi=N)
                captured = {}

                class Mesh:
                    def element_finder(self, mapping=None):
                        captured["finder_mapping"] = mapping
                        return lambda *x: cells

                class Mapping:
                    def invF(self, x, tind=None):
                        captured["invF_tind"] = tind
                        return "local-points"

                class Elem:
                    def gbasis(self, mapping, X, k, tind=None):
                        captured.setdefault("gbasis", []).append((X, tind is cells))
                        return (SArr(comp_shape + (sarr._dim(npts), 1), lambda idx, k=k: tm.app("phi%d" % k, tm.REAL, *idx[:-1]), tm.REAL),)

                class Basis:
                    pass
                b = Basis()
                b.mesh, b.mapping, b.elem = Mesh(), Mapping(), Elem()
                b.Nbfun, b.N, b.element_dofs = nb, N, edofs
                b._base_tensor_order = comp_shape

                class X:
                    shape = (2, npts)

                    def __iter__(self):
                        return iter(("x", "y"))

                    def __getitem__(self, key):
                        return "x-with-newaxis"

                def coo(arg, shape=None):
                    captured["coo"] = (arg, shape)
                    return "matrix"
                with sarr.mode_i([CB], extra_globals=dict(coo_matrix=coo)):
                    out = CB.CellBasis.probes(b, X())
                (data, (rows, cols)), shape = captured["coo"]
                pre = "probes/nb%d/comp%s" % (nb, "x".join(map(str, comp_shape)) or "1")
                ctx.fact(pre + "/wiring", fn, out == "matrix" and captured["finder_mapping"] is b.mapping and captured["invF_tind"] is cells
                         and all(t for _, t in captured["gbasis"]) and all(x == "local-points" for x, _ in captured["gbasis"]) and len(captured["gbasis"]) == nb,
                         "finder(mapping=self.mapping), invF(x, tind=cells) and gbasis(mapping, pts, k, tind=cells) for every k", backend="symbolic-execution")
                ctx.prove(pre + "/shape", fn, tm.and_(tm.eq(sarr._t(shape[0]), tm.mul(C(comp), npts.t)), tm.eq(sarr._t(shape[1]), N.t)), hyps=c.all_hyps(),
                          clause="matrix shape == (comp*npts, N)")
                p = c.skolem("p", 0, npts.t)
                for k in range(nb):
                    for ci, cidx in enumerate(np.ndindex(*comp_shape) if comp_shape else [()]):
                        q = tm.add(tm.mul(C(k * comp + ci), npts.t), p.t)
                        got = tm.and_(tm.eq(rows.get((q,)), tm.add(tm.mul(C(ci), npts.t), p.t)),
                                      tm.eq(cols.get((q,)), edofs.get((C(k), cells.get((p.t,))))),
                                      tm.eq(data.get((q,)), tm.app("phi%d" % k, tm.REAL, *[C(i) for i in cidx], p.t)))
                        ctx.prove(pre + "/triplet/k%d/c%d" % (k, ci), fn, got, hyps=c.all_hyps(),
                                  clause="triplet ((k*comp+c)*npts+p) == (row c*npts+p, col element_dofs[k, cells[p]], value phi_k[c, p])",
                                  replay=dict(kind="points"))
                ctx.prove(pre + "/count", fn, tm.eq(sarr._t(data.shape[0]), tm.mul(C(nb * comp), npts.t)), hyps=c.all_hyps(), clause="exactly Nbfun*comp*npts triplets")


UNITS["probes"] = probes


def point_source(ctx):
    import skfem as fem
    fn = ctx.function(fem.CellBasis.point_source)
    m = fem.MeshTri().refined(2)
    b = fem.Basis(m, fem.ElementTriP2())
    x = np.array([.31, .27])
    ps = b.point_source(x)
    ctx.fact("point-source/is-first-probe-row", fn, np.allclose(ps, b.probes(x[:, None]).toarray()[0]) and ps.shape == (b.N,), "point_source(x) != probes(x[:,None]).toarray()[0]",
             backend="path-execution")
    y = b.project(lambda x: x[0] ** 2 + x[1])
    ctx.fact("point-source/evaluates", fn, abs(ps @ y - (x[0] ** 2 + x[1])) < 1e-12, "point_source . y must be the value of the P2 function at x", backend="path-execution")


UNITS["point-source"] = point_source


def standin_points(ctx):
    import time
    from skv import core
    t0 = time.time()
    r = core.run_native("standin_points.py", dict(seed=ctx.seed, tier=ctx.tier), timeout=3000)
    ctx.standin("finders, probes, interpolator, point_source on the zoo + graded/sheared/non-convex meshes", r["bound"], r["cases"], r["failures"],
                samples=r["samples"], time_s=time.time() - t0)


UNITS["standin/points"] = standin_points
HEAVY_FIRST = ["standin/points"]
