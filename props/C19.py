"""C19 — vector, composite and block structures agree with their components.

contract  COOData.tolocal() / fromlocal(local)                    (Mode I: Nu, Nv, nt symbolic)
  ensures   bilinear data (local_shape = (Nv, Nu), triplet p = (j*Nv+i)*nt+k, contract COO-B of C01):
            tolocal()[k, i, j] == data[(j*Nv + i)*nt + k]   (rows = test functions), shape (nt, Nv, Nu);
            linear data: tolocal()[k, i] == data[i*nt + k];   fromlocal(tolocal()).data == data (all positions)
contract  AbstractBasis.split_indices / split_bases               (SPLIT; finite family E: vector and composite elements built from the exported
                                                                    elements, on a two-cell mesh of every cell type)
  ensures   for every cell k and local function i with (component n, local index ind) = decode(i):
            element_dofs[i, k] == split_indices()[n][ split_bases()[n].element_dofs[ind, k] ]
            (the position inside the component's index list IS the component basis' own global number), the index lists partition [0, N),
            component bases share mesh, mapping and quadrature
contract  DECODE-V / DECODE-C (ElementVector / ElementComposite decode bijections): proved in C09 (wrap units)
bounded   interpolate(whole) == interpolate(parts), coupled matrix == block matrix under the split permutation, asm over lists of bases ==
          sum of separate assemblies, COOData + / toarray / tocsr / todefault / dot / inverse / tolocal (cells and facets), Form.block, bmat
          on Stokes-, RT-P0-, N1-P1-type and three-component composites (native stand-in)
"""
from __future__ import annotations

import itertools

import numpy as np

from contracts import catalog
from skv import sarr
from skv import term as tm
from skv.sarr import SArr

LEVEL = "proof"
EXPLANATION = ("COOData local-matrix conversions proved for all sizes from the real code; the split/layout consistency decided exhaustively over "
               "vector and composite elements of every cell type on real two-cell meshes; numerical block agreement bounded.")
ASSUMPTIONS = ["np.linalg.inv (COOData.inverse) trusted", "block-matrix consequence of SPLIT + COO-B is a paper lemma (sum over the disjoint union of component index sets)"]
TRUSTED = ["NumPy model skv/sarr.py"]
UNITS = {}
C = tm.const


def coodata(ctx):
    import skfem.assembly.form.coo_data as CD
    ft, ff = ctx.function(CD.COOData.tolocal), ctx.function(CD.COOData.fromlocal)
    # bilinear
    with sarr.index_context() as c:
        Nu, Nv, nt = c.size("Nu", 1), c.size("Nv", 1), c.size("nt", 1)
        size = Nu * Nv * nt
        data = SArr.input("data", (size,), tm.REAL)
        saved = CD.replace
        CD.replace = lambda obj, **kw: kw
        try:
            with sarr.mode_i([CD]):
                coo = CD.COOData.__new__(CD.COOData)
                coo.indices, coo.data, coo.shape, coo.local_shape = None, data, None, (Nv, Nu)
                local = coo.tolocal()
                back = coo.fromlocal(local)["data"]
        finally:
            CD.replace = saved
        k, i, j = c.skolem("k", 0, nt.t), c.skolem("i", 0, Nv.t), c.skolem("j", 0, Nu.t)
        p = tm.add(tm.mul(tm.add(tm.mul(j.t, Nv.t), i.t), nt.t), k.t)
        got = local.get((k.t, i.t, j.t))
        hy = c.all_hyps()
        from props.C01 import lemma_block_unique, lemma_pair_unique
        # the extent computed by reshape(.., -1): q*(Nu*Nv) == Nu*Nv*nt  =>  q == nt
        qs = [n for n in tm.subterms(tm.and_(*hy)) if n.op == "var" and n.args[0].startswith("extent!")]
        for q in qs:
            hy.append(tm.implies(tm.and_(tm.lt(C(0), tm.mul(Nu.t, Nv.t)), tm.eq(tm.mul(q, tm.mul(Nu.t, Nv.t)), tm.mul(tm.mul(Nu.t, Nv.t), nt.t))), tm.eq(q, nt.t)))
            hy.append(tm.lt(C(0), tm.mul(Nu.t, Nv.t)))
        ctx.prove("coodata/tolocal/bilinear/shape", ft, tm.and_(tm.eq(sarr._t(local.shape[0]), nt.t), tm.eq(sarr._t(local.shape[1]), Nv.t), tm.eq(sarr._t(local.shape[2]), Nu.t)),
                  hyps=hy, clause="tolocal().shape == (nt, Nv, Nu)   (rows = test functions)")
        ctx.prove("coodata/tolocal/bilinear/entries", ft, tm.eq(got, data.get((p,))), hyps=hy,
                  clause="tolocal()[k, i, j] == data[(j*Nv + i)*nt + k]  (the triplet of trial j, test i, cell k: contract COO-B)",
                  replay=dict(kind="blocks"))
        r = c.skolem("r", 0, size.t)
        sarr.hint_radix((Nu.t, Nv.t, nt.t), (j.t, i.t, k.t))
        ctx.prove("coodata/fromlocal/bilinear/roundtrip-at-triplets", ff, tm.eq(back.get((p,)), data.get((p,))), hyps=c.all_hyps() + hy,
                  clause="fromlocal(tolocal()).data[p] == data[p] at every triplet position p = (j*Nv+i)*nt+k", replay=dict(kind="blocks"))
        ctx.prove("coodata/fromlocal/bilinear/size", ff, tm.eq(sarr._t(back.shape[0]), size.t), hyps=c.all_hyps() + hy, clause="same number of triplets")
        del r, lemma_block_unique, lemma_pair_unique
    # linear
    with sarr.index_context() as c:
        Nv, nt = c.size("Nv", 1), c.size("nt", 1)
        data = SArr.input("data", (Nv * nt,), tm.REAL)
        saved = CD.replace
        CD.replace = lambda obj, **kw: kw
        try:
            with sarr.mode_i([CD]):
                coo = CD.COOData.__new__(CD.COOData)
                coo.indices, coo.data, coo.shape, coo.local_shape = None, data, None, (Nv,)
                local = coo.tolocal()
                back = coo.fromlocal(local)["data"]
        finally:
            CD.replace = saved
        k, i = c.skolem("k", 0, nt.t), c.skolem("i", 0, Nv.t)
        p = tm.add(tm.mul(i.t, nt.t), k.t)
        hy = c.all_hyps()
        qs = [n for n in tm.subterms(tm.and_(*hy)) if n.op == "var" and n.args[0].startswith("extent!")]
        for q in qs:
            hy.append(tm.implies(tm.and_(tm.lt(C(0), Nv.t), tm.eq(tm.mul(q, Nv.t), tm.mul(Nv.t, nt.t))), tm.eq(q, nt.t)))
        ctx.prove("coodata/tolocal/linear/entries", ft, tm.eq(local.get((k.t, i.t)), data.get((p,))), hyps=hy, clause="tolocal()[k, i] == data[i*nt + k]")
        sarr.hint_radix((Nv.t, nt.t), (i.t, k.t))
        ctx.prove("coodata/fromlocal/linear/roundtrip", ff, tm.eq(back.get((p,)), data.get((p,))), hyps=c.all_hyps() + hy, clause="fromlocal(tolocal()).data == data")
    # local_shape None raises
    coo = CD.COOData(np.zeros((2, 1), dtype=int), np.zeros(1), (2, 2), None)
    try:
        coo.tolocal()
        ok = False
    except NotImplementedError:
        ok = True
    ctx.fact("coodata/tolocal/no-local-shape-raises", ft, ok, "tolocal() without local_shape must raise NotImplementedError", backend="path-execution")


UNITS["coodata"] = coodata


def _two_cell_mesh(refname):
    import skfem as fem
    return {"RefLine": lambda: fem.MeshLine(np.array([0., .4, 1.])), "RefTri": lambda: fem.MeshTri(),
            "RefQuad": lambda: fem.MeshQuad.init_tensor(np.array([0., .5, 1.]), np.array([0., 1.])),
            "RefTet": lambda: fem.MeshTet(np.array([[0., 1, 0, 0, 1], [0, 0, 1, 0, 1], [0, 0, 0, 1, 1]]), np.array([[0, 1], [1, 2], [2, 3], [3, 4]])),
            "RefHex": lambda: fem.MeshHex.init_tensor(np.array([0., .5, 1.]), np.array([0., 1.]), np.array([0., 1.]))}[refname]()


def _decode(e):
    """(component, local index) of every local basis function."""
    import skfem as fem
    nb = int(e._bfun_counts().sum())
    if isinstance(e, fem.ElementComposite):
        return [tuple(int(v) for v in e._deduce_bfun(i)) for i in range(nb)]
    return [(i % e.dim, i // e.dim) for i in range(nb)]


def split_check(ctx, fn, label, m, e):
    import skfem as fem
    try:
        basis = fem.CellBasis(m, e, intorder=2)
        ix = basis.split_indices()
        sb = basis.split_bases()
    except Exception as ex:
        ctx.fact("split/%s" % label, fn, False, "raised %s: %s" % (type(ex).__name__, ex), backend="exhaustive-execution")
        return
    dec = _decode(e)
    ok, det = True, ""
    if len(ix) != len(sb):
        ok, det = False, "%d index lists, %d component bases" % (len(ix), len(sb))
    allix = np.concatenate(ix) if ix else np.array([])
    if ok and (sorted(allix.tolist()) != list(range(basis.N))):
        ok, det = False, "the component index lists do not partition [0, N)"
    if ok:
        for i, (n, ind) in enumerate(dec):
            want = ix[n][sb[n].element_dofs[ind]]
            if not np.array_equal(basis.element_dofs[i], want):
                ok, det = False, "local function %d (component %d, local %d): element_dofs %s but split_indices()[%d][component numbering] %s" % (
                    i, n, ind, basis.element_dofs[i].tolist(), n, want.tolist())
                break
    if ok:
        for b2 in sb:
            if b2.mesh is not basis.mesh or not np.array_equal(b2.X, basis.X) or not np.array_equal(b2.W, basis.W):
                ok, det = False, "a component basis does not share mesh / quadrature"
    ctx.fact("split/%s" % label, fn, ok, det,
             clause="element_dofs[i,k] == split_indices()[n][split_bases()[n].element_dofs[ind,k]] for (n, ind) = decode(i); index lists partition [0,N)",
             backend="exhaustive-execution", replay=dict(kind="blocks"))


def split_unit(refname):
    def run(ctx):
        import skfem as fem
        fn = ctx.function(fem.CellBasis.split_indices)
        ctx.function(fem.CellBasis.split_bases)
        m = _two_cell_mesh(refname)
        els = [l for l, c, a in catalog.reference_elements() if c.refdom.__name__ == refname and "Skeleton" not in l]
        n = 0
        for l in els:
            try:
                ev = fem.ElementVector(catalog.make(l))
            except Exception:
                continue
            split_check(ctx, fn, "ElementVector(%s)" % l, m, ev)
            n += 1
        for l1, l2 in itertools.product(els, repeat=2):
            split_check(ctx, fn, "%s*%s" % (l1, l2), m, catalog.make(l1) * catalog.make(l2))
            n += 1
        for l1, l2, l3 in list(itertools.product(els[:3], els[-3:], els[2:4])):
            split_check(ctx, fn, "%s*%s*%s" % (l1, l2, l3), m, catalog.make(l1) * catalog.make(l2) * catalog.make(l3))
        for l1, l2 in list(itertools.product(els[:4], els[-4:])):
            try:
                split_check(ctx, fn, "Vector(%s)*%s" % (l1, l2), m, fem.ElementVector(catalog.make(l1)) * catalog.make(l2))
            except Exception as ex:
                ctx.notes.append("Vector(%s)*%s: %s" % (l1, l2, ex))
        ctx.fact("split/%s/nonvacuous" % refname, fn, n > 0, "no elements on %s" % refname)
    return run


for _r in ("RefLine", "RefTri", "RefQuad", "RefTet", "RefHex"):
    UNITS["split/" + _r] = split_unit(_r)


def composite_basis(ctx):
    """CompositeBasis of n >= 2 bases: element_dofs, N, Nbfun, split and interpolate use the SAME cumulative offsets (all sizes; n = 2, 3, 4)"""
    import skfem.assembly.basis.composite_basis as CBm
    fn = ctx.function(CBm.CompositeBasis.element_dofs.fget)
    for nb in (2, 3, 4):
        for equal in (False, True):
            with sarr.index_context() as c:
                nt = c.size("nt", 1)

                class B:
                    pass
                bases = []
                for k in range(nb):
                    b = B()
                    b.Nbfun, b.N = c.size("Nb%d" % k, 1), c.size("N%d" % k, 1)
                    b.element_dofs = SArr.input("dofs%d" % k, (b.Nbfun, nt), lo=0, hi=b.N)
                    b.W = [0., 1.]
                    b.elem = None
                    bases.append(b)
                with sarr.mode_i([CBm]):
                    cb = CBm.CompositeBasis(*bases, equal_dofnum=equal)
                    ed = cb.element_dofs
                    N, Nbf = cb.N, cb.Nbfun
                pre = "composite/n%d/%s" % (nb, "equal-dofnum" if equal else "stacked")
                k_ = c.skolem("k", 0, nt.t)
                off, row = C(0), C(0)
                for j, b in enumerate(bases):
                    r = c.skolem("r%d" % j, 0, b.Nbfun.t)
                    ctx.prove("%s/block%d" % (pre, j), fn, tm.eq(ed.get((tm.add(row, r.t), k_.t)), tm.add(b.element_dofs.get((r.t, k_.t)), off)), hyps=c.all_hyps(),
                              clause="element_dofs[sum_{i<%d} Nbfun_i + r, k] == bases[%d].element_dofs[r, k] + %s" % (j, j, "0 (equal_dofnum)" if equal else "sum_{i<%d} N_i" % j),
                              replay=dict(kind="blocks"))
                    row = tm.add(row, b.Nbfun.t)
                    if not equal:
                        off = tm.add(off, b.N.t)
                ctx.prove(pre + "/sizes", ctx.function(CBm.CompositeBasis.N.fget), tm.and_(tm.eq(sarr._t(N), bases[0].N.t if equal else off), tm.eq(sarr._t(Nbf), row), tm.eq(sarr._t(ed.shape[0]), row)),
                          hyps=c.all_hyps(), clause="N == sum of the components' N (or N_0 with equal_dofnum), Nbfun == sum Nbfun_i == element_dofs.shape[0]")
    # split / interpolate offsets (executed: concrete sizes, all n)
    fs = ctx.function(CBm.CompositeBasis.split)
    for nb in (2, 3, 4):
        class B2:
            def __init__(self, n):
                self.N, self.Nbfun, self.W, self.elem = n, 1, [0.], None
                self.element_dofs = np.zeros((1, 2), dtype=int)

            def interpolate(self, x):
                return ("interp", self.N, tuple(x.tolist()))
        bs = [B2(n) for n in (3, 1, 4, 2)[:nb]]
        cb = CBm.CompositeBasis(*bs)
        x = np.arange(float(sum(b.N for b in bs)))
        parts = cb.split(x)
        offs = np.concatenate([[0], np.cumsum([b.N for b in bs])])
        ok = len(parts) == nb and all(np.array_equal(parts[i][0], x[offs[i]:offs[i + 1]]) and parts[i][1] is bs[i] for i in range(nb))
        it = cb.interpolate(x)
        ok &= it == tuple(("interp", bs[i].N, tuple(x[offs[i]:offs[i + 1]].tolist())) for i in range(nb))
        ctx.fact("composite/n%d/split-interpolate" % nb, fs, bool(ok), "split / interpolate do not cut the coefficient vector at the cumulative sizes", clause="split(x)[i] == (x[off_i:off_{i+1}], bases[i]); interpolate alike",
                 backend="path-execution", replay=dict(kind="blocks"))


UNITS["composite-basis"] = composite_basis


def standin_blocks(ctx):
    import time
    from skv import core
    t0 = time.time()
    r = core.run_native("standin_blocks.py", dict(seed=ctx.seed, tier=ctx.tier), timeout=3000)
    ctx.standin("block/split/asm/COOData numerical agreement on composite and vector bases", r["bound"], r["cases"], r["failures"], samples=r["samples"],
                time_s=time.time() - t0)


UNITS["standin/blocks"] = standin_blocks
HEAVY_FIRST = ["standin/blocks", "split/RefTri", "split/RefTet", "split/RefHex"]
