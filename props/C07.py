"""C07 — DOF lookup returns exactly the DOFs that control the selected entities.

contract  Dofs._dofnames_to_rows(names, skip)                       (finite family E: every exported element, ElementVector(e), ElementDG(e)
                                                                      and every ordered pair e1*e2 on a common reference cell)
  ensures   NAMES   row r of kind kappa is selected iff the SEMANTIC name of that DOF (component it belongs to, its name inside the component)
                    is in `names` (xor skip); the layout every producer of `dofnames` uses (nodal, facet, edge, interior) is the one the
                    lookup reads — checked by executing the real constructors and the real lookup against _deduce_bfun / the vector decode
contract  DofsView._intersect / keep / drop / all                   (E over the slice/array case table; filters compose by intersection)
contract  Dofs.get_facet_dofs / get_element_dofs / get_vertex_dofs, Mesh._expand_facets, f2e, normalize_facets/elements/nodes,
          AbstractBasis.get_dofs / complement_dofs                  CLOSURE, SELECTORS, BOUNDARY, COMPLEMENT, TRACE, HISTORY clauses
          evaluated on the real code over the mesh zoo x element list (bounded stand-in)
"""
from __future__ import annotations

import itertools

import numpy as np

from contracts import catalog

LEVEL = "proof"
EXPLANATION = ("Name filtering decided exhaustively over every exported element, wrapper and ordered composite pair by executing the real "
               "constructors and lookups; closure/selector/boundary/complement/trace clauses on concrete meshes are bounded (zoo).")
ASSUMPTIONS = [
    "set-operation semantics of np.intersect1d / setdiff1d / unique (NumPy)",
    "closure over sub-entities, selector equivalence, boundary, complement and trace support are decided on the enumerated mesh zoo (bounded)",
]
TRUSTED = ["semantic-name oracle: component decode via ElementComposite._deduce_bfun (proved in C09 wrap units) and i div/mod dim for ElementVector"]
UNITS = {}


class _Topo:
    """minimal mesh stand-in: two entities of every kind (enough to make every row of every table distinct)."""

    def __init__(self, rd):
        self.nvertices = rd.nnodes + 1
        self.nedges = max(rd.nedges, 1) + 1
        self.nfacets = rd.nfacets + 1
        self.nelements = 2
        self.t = np.vstack([np.arange(rd.nnodes), np.arange(rd.nnodes) + 1]).T
        self.t2e = np.vstack([np.arange(rd.nedges), np.arange(rd.nedges) + 1]).T if rd.nedges else None
        self.t2f = np.vstack([np.arange(rd.nfacets), np.arange(rd.nfacets) + 1]).T
        self._dim = rd.dim()

    def dim(self):
        return self._dim


def semantic_local_names(e):
    import skfem as fem
    if isinstance(e, fem.ElementComposite):
        subs = [semantic_local_names(x) for x in e.elems]
        out = []
        for i in range(int(e._bfun_counts().sum())):
            n, ind = e._deduce_bfun(i)
            out.append("%s^%d" % (subs[int(n)][int(ind)], int(n) + 1))
        return out
    if isinstance(e, fem.ElementVector):
        sub = semantic_local_names(e.elem)
        return ["%s^%d" % (sub[i // e.dim], i % e.dim + 1) for i in range(len(sub) * e.dim)]
    if isinstance(e, fem.ElementDG):
        return semantic_local_names(e.elem)
    return [x[3] for x in catalog.local_dofs(e)]


def names_check(ctx, fn, label, e):
    """the names the lookup attaches to every row of element_dofs == the semantic names."""
    import skfem.assembly.dofs as D
    rd = e.refdom
    try:
        d = D.Dofs(_Topo(rd), e)
    except Exception as ex:
        if "_Topo" in str(ex):
            # the stub topology lacks something Dofs now reads: a limit of this harness, not a refutation
            raise
        ctx.fact("names/%s/dofs" % label, fn, False, "Dofs raised %s: %s" % (type(ex).__name__, ex))
        return
    sem = semantic_local_names(e)
    nb = d.element_dofs.shape[0]
    if len(sem) != nb or any(s is None for s in sem):
        ctx.fact("names/%s/count" % label, fn, False, "dofnames do not cover the %d local basis functions (%d names)" % (nb, len([s for s in sem if s is not None])),
                 clause="every local basis function has a DOF name")
        return
    # name of each global DOF of cell 0 by the semantic oracle
    sem_of = {int(d.element_dofs[i, 0]): sem[i] for i in range(nb)}
    allnames = sorted(set(sem))
    ok_all = True
    detail = ""
    for nm in allnames:
        for skip in (False, True):
            r = d._dofnames_to_rows([nm], skip=skip)
            got = set()
            for tab, rows in zip((d.nodal_dofs, d.facet_dofs, d.edge_dofs, d.interior_dofs), r):
                if tab.size:
                    got |= set(int(g) for g in np.asarray(tab)[rows].ravel())
            got &= set(sem_of)
            want = set(g for g, s in sem_of.items() if (s == nm) != skip)
            if got != want:
                ok_all = False
                detail = "name %r (skip=%s): lookup selects %d DOFs of the cell, %d carry that name semantically" % (nm, skip, len(got), len(want))
                break
        if not ok_all:
            break
    ctx.fact("names/%s" % label, fn, ok_all, detail,
             clause="_dofnames_to_rows([name], skip) selects exactly the DOFs whose component/kind/local name is `name` (xor skip), for every name of the element",
             replay=dict(kind="dofnames", label=label), backend="exhaustive-execution")
    # string argument == one-element list
    if allnames:
        a, b = d._dofnames_to_rows(allnames[0]), d._dofnames_to_rows([allnames[0]])
        same = all((isinstance(x, slice) and isinstance(y, slice) and x == y) or (not isinstance(x, slice) and not isinstance(y, slice) and np.array_equal(x, y))
                   for x, y in zip(a, b))
        ctx.fact("names/%s/string-argument" % label, fn, same, "a bare string must mean a one-element list")


def names_exported(ctx):
    import skfem as fem
    import skfem.assembly.dofs as D
    fn = ctx.function(D.Dofs._dofnames_to_rows)
    ctx.function(fem.ElementVector.__init__)
    ctx.function(fem.ElementDG.__init__)
    for label, cls, args in catalog.reference_elements() + catalog.global_elements():
        if "Skeleton" in label:
            continue
        e = catalog.make(label)
        names_check(ctx, fn, label, e)
        if hasattr(e, "lbasis") or True:
            try:
                names_check(ctx, fn, "ElementVector(%s)" % label, fem.ElementVector(catalog.make(label)))
            except Exception as ex:
                ctx.notes.append("ElementVector(%s) not constructible: %s" % (label, ex))
        if catalog.family(cls) != "ElementGlobal":
            names_check(ctx, fn, "ElementDG(%s)" % label, fem.ElementDG(catalog.make(label)))


UNITS["names/exported"] = names_exported


def names_pairs(refname):
    def run(ctx):
        import skfem as fem
        import skfem.assembly.dofs as D
        fn = ctx.function(D.Dofs._dofnames_to_rows)
        fc = ctx.function(fem.ElementComposite.__init__)
        els = [(l, c, a) for l, c, a in catalog.reference_elements() + catalog.global_elements() if c.refdom.__name__ == refname and "Skeleton" not in l]
        n = 0
        for (l1, _, _), (l2, _, _) in itertools.product(els, repeat=2):
            e = catalog.make(l1) * catalog.make(l2)
            names_check(ctx, fn, "%s*%s" % (l1, l2), e)
            n += 1
        # a few triples and nested vector/composite mixtures
        for (l1, _, _), (l2, _, _), (l3, _, _) in list(itertools.product(els[:4], els[-3:], els[1:3])):
            names_check(ctx, fn, "%s*%s*%s" % (l1, l2, l3), catalog.make(l1) * catalog.make(l2) * catalog.make(l3))
        for (l1, _, _), (l2, _, _) in list(itertools.product(els[:5], els[-4:])):
            try:
                names_check(ctx, fn, "Vector(%s)*%s" % (l1, l2), fem.ElementVector(catalog.make(l1)) * catalog.make(l2))
            except Exception as ex:
                ctx.notes.append("Vector(%s)*%s: %s" % (l1, l2, ex))
        ctx.fact("names/pairs/%s/nonvacuous" % refname, fc, n > 0, "no element pairs on %s" % refname)
    return run


for _r in ("RefLine", "RefTri", "RefQuad", "RefTet", "RefHex"):
    UNITS["names/pairs/" + _r] = names_pairs(_r)


def view_algebra(ctx):
    """DofsView._intersect case table and filter composition on a real view."""
    import skfem as fem
    import skfem.assembly.dofs as D
    fi = ctx.function(D.DofsView._intersect)
    v = D.DofsView()
    EMPTY, ALL = slice(0, 0), slice(None)
    A, B = np.array([0, 2, 3]), np.array([2, 3, 5])
    table = [(EMPTY, ALL, "empty"), (ALL, EMPTY, "empty"), (EMPTY, A, "empty"), (A, EMPTY, "empty"), (ALL, ALL, "all"), (ALL, A, A), (A, ALL, A),
             (A, B, np.array([2, 3])), (EMPTY, EMPTY, "empty")]
    for k, (a, b, want) in enumerate(table):
        got = v._intersect(a, b)
        if isinstance(want, str):
            ok = isinstance(got, slice) and ((got.start == 0 and got.stop == 0) if want == "empty" else got == slice(None))
        else:
            ok = not isinstance(got, slice) and np.array_equal(got, want)
        ctx.fact("view/intersect/case%d" % k, fi, bool(ok), "_intersect(%r, %r) = %r, expected %r" % (a, b, got, want),
                 clause="slice(0,0) = empty and slice(None) = all are neutral/absorbing for the row intersection")
    m = fem.MeshTri().refined(1)
    basis = fem.Basis(m, fem.ElementTriArgyris())
    fk = ctx.function(D.DofsView.keep)
    fd = ctx.function(D.DofsView.drop)
    fa = ctx.function(D.DofsView.all)
    view = basis.get_dofs()
    names = sorted(set(basis.elem.dofnames))
    base = set(view.flatten().tolist())
    sel = {n: set(view.all(n).tolist()) for n in names}
    ctx.fact("view/partition-by-name", fa, set().union(*sel.values()) == base and sum(len(s) for s in sel.values()) == len(base),
             "the name classes must partition the view")
    for a, b in itertools.permutations(names[:4], 2):
        ctx.fact("view/keep-keep/%s-%s" % (a, b), fk, len(view.keep([a]).keep([b]).flatten()) == 0, "keep(a).keep(b) must be empty for a != b")
        ctx.fact("view/drop-keep/%s-%s" % (a, b), fd, set(view.drop([a]).keep([a, b]).flatten().tolist()) == sel[b],
                 "drop(a).keep([a,b]) must equal the DOFs named b (a dropped name must not come back)", clause="filters compose by intersection",
                 replay=dict(kind="dofnames", label="view-algebra"))
        ctx.fact("view/skip-keep/%s-%s" % (a, b), fk, set(basis.get_dofs(skip=[a]).keep([a, b]).flatten().tolist()) == sel[b],
                 "get_dofs(skip=[a]).keep([a,b]) must equal the DOFs named b", clause="filters compose by intersection",
                 replay=dict(kind="dofnames", label="view-algebra"))
        ctx.fact("view/keep-union/%s-%s" % (a, b), fk, set(view.keep([a, b]).flatten().tolist()) == sel[a] | sel[b], "keep([a,b]) must be the union")
    ctx.fact("view/all-none", fa, np.array_equal(view.all(), view.flatten()), "all() == flatten()")


UNITS["view/algebra"] = view_algebra


def standin_dofquery(ctx):
    import time
    from skv import core
    t0 = time.time()
    r = core.run_native("standin_dofquery.py", dict(seed=ctx.seed, tier=ctx.tier), timeout=3000)
    ctx.standin("CLOSURE / SELECTORS / BOUNDARY / COMPLEMENT / NAMES / TRACE / HISTORY on the real Basis.get_dofs over the mesh zoo x element list",
                r["bound"], r["cases"], r["failures"], samples=r["samples"], time_s=time.time() - t0)


UNITS["standin/dofquery"] = standin_dofquery
HEAVY_FIRST = ["standin/dofquery", "names/pairs/RefTri", "names/pairs/RefTet"]
