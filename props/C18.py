"""C18 — mesh surgery keeps geometry valid and carries tags to the same entities.

contract  Mesh._reix(ix)                                         (REIX; Mode I: all sizes symbolic; np.unique + scatter axioms)
  requires  ix in [0, nverts)^(r x n)
  ensures   ixuniq ascending distinct, p' = p[:, ixuniq];  p'[:, t'[r,k]] == p[:, ix[r,k]]  (new connectivity names the same points);
            0 <= t'[r,k] < len(ixuniq); the renumbering is strictly monotone: ix[a] < ix[b] => t'[a] < t'[b] (ENT-MONO: relative entity
            order preserved) and onto [0, len(ixuniq))  (no unused vertex)
contract  Mesh.mirrored(normal, point) / translated / scaled      (Mode P: generic vertex, symbolic normal/point/factors)
  ensures   translated: x' = x + d; scaled: x'_i = f_i x_i; mirrored: x' = x - 2 (n.(x - p0)) n/|n|^2, an isometry
            (|x' - y'|^2 == |x - y|^2), involutive, fixing the mirror plane; connectivity and tags untouched
bounded   restrict / remove_elements / remove_unused_nodes / remove_duplicate_nodes / + / @ / to_meshtri / to_meshtet / * / mirrored /
          translated / scaled / morphed / oriented / trace chains (<= 3 operations) on the mesh zoo with tags; VALID, MEASURE, CELLS, RANGE,
          SUBDOMAINS, BOUNDARIES, MAPPING, COORDINATES, ORIENTED, SPLIT, PARTITION, CONFORMING, JOIN, MATMUL, EXTRUDE, TRACE (stand-in)
"""
from __future__ import annotations

from fractions import Fraction

import numpy as np

from skv import pmode, poly, sarr
from skv import term as tm
from skv.sarr import SArr
from skv.term import S

LEVEL = "proof"
EXPLANATION = ("_reix (the renumbering core of restrict/trace/remove_unused_nodes) proved for all sizes; the affine operations proved for all "
               "coordinates; whole-mesh surgery and tag carry-over decided on the enumerated zoo with chains of operations (bounded).")
ASSUMPTIONS = [
    "np.unique (sorted distinct values) and scatter-store axioms",
    "`+` rounds coordinates to 8 decimals before merging (documented behaviour, part of the contract)",
    "whole-mesh clauses bounded (zoo, chains of <= 3 operations)",
]
TRUSTED = ["NumPy model skv/sarr.py", "independent geometric model inside native/standin_surgery.py"]
UNITS = {}
C = tm.const


class _Self:
    def __init__(self, p):
        self.p = p


def reix(ctx):
    import skfem.mesh.mesh as M
    fn = ctx.function(M.Mesh._reix)
    for rows in (1, 2, 3):
        with sarr.index_context() as c:
            nv, n, d = c.size("nverts", 1), c.size("n", 1), 2
            p = SArr.input("p", (d, nv), tm.REAL)
            ix = SArr.input("ix", (rows, n), lo=0, hi=nv) if rows > 1 else SArr.input("ix", (n,), lo=0, hi=nv)
            with sarr.mode_i([M]):
                pn, tn, ixu = M.Mesh._reix(_Self(p), ix)
            pre = "reix/rows%d" % rows
            k, k2 = c.skolem("k", 0, n.t), c.skolem("k2", 0, n.t)
            m = c.skolem("m", 0, sarr._t(ixu.shape[0]))
            m2 = c.skolem("m2", 0, sarr._t(ixu.shape[0]))
            nu = sarr._t(ixu.shape[0])
            r0 = C(0)
            idx = (lambda r, kk: (C(r), kk)) if rows > 1 else (lambda r, kk: (kk,))
            # reads first (register instances), then hypotheses
            tv = tn.get(idx(0, k.t))
            tv2 = tn.get(idx(rows - 1, k2.t))
            pv = [pn.get((C(a), tv)) for a in range(d)]
            # hints: the unique() membership axiom at the flat positions of the two entries the goals talk about
            if hasattr(ixu, "unique_of"):
                sarr.hint_unique(ixu, k.t)
                sarr.hint_unique(ixu, tm.add(tm.mul(C(rows - 1), n.t), k2.t))
            hy = c.all_hyps()
            ctx.prove(pre + "/range", fn, tm.and_(tm.le(C(0), tv), tm.lt(tv, nu)), hyps=hy, clause="0 <= t'[r,k] < len(ixuniq)")
            ctx.prove(pre + "/same-points", fn, tm.and_(*[tm.eq(pv[a], p.get((C(a), ix.get(idx(0, k.t))))) for a in range(d)]), hyps=hy,
                      clause="p'[:, t'[r,k]] == p[:, ix[r,k]]", replay=dict(kind="surgery"))
            ctx.prove(pre + "/ixuniq-sorted", fn, tm.implies(tm.lt(m.t, m2.t), tm.lt(ixu.get((m.t,)), ixu.get((m2.t,)))), hyps=hy, clause="ixuniq strictly ascending")
            ctx.prove(pre + "/monotone", fn, tm.implies(tm.lt(ix.get(idx(0, k.t)), ix.get(idx(rows - 1, k2.t))), tm.lt(tv, tv2)), hyps=hy,
                      clause="ix[a] < ix[b] => t'[a] < t'[b]  (strictly monotone renumbering)", replay=dict(kind="surgery"))
            ctx.prove(pre + "/points-are-selected", fn, tm.and_(*[tm.eq(pn.get((C(a), m.t)), p.get((C(a), ixu.get((m.t,))))) for a in range(d)]), hyps=hy,
                      clause="p' == p[:, ixuniq]")
            del r0


UNITS["reix"] = reix


def join(ctx):
    """contract Mesh.__add__(other): points = hstack(round8(self.p), round8(other.p)); cells = self's cells followed by other's cells with
    vertex numbers shifted by the NUMBER OF POINTS of self (not by the number of used vertices), then duplicate points are merged."""
    import skfem.mesh.mesh as M
    fn = ctx.function(M.Mesh.__add__)
    with sarr.index_context() as c:
        n1, n2, t1n, t2n = c.size("np1", 1), c.size("np2", 1), c.size("nt1", 1), c.size("nt2", 1)
        used1 = c.size("nvertices1", 1)
        c.add(tm.le(used1.t, n1.t))                # vertices actually used by cells may be fewer than points

        class Stub:
            def __init__(self, p, t):
                self.p, self.t = p, t
                self.doflocs = p

            nvertices = None
            _remove_duplicate_nodes = staticmethod(lambda p, t: (p, t))

        a = Stub(SArr.input("p1", (2, n1), tm.REAL), SArr.input("t1", (3, t1n), lo=0, hi=n1))
        a.nvertices = used1
        b = Stub(SArr.input("p2", (2, n2), tm.REAL), SArr.input("t2", (3, t2n), lo=0, hi=n2))
        b.nvertices = c.size("nvertices2", 1)
        with sarr.mode_i([M]):
            r = M.Mesh.__add__(a, b)
        k, k2 = c.skolem("k", 0, t1n.t), c.skolem("k2", 0, t2n.t)
        v1, v2 = c.skolem("v1", 0, n1.t), c.skolem("v2", 0, n2.t)
        hy = c.all_hyps()
        for row in range(3):
            ctx.prove("join/cells-of-self/row%d" % row, fn, tm.eq(r.t.get((C(row), k.t)), a.t.get((C(row), k.t))), hyps=hy, clause="t[:, k] == self.t[:, k]")
            ctx.prove("join/cells-of-other/row%d" % row, fn, tm.eq(r.t.get((C(row), tm.add(t1n.t, k2.t))), tm.add(b.t.get((C(row), k2.t)), n1.t)), hyps=hy,
                      clause="t[:, nt_self + k] == other.t[:, k] + self.p.shape[1]   (shift by the number of POINTS)", replay=dict(kind="surgery"))
        for ax in range(2):
            ctx.prove("join/points-of-self/axis%d" % ax, fn, tm.eq(r.p.get((C(ax), v1.t)), tm.app("round8", tm.REAL, a.p.get((C(ax), v1.t)))), hyps=hy, clause="p[:, v] == round(self.p[:, v], 8)")
            ctx.prove("join/points-of-other/axis%d" % ax, fn, tm.eq(r.p.get((C(ax), tm.add(n1.t, v2.t))), tm.app("round8", tm.REAL, b.p.get((C(ax), v2.t)))), hyps=hy,
                      clause="p[:, np_self + v] == round(other.p[:, v], 8)")
        ctx.prove("join/shapes", fn, tm.and_(tm.eq(sarr._t(r.t.shape[1]), tm.add(t1n.t, t2n.t)), tm.eq(sarr._t(r.p.shape[1]), tm.add(n1.t, n2.t))), hyps=hy, clause="nt = nt1 + nt2, np = np1 + np2 before merging")
    try:
        M.Mesh.__add__(a, object())
        ok = False
    except TypeError:
        ok = True
    ctx.fact("join/type-mismatch-raises", fn, ok, "joining different mesh types must raise TypeError", backend="path-execution")


UNITS["join"] = join


def affine_ops(ctx):
    import skfem.mesh.mesh as M
    for d in (1, 2, 3):
        x = pmode.sym_array("x", (d, 2))      # two generic vertices
        dif = [tm.sreal("d%d" % i) for i in range(d)]
        fac = [tm.sreal("f%d" % i) for i in range(d)]

        class Rec:
            pass

        def fake_replace(obj, **kw):
            r = Rec()
            r.kw = kw
            return r
        me = Rec()
        me.doflocs = x
        me.p = x
        me.dim = lambda d=d: d
        saved = M.replace
        M.replace = fake_replace
        try:
            with pmode.symbolic_numpy():
                rt = M.Mesh.translated(me, tuple(dif))
                rs = M.Mesh.scaled(me, tuple(fac))
                nrm = pmode.sym_array("n", (d,))
                p0 = pmode.sym_array("q", (d,))
                # np.linalg.norm on symbols: replace by a symbolic length L with L^2 = n.n
                L = tm.sreal("L")
                import numpy.linalg as LA
                orig_norm = LA.norm
                LA.norm = lambda v, *a, **k: L if np.asarray(v, dtype=object).dtype == object else orig_norm(v, *a, **k)
                try:
                    rm = M.Mesh.mirrored(me, [nrm[i] for i in range(d)], tuple(p0[i] for i in range(d)))
                finally:
                    LA.norm = orig_norm
        finally:
            M.replace = saved
        ft, fs, fm = ctx.function(M.Mesh.translated), ctx.function(M.Mesh.scaled), ctx.function(M.Mesh.mirrored)
        for r, f_, nm in ((rt, ft, "translated"), (rs, fs, "scaled"), (rm, fm, "mirrored")):
            if not hasattr(r, "kw"):
                ctx.unsupported("affine/%s/d%d" % (nm, d), f_, "the operation does not build its result with dataclasses.replace(self, doflocs=...): outside the modelled form")
                continue
            ctx.fact("affine/%s/d%d/only-coordinates-replaced" % (nm, d), f_, set(r.kw) == {"doflocs"}, "replace(...) must change doflocs only (connectivity and tags untouched)",
                     backend="symbolic-execution")
        if not all(hasattr(r, "kw") and "doflocs" in r.kw for r in (rt, rs, rm)):
            continue
        T_, S_, Mi = (np.asarray(r.kw["doflocs"], dtype=object) for r in (rt, rs, rm))
        for v in range(2):
            for i in range(d):
                ctx.prove("affine/translated/d%d/v%d/c%d" % (d, v, i), ft, T_[i, v] == x[i, v] + dif[i], clause="x'_i == x_i + d_i")
                ctx.prove("affine/scaled/d%d/v%d/c%d" % (d, v, i), fs, S_[i, v] == x[i, v] * fac[i], clause="x'_i == f_i x_i")
        hyL = [(L * L == sum(nrm[i] * nrm[i] for i in range(d))).t, tm.lt(tm.const(Fraction(0), tm.REAL), L.t)]
        # mirrored: explicit formula, isometry, fixes the plane
        for v in range(2):
            dotv = sum(nrm[i] * (x[i, v] - p0[i]) for i in range(d))
            for i in range(d):
                lhs = poly.term_to_rat(tm.lift(Mi[i, v] * L * L))
                rhs = poly.term_to_rat(tm.lift(x[i, v] * L * L - 2 * dotv * nrm[i]))
                ctx.fact("affine/mirrored/d%d/v%d/c%d" % (d, v, i), fm, (lhs - rhs).is_zero(), "mirrored coordinate differs from x - 2 (n.(x-p0)) n / |n|^2",
                         clause="|n|^2 x'_i == |n|^2 x_i - 2 (n.(x - p0)) n_i   (L := |n| symbolic, L^2 = n.n)")
        # isometry: |x0' - x1'|^2 == |x0 - x1|^2 given L^2 = n.n
        lhs = sum((Mi[i, 0] - Mi[i, 1]) * (Mi[i, 0] - Mi[i, 1]) for i in range(d))
        rhs = sum((x[i, 0] - x[i, 1]) * (x[i, 0] - x[i, 1]) for i in range(d))
        ctx.prove("affine/mirrored/d%d/isometry" % d, fm, lhs == rhs, hyps=hyL, clause="|x' - y'|^2 == |x - y|^2 (given L^2 = n.n, L > 0)")
        onplane = (sum(nrm[i] * (x[i, 0] - p0[i]) for i in range(d)) == 0).t
        ctx.prove("affine/mirrored/d%d/fixes-plane" % d, fm, tm.and_(*[(Mi[i, 0] == x[i, 0]).t for i in range(d)]), hyps=hyL + [onplane],
                  clause="n.(x - p0) == 0  =>  x' == x")


UNITS["affine-ops"] = affine_ops


def standin_surgery(ctx):
    import time
    from skv import core
    t0 = time.time()
    r = core.run_native("standin_surgery.py", dict(seed=ctx.seed, tier=ctx.tier), timeout=3000)
    ctx.standin("mesh surgery chains (<= 3 operations) on the mesh zoo with tags", r["bound"], r["cases"], r["failures"], samples=r["samples"], time_s=time.time() - t0)


UNITS["standin/surgery"] = standin_surgery
HEAVY_FIRST = ["standin/surgery"]
