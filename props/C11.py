"""C11 — derived mesh connectivity is coherent with the cell list.

contract  Mesh.build_entities(t, indices, sort=True)          (ENT; Mode I: nt, nverts symbolic; slot tables of every refdom)
  requires  t in [0,nverts)^(nn x nt), nt >= 1
  ensures   RANGE   0 <= mapping[s,k] < ne
            SPANS   entities[:, mapping[s,k]] == sort(t[indices[s], k])            (sort=True)
                    entities[:, m] == t[indices[s0], k0] for the first occurrence (s0,k0) of m   (sort=False: hexahedral facets
                    keep their cyclic vertex order) and sort(entities[:, mapping[s,k]]) == sort(t[indices[s],k])
            ORDER   columns of the sorted entity table are strictly lexicographically increasing (=> each entity once)
            ONTO    every entity number m < ne is mapping[s,k] for some slot and cell
            SAME    mapping[s,k] == mapping[s',k'] <=> sort(t[indices[s],k]) == sort(t[indices[s'],k'])
contract  Mesh.build_inverse(t, mapping)                      (INV) — decided by the bounded stand-in (zoo), see DESIGN
contract  boundary_facets / boundary_nodes / interior_nodes / boundary_edges / interior_edges / p2f / p2t / p2e / e2t / f2e /
          facets_around — relational clauses evaluated on the real mesh classes over the mesh zoo under renumberings
          (bounded stand-in; every clause is relational, hence independent of numbering)
"""
from __future__ import annotations

import numpy as np

from skv import sarr
from skv import term as tm
from skv.sarr import SArr

LEVEL = "proof"
EXPLANATION = ("build_entities proved for all mesh sizes against NumPy's unique/sort contracts (axioms); the remaining derived tables "
               "are decided on the real code over an enumerated mesh zoo with all clauses relational (bounded).")
ASSUMPTIONS = [
    "np.unique(axis=1, return_index, return_inverse): sorted distinct columns, first-occurrence index, inverse map (axiom; cross-checked natively)",
    "np.sort(axis=0) on <= 4 rows is a sorting network (exact)",
    "validity of the mesh (each facet in at most two cells, once per cell) is a precondition of the INV clauses",
]
TRUSTED = ["NumPy model skv/sarr.py"]
UNITS = {}
C = tm.const


def slot_tables():
    from skfem import refdom as R
    out = {}
    for name, rd in (("line", R.RefLine), ("tri", R.RefTri), ("quad", R.RefQuad), ("tet", R.RefTet), ("hex", R.RefHex), ("wedge", R.RefWedge)):
        nn = rd.nnodes
        if rd.facets is not None:
            out[name + "/facets"] = (nn, [list(f) for f in rd.facets], name != "hex")
            if name == "hex":
                out[name + "/facets-sorted"] = (nn, [list(f) for f in rd.facets], True)
        if rd.edges is not None:
            out[name + "/edges"] = (nn, [list(e) for e in rd.edges], True)
    return out


def ent_unit(label):
    def run(ctx):
        import skfem.mesh.mesh as M
        fn = ctx.function(M.Mesh.build_entities, case=label)
        nn, slots, sort = slot_tables()[label]
        with sarr.index_context() as c:
            nt, nv = c.size("nt", 1), c.size("nverts", 1)
            t = SArr.input("t", (nn, nt), lo=0, hi=nv)
            with sarr.mode_i([M]):
                ents, mp = M.Mesh.build_entities(t, slots, sort=sort)
            pre = "ent/%s" % label
            ns, width = len(slots), len(slots[0])
            ne = sarr._t(ents.shape[1])
            ctx.prove(pre + "/shapes", fn, tm.and_(tm.eq(sarr._t(ents.shape[0]), C(width)), tm.eq(sarr._t(mp.shape[0]), C(ns)),
                                                  tm.eq(sarr._t(mp.shape[1]), nt.t), tm.le(C(1), ne)), hyps=c.all_hyps(),
                      clause="entities.shape == (%d, ne), mapping.shape == (%d, nt), ne >= 1" % (width, ns))
            k, k2 = c.skolem("k", 0, nt.t), c.skolem("k2", 0, nt.t)
            m, m2 = c.skolem("m", 0, ne), c.skolem("m2", 0, ne)

            def cell_sorted(s, kk):
                return sarr.sort_network([t.get((C(r), kk)) for r in slots[s]])

            def ent_col(mm, sorted_=True):
                col = [ents.get((C(r), mm)) for r in range(width)]
                return sarr.sort_network(col) if sorted_ else col
            for s in range(ns):
                e = mp.get((C(s), k.t))
                ctx.prove(pre + "/slot%d/range" % s, fn, tm.and_(tm.le(C(0), e), tm.lt(e, ne)), hyps=c.all_hyps(), clause="0 <= mapping[%d,k] < ne" % s)
                want = cell_sorted(s, k.t)
                got = ent_col(e, sorted_=not sort)
                ctx.prove(pre + "/slot%d/spans" % s, fn, tm.and_(*[tm.eq(a, b) for a, b in zip(got, want)]), hyps=c.all_hyps(),
                          clause="%sentities[:, mapping[%d,k]] == sort(t[%s, k])" % ("" if sort else "sort of ", s, slots[s]),
                          replay=dict(kind="ent", case=label))
            # ORDER (on sorted columns)
            if sort:
                ctx.prove(pre + "/order", fn, tm.implies(tm.lt(m.t, m2.t), sarr.lex_lt(ent_col(m.t, False), ent_col(m2.t, False))), hyps=c.all_hyps(),
                          clause="m < m' => entities[:,m] <lex entities[:,m']  (each entity once)", replay=dict(kind="ent", case=label))
            else:
                ctx.prove(pre + "/distinct", fn, tm.implies(tm.ne(m.t, m2.t), tm.not_(tm.and_(*[tm.eq(a, b) for a, b in zip(ent_col(m.t), ent_col(m2.t))]))),
                          hyps=c.all_hyps(), clause="m != m' => vertex sets of entities m and m' differ (each entity once)",
                          replay=dict(kind="ent", case=label))
            # ONTO: witness the first occurrence p = ixa(m)
            uq = getattr(ents, "unique_of", None)
            flat = mp.flatten("C") if True else None
            src = None
            # find the unique() record through the arrays the code returned
            for arr in (ents,):
                if getattr(arr, "unique_of", None):
                    src = arr.unique_of
            if src is None:
                ctx.notes.append('%s: ONTO is proved in the sorted twin case (sort=False returns indexing[:, ixa])' % label)
            else:
                pw = tm.app(src["ixa"], tm.INT, m.t)
                # decode p -> (s, k) with concrete number of slots
                conds = []
                for s in range(ns):
                    inblock = tm.and_(tm.le(tm.mul(C(s), nt.t), pw), tm.lt(pw, tm.mul(C(s + 1), nt.t)))
                    conds.append(tm.and_(inblock, tm.eq(mp.get((C(s), tm.sub(pw, tm.mul(C(s), nt.t)))), m.t)))
                ctx.prove(pre + "/onto", fn, tm.or_(*conds), hyps=c.all_hyps(),
                          clause="every m < ne equals mapping[s,k] for the slot/cell of its first occurrence", replay=dict(kind="ent", case=label))
            # SAME: equal numbers <=> equal vertex sets (two representative slot pairs)
            for s, s2 in {(0, 0), (0, ns - 1), (ns - 1, 0)}:
                e1, e2 = mp.get((C(s), k.t)), mp.get((C(s2), k2.t))
                samev = tm.and_(*[tm.eq(a, b) for a, b in zip(cell_sorted(s, k.t), cell_sorted(s2, k2.t))])
                hy = c.all_hyps()
                ctx.prove(pre + "/same/%d-%d/forward" % (s, s2), fn, tm.implies(tm.eq(e1, e2), samev), hyps=hy,
                          clause="mapping[%d,k] == mapping[%d,k'] => same vertex set" % (s, s2), replay=dict(kind="ent", case=label))
                ctx.prove(pre + "/same/%d-%d/backward" % (s, s2), fn, tm.implies(samev, tm.eq(e1, e2)), hyps=hy,
                          clause="same vertex set => mapping[%d,k] == mapping[%d,k']" % (s, s2), replay=dict(kind="ent", case=label))
            del uq, flat
        # indices=None
        ctx.fact("ent/%s/none" % label, fn, M.Mesh.build_entities(np.zeros((nn, 1), dtype=int), None) == (None, None), "indices=None returns (None, None)",
                 backend="path-execution")
    return run


for _l in slot_tables():
    UNITS["ent/" + _l] = ent_unit(_l)


def standin_connectivity(ctx):
    import time
    from skv import core
    t0 = time.time()
    r = core.run_native("standin_mesh.py", dict(seed=ctx.seed, tier=ctx.tier, what="connectivity"))
    ctx.standin("derived connectivity clauses (ENT, INV, boundary/interior partitions, incidence matrices, f2e, facets_around) on the mesh zoo",
                r["bound"], r["cases"], r["failures"], samples=r["samples"], nontrivial=r.get("nontrivial"), time_s=time.time() - t0)


UNITS["standin/connectivity"] = standin_connectivity


def standin_large(ctx):
    import time
    from skv import core
    t0 = time.time()
    r = core.run_native("standin_mesh.py", dict(seed=ctx.seed, tier=ctx.tier, what="large"))
    ctx.standin("machine-integer probe (outside assumption A2): entity tables of meshes with more than 2**16 randomly numbered vertices",
                r["bound"], r["cases"], r["failures"], samples=r["samples"], time_s=time.time() - t0)


UNITS["standin/large-numbering"] = standin_large
def standin_history(ctx):
    import time
    from skv import core
    t0 = time.time()
    r = core.run_native("standin_mesh.py", dict(what="history", seed=ctx.seed, tier=ctx.tier), timeout=3000)
    ctx.standin("connectivity of the original and of the result after mesh operations on meshes with warm caches (HISTORY)", r["bound"], r["cases"], r["failures"],
                samples=r["samples"], time_s=time.time() - t0)


UNITS["standin/history"] = standin_history


HEAVY_FIRST = ["standin/large-numbering", "standin/connectivity", "ent/hex/edges"]
