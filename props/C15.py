"""C15 — no hidden state: history-independent results, operands never mutated.

Two obligation families (DESIGN.md section 1.5 / C15):

FRAME       `modifies M` for the library's functions.
  * static:  conservative provenance analysis of every function of the working tree (skv/frames.py): each statement that may modify an object
             in place is listed with the roots the object may stem from; obligation per function: every site rooted at an operand (parameter,
             closure cell, module global) is one of the REVIEWED sites of the allow-list below (keyed by function and root, not by line).
             A site outside the list is reported UNDECIDED (the analysis over-approximates) unless the dynamic checks confirm a mutation.
  * symbolic: the Mode I executions of the assemblers / condense / penalize / solve_linear count writes to their symbolic operands (0 writes).
COHERENCE   every cache site: hit(args, state) and state filled from args0  =>  depends(args) == depends(args0)
  * hash_args (key of the isoparametric Jacobian cache): keys of an adversarial family of argument tuples (same bytes, different shape / dtype /
    type) are pairwise distinct; equal values (copies, non-contiguous views) give equal keys          (finite family, exhaustive pairs)
  * MappingIsoparametric.J: second call with arguments that differ only in shape/dtype equals a fresh mapping's result
  * ElementGlobal.V: hit test depends on the mesh;  ElementLinePp / ElementQuadP tables: proved symbolically in C09 (HISTORY clause)
  * solver_* closures: no mutation site rooted at the captured dictionaries (static) + reuse on two systems equals fresh solvers
bounded     FRAME checksums over ~100 operations, HISTORY/ALIAS pool-vs-fresh differential over seeded sequences of 12 operations (stand-in)
"""
from __future__ import annotations

import glob
import itertools
import os

import numpy as np

LEVEL = "other"
EXPLANATION = ("History independence is argued by induction (every operation's result is a function of its arguments and coherent caches, every "
               "operation preserves coherence and leaves operands unchanged); the induction step is decided per cache site (coherence obligations) "
               "and per function (static frame scan + symbolic write counts); unknown state is hunted by a bounded differential stand-in.")
ASSUMPTIONS = [
    "A6: hash() of distinct byte strings / tuples treated as injective",
    "the static frame analysis assumes library calls return fresh objects unless listed as pass-through (skv/frames.py header)",
    "user callbacks are pure",
    "L-C15 (paper lemma): coherent caches + frames => results independent of the call history",
]
TRUSTED = ["skv/frames.py provenance rules", "stand-in digests (native/standin_state.py)"]
UNITS = {}

# reviewed operand-rooted mutation sites of the unchanged tree: (file, function qualname, kind, roots) -> justification
ALLOW = {
    ("assembly/basis/abstract_basis.py", "AbstractBasis.__init__", "store-item", ("param:self",)): "fills self.doflocs created two lines above (fresh np.zeros)",
    ("assembly/dofs.py", "Dofs.__init__", "augassign", ("param:offset",)): "integer parameter rebinding (immutable int)",
    ("assembly/form/bilinear_form.py", "BilinearForm._threaded_kernel", "store-item", ("param:data",)): "worker writes its own block of the output array (C16 WFRAME)",
    ("assembly/form/form.py", "Form._normalize_asm_kwargs", "store-item", ("param:w",)): "normalises the **kwargs dict created by the call (a fresh dict per call)",
    ("element/discrete_field.py", "DiscreteField.__new__", "store-attr", ("param:value",)): "attributes of the new view object",
    ("element/element_global.py", "ElementGlobal._pbasis_init", "store-item", ("param:self",)): "fills self._pbasis created in the same call",
    ("generic_utils.py", "OrientedBoundary.__new__", "store-attr", ("param:indices",)): "attribute of the new view object",
    ("io/meshio.py", "from_meshio", "store-item", ("param:out",)): "documented output list `out`",
    ("io/meshio.py", "to_meshio", "call:update", ("param:cell_data",)): "observation: inserts tag arrays into the caller's cell_data dict (dict operand, not an array)",
    ("io/meshio.py", "to_meshio", "call:update", ("param:point_data",)): "observation: as above for point_data",
    ("io/meshio.py", "to_file", "call:update", ("param:kwargs",)): "**kwargs dict of the call",
    ("mapping/mapping_affine.py", "MappingAffine._init_Ab", "store-item", ("param:self",)): "fills the lazily created self._A/_b (COHERENCE: depends on mesh, tind)",
    ("mapping/mapping_affine.py", "MappingAffine._init_invA", "store-item", ("param:self",)): "fills the lazily created self._invA",
    ("mapping/mapping_affine.py", "MappingAffine._init_boundary_mapping", "store-item", ("param:self",)): "fills the lazily created self._B/_c",
    ("mapping/mapping_isoparametric.py", "MappingIsoparametric.J", "store-item", ("param:self",)): "Jacobian cache (COHERENCE obligation hash_args)",
    ("mesh/mesh.py", "Mesh.from_dict", "store-item", ("param:data",)): "observation: from_dict rewrites/pops keys of the caller's dict (dict operand)",
    ("mesh/mesh.py", "Mesh.from_dict", "call:pop", ("param:data",)): "observation: as above",
    ("mesh/mesh_tet_1.py", "MeshTet1._adaptive_sort_mesh", "call:np.random.seed", ("global:np.random",)): "observation: reseeds the global NumPy RNG (results stay functions of the arguments)",
    ("mesh/mesh_tet_1.py", "MeshTet1._adaptive", "augassign", ("param:self",)): "integer counters nv/nt initialised from self (immutable ints)",
    ("utils.py", "enforce", "store-item", ("param:A",)): "Aout = A if overwrite else A.copy(): writes reach A only when overwriting was requested (E4; dynamic + exhaustive stand-in)",
    ("utils.py", "enforce", "call:setdiag", ("param:A",)): "as above",
    ("utils.py", "penalize", "call:setdiag", ("param:A",)): "as above (proved symbolically in C05 penalize/overwrite-False/operands-untouched)",
    ("utils.py", "condense", "augassign", ("param:A",)): "tuple += tuple rebinding (immutable tuple)",
}

SCOPE = ["assembly", "element", "mapping", "mesh", "io", "utils.py", "generic_utils.py", "helpers.py", "quadrature.py", "refdom.py", "models", "autodiff"]


def static_scan(ctx):
    import skfem
    from skv import frames
    root = os.path.dirname(skfem.__file__)
    files = []
    for sc in SCOPE:
        p = os.path.join(root, sc)
        files += [p] if p.endswith(".py") else sorted(glob.glob(os.path.join(p, "**", "*.py"), recursive=True))
    nfun = nsites = 0
    used = set()
    for f in files:
        rel = os.path.relpath(f, root)
        try:
            res = frames.analyse_file(f)
        except SyntaxError as e:
            ctx.unsupported("frames/static/%s" % rel, rel, "cannot parse: %s" % e)
            continue
        for q, sites in sorted(res.items()):
            nfun += 1
            ops = frames.operand_sites(sites)
            nsites += len(sites)
            bad = []
            for s in ops:
                kind = s.kind.split(":")[0] if s.kind.startswith("store-attr") else s.kind
                key = (rel, q, kind, tuple(sorted(r for r in s.roots if r != "fresh")))
                if key in ALLOW:
                    used.add(key)
                else:
                    bad.append(s)
            fn = "skfem/%s::%s" % (rel, q)
            if bad:
                # over-approximating analysis: an unreviewed site is UNDECIDED here; the dynamic FRAME checks decide whether it is a violation
                ctx.unsupported("frames/static/%s::%s" % (rel, q), fn, "unreviewed in-place modification rooted at an operand: %s" % "; ".join(repr(b) for b in bad[:3]))
            elif ops or q.split(".")[-1] in PUBLIC_OPS:
                ctx.fact("frames/static/%s::%s" % (rel, q), fn, True,
                         clause="modifies: no operand (every in-place site is rooted at objects created in the call%s)" % ("; %d reviewed site(s)" % len(ops) if ops else ""),
                         backend="provenance-analysis")
    ctx.fact("frames/static/nonvacuous", "skv/frames.py", nfun > 400 and nsites > 150, "analysis saw %d functions / %d mutation sites" % (nfun, nsites),
             backend="provenance-analysis")
    ctx.notes.append("static frame scan: %d functions, %d mutation sites, %d reviewed operand-rooted sites" % (nfun, nsites, len(used)))


PUBLIC_OPS = {"with_boundaries", "with_subdomains", "with_defaults", "refined", "_uniform", "_adaptive", "scaled", "translated", "mirrored", "morphed", "smoothed",
              "restrict", "remove_elements", "remove_unused_nodes", "remove_duplicate_nodes", "__add__", "__matmul__", "__mul__", "to_meshtri", "to_meshtet", "oriented",
              "trace", "to_dict", "save_npz", "copy", "from_mesh", "to_meshio", "condense", "enforce", "penalize", "mpc", "solve", "solve_linear", "solve_eigen",
              "assemble", "elemental", "_assemble", "interpolate", "project", "probes", "interpolator", "split", "get_dofs", "F", "invF", "DF", "invDF", "detDF", "G",
              "normals", "tolocal", "fromlocal", "inverse", "dot", "tocsr", "toarray", "todefault", "_reix", "build_entities", "build_inverse", "hash_args"}
UNITS["frames/static"] = static_scan


def solver_closures(ctx):
    """solver factories: the returned closure must not modify the dictionaries it captured."""
    import skfem
    from skv import frames
    path = os.path.join(os.path.dirname(skfem.__file__), "utils.py")
    res = frames.analyse_file(path)
    for q, sites in sorted(res.items()):
        if ".<locals>.solver" not in q:
            continue
        bad = [s for s in sites if any(r.startswith("closure:") for r in s.roots)]
        ctx.fact("frames/solver-closures/%s" % q, "skfem/utils.py::%s" % q, not bad,
                 "the closure modifies captured state: %s" % "; ".join(repr(b) for b in bad[:2]),
                 clause="modifies nothing rooted at a closure cell (per-call options are merged into a per-call dictionary)",
                 backend="provenance-analysis", replay=dict(kind="solver_reuse"))
    ctx.fact("frames/solver-closures/nonvacuous", "skfem/utils.py", sum(1 for q in res if ".<locals>.solver" in q) >= 5, "solver closures not found")


UNITS["frames/solver-closures"] = solver_closures


def hash_args(ctx):
    from skfem.generic_utils import hash_args as H
    fn = ctx.function(H)
    fam = []
    base = np.arange(8, dtype=np.int64)
    for dt in (np.int64, np.int32, np.float64, np.float32, np.uint8, np.bool_):
        raw = np.frombuffer(base.tobytes(), dtype=dt)
        n = raw.size
        shapes = {(n,)}
        for a in range(1, n + 1):
            if n % a == 0:
                shapes.add((a, n // a))
                for b in range(1, n // a + 1):
                    if (n // a) % b == 0:
                        shapes.add((a, b, n // a // b))
        for sh in sorted(shapes)[:12]:
            fam.append(("%s%s" % (np.dtype(dt).name, sh), raw.reshape(sh).copy()))
    fam += [("int64[1]", np.array([1], dtype=np.int64)), ("int32[1,0]", np.array([1, 0], dtype=np.int32)), ("None", None), ("int 1", 1), ("float 1.0", 1.5),
            ("empty-int", np.array([], dtype=np.int64)), ("empty-float", np.array([], dtype=np.float64)), ("zeros(2)", np.zeros(2)), ("zeros(2,1)", np.zeros((2, 1)))]
    keys = {}
    collisions = []
    for (la, a), (lb, b) in itertools.combinations(fam, 2):
        same = (isinstance(a, np.ndarray) and isinstance(b, np.ndarray) and a.shape == b.shape and a.dtype == b.dtype and np.array_equal(a, b)) or (
            not isinstance(a, np.ndarray) and not isinstance(b, np.ndarray) and a == b)
        if (H(0, 1, a, None) == H(0, 1, b, None) or H(0, 1, np.zeros(2), a) == H(0, 1, np.zeros(2), b)) and not same:
            collisions.append((la, lb))
    ctx.fact("coherence/hash_args/distinct", fn, not collisions, "arguments with different shape/dtype/value share a cache key: %s" % collisions[:4],
             clause="hash_args(.., a, ..) == hash_args(.., b, ..) => a and b agree in value, shape and dtype (%d argument pairs)" % (len(fam) * (len(fam) - 1) // 2),
             backend="exhaustive-execution", replay=dict(kind="hash_args"))
    v = np.arange(12.).reshape(3, 4)
    ctx.fact("coherence/hash_args/equal-values", fn, H(v) == H(v.copy()) == H(np.asfortranarray(v)) == H(v[:, :].view()) and H(v[:, ::2]) == H(v[:, ::2].copy()),
             "equal arrays (copy, Fortran order, view, strided) must give equal keys", backend="exhaustive-execution")
    del keys


UNITS["coherence/hash_args"] = hash_args


def jacobian_cache(ctx):
    from skfem.mapping import MappingIsoparametric
    from native import replay_misc as RM
    fn = ctx.function(MappingIsoparametric.J)
    for label, _a, _b, _u in RM.jacobian_cache_sequences():
        ok, det = RM.jacobian_cache_case(label)
        ctx.fact("coherence/jacobian-cache/%s" % label, fn, ok, det, clause="detDF(args2) after detDF(args1) == detDF(args2) on a fresh mapping",
                 backend="path-execution", replay=dict(kind="hash_args", case=label))


UNITS["coherence/jacobian-cache"] = jacobian_cache


def element_global(ctx):
    import skfem as fem
    fn = ctx.function(fem.ElementGlobal.gbasis)
    m1, m2 = fem.MeshTri().refined(1), fem.MeshTri.init_sqsymmetric().refined(2)
    for name in ("ElementTriMorley", "ElementTriArgyris", "ElementTriHermite", "ElementTri15ParamPlate"):
        e = getattr(fem, name)()
        try:
            fem.Basis(m1, e)
            b2 = fem.Basis(m2, e)
            b3 = fem.Basis(m2, getattr(fem, name)())
            ok = all(np.allclose(np.asarray(x[0]), np.asarray(y[0]), rtol=1e-9, atol=1e-9) for x, y in zip(b2.basis, b3.basis))
            det = "" if ok else "basis values on the second mesh differ from a fresh element's"
        except Exception as ex:
            ok, det = False, "raised %s: %s" % (type(ex).__name__, ex)
        ctx.fact("coherence/element-global/%s" % name, fn, ok, det, clause="one element object used on two meshes == a fresh element per mesh",
                 backend="path-execution", replay=dict(kind="element_global", name=name))
    from native import replay_misc as RM
    for name in ("ElementTriMorley", "ElementTriArgyris"):
        ok, det = RM.element_global_dropped_mesh(name, rounds=20)
        ctx.fact("coherence/element-global/%s/dropped-mesh" % name, fn, ok, "" if ok else det,
                 clause="one element object used on a mesh that is then garbage collected, then on a new mesh (possibly at the same address) == a fresh element",
                 backend="path-execution", replay=dict(kind="element_global", name=name, case="dropped-mesh"))
    for name, mk, mm in (("ElementLineHermite", fem.ElementLineHermite, (fem.MeshLine(np.linspace(0, 1, 3)), fem.MeshLine(np.linspace(0, 1, 6)))),
                         ("ElementQuadBFS", fem.ElementQuadBFS, (fem.MeshQuad().refined(1), fem.MeshQuad().refined(2)))):
        e = mk()
        try:
            fem.Basis(mm[0], e)
            b2, b3 = fem.Basis(mm[1], e), fem.Basis(mm[1], mk())
            ok = all(np.allclose(np.asarray(x[0]), np.asarray(y[0]), rtol=1e-9, atol=1e-9) for x, y in zip(b2.basis, b3.basis))
            det = "" if ok else "values differ"
        except Exception as ex:
            ok, det = False, "raised %s: %s" % (type(ex).__name__, ex)
        ctx.fact("coherence/element-global/%s" % name, fn, ok, det, backend="path-execution", replay=dict(kind="element_global", name=name))


UNITS["coherence/element-global"] = element_global


def solver_reuse(ctx):
    from native.replay_misc import solver_reuse_failures
    import skfem.utils as U
    fails = solver_reuse_failures()
    for name in ("solver_iter_pcg", "solver_iter_krylov", "solver_direct_scipy", "solver_iter_cg", "solver_eigen_scipy_sym"):
        mine = [f for f in fails if f.startswith(name + ":")]
        ctx.fact("coherence/solver-reuse/%s" % name, ctx.function(getattr(U, name)), not mine, "; ".join(mine),
                 clause="a reused solver object == a fresh solver object (second system of another size; options of an earlier call)",
                 backend="path-execution", replay=dict(kind="solver_reuse"))


UNITS["coherence/solver-reuse"] = solver_reuse


def table_alias(ctx):
    """results handed out by lbasis must not be overwritten by a later evaluation (no shared buffers)."""
    import skfem as fem
    for name, mk, d in (("ElementLinePp(3)", lambda: fem.ElementLinePp(3), 1), ("ElementQuadP(3)", lambda: fem.ElementQuadP(3), 2), ("ElementLinePp(5)", lambda: fem.ElementLinePp(5), 1)):
        e = mk()
        X1, X2 = np.random.RandomState(0).rand(d, 4), np.random.RandomState(1).rand(d, 4)
        ok = True
        for i in range(3):
            r1 = e.lbasis(X1, i)
            keep = [np.array(a, copy=True) for a in r1]
            e.lbasis(X2, i)
            ok &= all(np.array_equal(a, b) for a, b in zip(r1, keep))
        ctx.fact("coherence/table-alias/%s" % name, ctx.function(type(e).lbasis), bool(ok),
                 "arrays returned by lbasis(X1, i) change when lbasis(X2, i) is evaluated afterwards (shared buffer)",
                 clause="results are not aliased with buffers that later evaluations overwrite", backend="path-execution", replay=dict(kind="table_alias"))


UNITS["coherence/table-alias"] = table_alias


def symbolic_frames(ctx):
    """write counts of the symbolic operands in the Mode I executions (for all sizes)."""
    from props import C01
    from skv import sarr
    import skfem.assembly.form.bilinear_form as BF
    import skfem.assembly.form.linear_form as LF
    for name, mod, cls, nb in (("BilinearForm", BF, "BilinearForm", 2), ("LinearForm", LF, "LinearForm", 1)):
        with sarr.index_context() as c:
            nt, nq = c.size("nt", 1), c.size("nq", 1)
            bases = [C01.StubBasis(c, t, nt, nq) for t in ("u", "v")[:nb]]
            form = C01.FormStub(nt, nq)
            with sarr.mode_i([mod]):
                getattr(mod, cls)(form)._assemble(*bases)
            w = sum(b.element_dofs.writes + b.dx.writes for b in bases)
            ctx.fact("frames/symbolic/%s._assemble" % name, ctx.function(getattr(mod, cls)._assemble), w == 0,
                     "the assembler wrote %d times into basis arrays" % w, clause="modifies: nothing of ubasis/vbasis (element_dofs, dx), all sizes",
                     backend="symbolic-execution")


UNITS["frames/symbolic"] = symbolic_frames


def standin_state(ctx):
    import time
    from skv import core
    t0 = time.time()
    r = core.run_native("standin_state.py", dict(seed=ctx.seed, tier=ctx.tier), timeout=3000)
    ctx.standin("FRAME checksums and HISTORY/ALIAS pool-vs-fresh differential", r["bound"], r["cases"], r["failures"], samples=r["samples"], time_s=time.time() - t0)


UNITS["standin/state"] = standin_state
HEAVY_FIRST = ["standin/state", "frames/static"]
