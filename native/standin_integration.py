"""Bounded stand-in for C02 (run under /venv): assembled numbers against exactly (rationally) computed integrals.

Oracles are independent of skfem's mappings, quadrature and local numbering: cells are read from (p, t) only, split into simplices (straight-sided cells with
planar faces), monomials are pulled back by an own affine / multilinear map in exact rational arithmetic (skv.poly) and integrated with the closed formulas
for reference simplices / cubes.  Lagrange bases are rebuilt from the nodal property on an own node lattice (Vandermonde inverse over Q); the global DOF of a
node is found by its coordinates in basis.doflocs."""
import itertools
import json
import sys
from fractions import Fraction
from math import factorial

import numpy as np

from native import geom
from native import zoo as Z
from skv.poly import Poly, integrate

TOL = 2e-11


def fr(x):
    return Fraction(float(x))


def monomials(d, n):
    return [e for e in itertools.product(range(n + 1), repeat=d) if sum(e) <= n]


# ------------------------------------------------------------------------------------------------ rational meshes

def meshes(tier):
    import skfem as fem
    out = []
    out.append(("line", fem.MeshLine(np.array([0., .125, .5, .8125, 1.25]))))
    p = np.array([[0., 1., 0., 1., .5, .375, 1.5], [0., 0., 1., 1., .5625, -.25, .5]])
    t = np.array([[0, 1, 4], [1, 3, 4], [3, 2, 4], [2, 0, 4], [0, 5, 1], [1, 6, 3]]).T
    out.append(("tri-irregular", fem.MeshTri(p, t)))
    out.append(("tri-L", fem.MeshTri.init_lshaped()))
    mq = fem.MeshQuad.init_tensor(np.array([0., .25, 1.]), np.array([0., .5, .75]))
    A2 = np.array([[1., .5], [.25, 1.5]])
    out.append(("quad-parallelogram", fem.MeshQuad(A2 @ mq.p, mq.t)))
    pq = mq.p.copy()
    pq[:, np.argmin(np.abs(pq[0] - .25) + np.abs(pq[1] - .5))] = [.375, .4375]
    out.append(("quad-convex", fem.MeshQuad(pq, mq.t)))
    out.append(("quad-mirrored", fem.MeshQuad(pq * np.array([[-1.], [1.]]), mq.t)))
    mt = fem.MeshTet.init_tensor(np.array([0., .5, 1.]), np.array([0., .75, 1.]), np.array([0., 1.]))
    A3 = np.array([[1., .5, .25], [.125, .75, -.375], [-.25, .25, 1.25]])
    out.append(("tet-sheared", fem.MeshTet(A3 @ mt.p, mt.t)))
    A3b = np.array([[1.375, .25, -.5], [-.375, .375, -.5], [.75, .75, 1.125]])      # uniform refinement meets all three inner-diagonal classes (8, 8, 8 cells)
    out.append(("tet-sheared3", fem.MeshTet(A3b @ mt.p, mt.t)))
    out.append(("tet-default", fem.MeshTet()))
    mh = fem.MeshHex.init_tensor(np.array([0., .5, 1.]), np.array([0., .25, 1.]), np.array([0., 1.]))
    out.append(("hex-box", mh))
    out.append(("hex-parallelepiped", fem.MeshHex(A3 @ mh.p, mh.t)))
    ph = mh.p.copy()
    ph[0] = mh.p[0] * (1 + mh.p[2] / 2)
    ph[1] = mh.p[1] * (1 + mh.p[2] / 4)
    out.append(("hex-frusta", fem.MeshHex(ph, mh.t)))
    mw = fem.MeshTri(p[:, :5], t[:, :4]) * fem.MeshLine(np.array([0., .5, 1.25]))
    out.append(("wedge-extruded", mw))
    out.append(("wedge-sheared", type(mw)(A3 @ mw.p, mw.t)))
    if tier != "quick":
        out.append(("tri-refined", fem.MeshTri(p, t).refined(1)))
        out.append(("tet-refined", fem.MeshTet(A3 @ mt.p, mt.t).refined(1)))
        out.append(("quad-convex-refined", fem.MeshQuad(pq, mq.t).refined(1)))
    return out


AFFINE = {"line", "tri-irregular", "tri-L", "quad-parallelogram", "tet-sheared", "tet-sheared3", "tet-default", "hex-box", "hex-parallelepiped", "wedge-extruded", "wedge-sheared",
          "tri-refined", "tet-refined"}


# ------------------------------------------------------------------------------------------------ exact integration

def cell_simplices(kind, P):
    """split a straight-sided cell with planar faces into simplices; P: list of vertex points (lists of Fractions)"""
    if kind in ("line", "tri", "tet"):
        return [P]
    if kind == "quad":
        return [[P[0], P[1], P[2]], [P[0], P[2], P[3]]]
    tab = geom.HEX_FACES if kind == "hex" else geom.WEDGE_FACES
    n = len(P)
    c = [sum(q[i] for q in P) / n for i in range(3)]
    out = []
    for f in tab:
        F = [P[v] for v in f]
        if len(F) == 3:
            out.append([F[0], F[1], F[2], c])
        else:
            fc = [sum(q[i] for q in F) / len(F) for i in range(3)]
            for i in range(len(F)):
                out.append([F[i], F[(i + 1) % len(F)], fc, c])
    return out


def pull_simplex(V):
    """coordinate polynomials of the affine map reference simplex -> simplex V, and the Gram determinant of its edge matrix"""
    k = len(V) - 1
    Xs = ["X%d" % j for j in range(k)]
    coords = []
    for i in range(len(V[0])):
        c = Poly.const(V[0][i])
        for j in range(k):
            c = c + Poly.const(V[j + 1][i] - V[0][i]) * Poly.var(Xs[j])
        coords.append(c)
    E = [[V[j + 1][i] - V[0][i] for j in range(k)] for i in range(len(V[0]))]
    G = [[sum(E[i][a] * E[i][b] for i in range(len(E))) for b in range(k)] for a in range(k)]
    return coords, Xs, det_frac(G) if k else Fraction(1)


def det_frac(A):
    n = len(A)
    if n == 0:
        return Fraction(1)
    if n == 1:
        return A[0][0]
    if n == 2:
        return A[0][0] * A[1][1] - A[0][1] * A[1][0]
    return sum((-1) ** j * A[0][j] * det_frac([row[:j] + row[j + 1:] for row in A[1:]]) for j in range(n))


def mono_poly(coords, exps):
    p = Poly.const(1)
    for c, e in zip(coords, exps):
        if e:
            p = p * c ** e
    return p


class Exact:
    """exact integrals of monomials over cells and facets of one mesh"""

    def __init__(self, m):
        self.m, self.kind = m, geom.kind_of(m)
        self.d = m.p.shape[0]
        self._cell, self._facet = {}, {}

    def cell(self, k, exps):
        key = (k, exps)
        if key not in self._cell:
            P = [[fr(v) for v in self.m.p[:, vi]] for vi in self.m.t[:, k]]
            tot = Fraction(0)
            for V in cell_simplices(self.kind, P):
                coords, Xs, gram = pull_simplex(V)
                E = [[V[j + 1][i] - V[0][i] for j in range(self.d)] for i in range(self.d)]
                tot += abs(det_frac(E)) * integrate(mono_poly(coords, exps), Xs, {1: "line", 2: "tri", 3: "tet"}[self.d]).const_value()
            self._cell[key] = tot
        return self._cell[key]

    def facet(self, f, exps):
        """float: rational reference integral times the (irrational) facet measure factor"""
        key = (f, exps)
        if key not in self._facet:
            F = geom.facet_points(self.m, f)
            F = [[fr(v) for v in row] for row in F]
            if self.d == 1:
                val = 1.0
                for c, e in zip(F[0], exps):
                    val *= float(c) ** e
                self._facet[key] = val
                return val
            tris = [F] if len(F) <= 3 else [[F[0], F[1], F[2]], [F[0], F[2], F[3]]]
            tot = 0.0
            for V in tris:
                coords, Xs, gram = pull_simplex(V)
                ref = integrate(mono_poly(coords, exps), Xs, {1: "line", 2: "tri"}[len(V) - 1]).const_value()
                tot += float(ref) * float(gram) ** .5
            self._facet[key] = tot
        return self._facet[key]


# ------------------------------------------------------------------------------------------------ exact Lagrange matrices

def lattice(kind, p):
    """(nodes in own reference coordinates, monomial exponents spanning the space)"""
    d = {"line": 1, "tri": 2, "tet": 3, "quad": 2, "hex": 3, "wedge": 3}[kind]
    if kind in ("line", "tri", "tet"):
        if p == 0:
            return [tuple(Fraction(1, d + 1) for _ in range(d))], [tuple([0] * d)]
        idx = monomials(d, p)
        return [tuple(Fraction(a, p) for a in e) for e in idx], idx
    if kind in ("quad", "hex"):
        if p == 0:
            return [tuple(Fraction(1, 2) for _ in range(d))], [tuple([0] * d)]
        idx = list(itertools.product(range(p + 1), repeat=d))
        return [tuple(Fraction(a, p) for a in e) for e in idx], idx
    assert p == 1
    idx = [e + (z,) for e in monomials(2, 1) for z in (0, 1)]
    return [tuple(Fraction(a) for a in e) for e in idx], idx


def solve_frac(A, B):
    n = len(A)
    M = [list(A[i]) + list(B[i]) for i in range(n)]
    for c in range(n):
        piv = next(r for r in range(c, n) if M[r][c] != 0)
        M[c], M[piv] = M[piv], M[c]
        inv = 1 / M[c][c]
        M[c] = [v * inv for v in M[c]]
        for r in range(n):
            if r != c and M[r][c] != 0:
                f = M[r][c]
                M[r] = [a - f * b for a, b in zip(M[r], M[c])]
    return [row[n:] for row in M]


_REF = {}


def reference(kind, p):
    """Lagrange polynomials on the own node lattice, their pairwise products and gradient products"""
    key = (kind, p)
    if key in _REF:
        return _REF[key]
    nodes, exps = lattice(kind, p)
    d = len(nodes[0])
    Xs = ["X%d" % j for j in range(d)]
    V = [[np.prod([x ** e for x, e in zip(nd, ex)]) if True else 0 for ex in exps] for nd in nodes]
    V = [[Fraction(v) for v in row] for row in V]
    n = len(nodes)
    I = [[Fraction(int(i == j)) for j in range(n)] for i in range(n)]
    Cf = solve_frac(V, I)        # V C = I  -> column j of C are the coefficients of L_j
    L = []
    for j in range(n):
        q = Poly()
        for a, ex in enumerate(exps):
            if Cf[a][j] != 0:
                q = q + Poly.const(Cf[a][j]) * mono_poly([Poly.var(x) for x in Xs], ex)
        L.append(q)
    refcell = kind
    mass = [[None] * n for _ in range(n)]
    prods = {}
    for i in range(n):
        for j in range(i, n):
            prods[i, j] = L[i] * L[j]
            mass[i][j] = mass[j][i] = integrate(prods[i, j], Xs, refcell).const_value()
    dL = [[q.diff(x) for x in Xs] for q in L]
    stiff = {}
    for a in range(d):
        for b in range(d):
            stiff[a, b] = [[integrate(dL[i][a] * dL[j][b], Xs, refcell).const_value() for j in range(n)] for i in range(n)]
    _REF[key] = dict(nodes=nodes, L=L, Xs=Xs, mass=mass, stiff=stiff, prods=prods)
    return _REF[key]


def own_map(kind, P):
    """own reference -> cell map as coordinate polynomials (affine for simplices / wedges, multilinear for quads / hexes), from the vertex list P"""
    d = len(P[0])
    Xs = [Poly.var("X%d" % j) for j in range(d)]
    one = Poly.const(1)
    if kind in ("line", "tri", "tet"):
        w = [(one - sum(Xs[1:], Xs[0]) if d > 1 else one - Xs[0])] + Xs
        vs = list(range(d + 1))
    elif kind == "quad":
        X, Y = Xs
        w = [(one - X) * (one - Y), X * (one - Y), X * Y, (one - X) * Y]
        vs = [0, 1, 2, 3]
    elif kind == "hex":
        # own reference vertex of local vertex v: the library lists hexahedra in the order of zoo.HEX_P; only the incidence structure is used here
        X, Y, Zv = Xs
        w, vs = [], []
        for v, ref in enumerate(Z.HEX_P):
            w.append((X if ref[0] else one - X) * (Y if ref[1] else one - Y) * (Zv if ref[2] else one - Zv))
            vs.append(v)
    else:
        X, Y, Zv = Xs
        lam = [one - X - Y, X, Y]
        w = [lam[i] * (one - Zv) for i in range(3)] + [lam[i] * Zv for i in range(3)]
        vs = list(range(6))
    coords = []
    for i in range(d):
        c = Poly()
        for wi, v in zip(w, vs):
            c = c + Poly.const(P[v][i]) * wi
        coords.append(c)
    J = [[coords[i].diff("X%d" % j) for j in range(d)] for i in range(d)]
    return coords, J


def det_poly(J):
    n = len(J)
    if n == 1:
        return J[0][0]
    if n == 2:
        return J[0][0] * J[1][1] - J[0][1] * J[1][0]
    return (J[0][0] * (J[1][1] * J[2][2] - J[1][2] * J[2][1]) - J[0][1] * (J[1][0] * J[2][2] - J[1][2] * J[2][0]) + J[0][2] * (J[1][0] * J[2][1] - J[1][1] * J[2][0]))


def exact_matrices(m, basis, kind, p, load_exps, want_stiff):
    """dicts {(g, h): Fraction} for mass and stiffness, {g: Fraction} for the load with f = monomial load_exps"""
    ref = reference(kind, p)
    d = m.p.shape[0]
    look = {tuple(np.round(basis.doflocs[:, g], 9) + 0.0): g for g in range(basis.N)}
    if len(look) != basis.N:
        raise AssertionError("DOF locations are not distinct")
    M, K, b = {}, {}, {}
    n = len(ref["nodes"])
    for k in range(m.t.shape[1]):
        P = [[fr(v) for v in m.p[:, vi]] for vi in m.t[:, k]]
        coords, J = own_map(kind, P)
        dt = det_poly(J)
        cen = {"X%d" % j: ref["nodes"][0][j] * 0 + Fraction(1, 3) for j in range(d)}
        sgn = 1 if dt.eval(cen) > 0 else -1
        gl = []
        for nd in ref["nodes"]:
            x = [float(c.eval({"X%d" % j: nd[j] for j in range(d)})) for c in coords]
            key = tuple(np.round(np.array(x), 9) + 0.0)
            if key not in look:
                raise AssertionError("no DOF of %s at the Lagrange node %s of cell %d" % (type(basis.elem).__name__, x, k))
            gl.append(look[key])
        affine = dt.is_const()
        if affine:
            ad = abs(dt.const_value())
            for i in range(n):
                for j in range(n):
                    M[gl[i], gl[j]] = M.get((gl[i], gl[j]), 0) + ad * ref["mass"][i][j]
            if want_stiff:
                A = [[J[i][j].const_value() for j in range(d)] for i in range(d)]
                Ai = solve_frac(A, [[Fraction(int(i == j)) for j in range(d)] for i in range(d)])      # A^-1
                G = [[sum(Ai[a][i] * Ai[bb][i] for i in range(d)) for bb in range(d)] for a in range(d)]   # A^-1 A^-T
                for i in range(n):
                    for j in range(n):
                        v = sum(G[a][bb] * ref["stiff"][a, bb][i][j] for a in range(d) for bb in range(d) if G[a][bb] != 0)
                        K[gl[i], gl[j]] = K.get((gl[i], gl[j]), 0) + ad * v
        else:
            for i in range(n):
                for j in range(i, n):
                    v = sgn * integrate(ref["prods"][i, j] * dt, ref["Xs"], kind).const_value()
                    M[gl[i], gl[j]] = M.get((gl[i], gl[j]), 0) + v
                    if i != j:
                        M[gl[j], gl[i]] = M.get((gl[j], gl[i]), 0) + v
        f = mono_poly(coords, load_exps) * dt
        for i in range(n):
            b[gl[i]] = b.get(gl[i], 0) + sgn * integrate(f * ref["L"][i], ref["Xs"], kind).const_value()
    return M, K, b


LAGRANGE = {
    "line": [("ElementLineP0", 0), ("ElementLineP1", 1), ("ElementLineP2", 2)],
    "tri": [("ElementTriP0", 0), ("ElementTriP1", 1), ("ElementTriP2", 2), ("ElementTriP3", 3), ("ElementTriP4", 4)],
    "tet": [("ElementTetP0", 0), ("ElementTetP1", 1), ("ElementTetP2", 2)],
    "quad": [("ElementQuad0", 0), ("ElementQuad1", 1), ("ElementQuad2", 2)],
    "hex": [("ElementHex0", 0), ("ElementHex1", 1), ("ElementHex2", 2)],
    "wedge": [("ElementWedge1", 1)],
}
SIMPLE = {"line": "ElementLineP1", "tri": "ElementTriP1", "tet": "ElementTetP1", "quad": "ElementQuad1", "hex": "ElementHex1", "wedge": "ElementWedge1"}


# ------------------------------------------------------------------------------------------------ the checks

def close(a, b, scale):
    return abs(a - b) <= TOL * max(1.0, scale)


def wfun(exps):
    def f(w):
        v = 1.0
        for i, e in enumerate(exps):
            if e:
                v = v * w.x[i] ** e
        return v + 0 * w.x[0]
    return f


def check_functionals(label, m, rng, tier, fails):
    import skfem as fem
    kind = geom.kind_of(m)
    d = m.p.shape[0]
    ex = Exact(m)
    nt, nf = m.t.shape[1], m.facets.shape[1]
    affine = label.split("~")[0] in AFFINE
    extra = 0 if affine else {"quad": 1, "hex": 2}[kind]
    extra_f = 0 if (affine or kind != "hex") else 1
    nmax = {"line": 6, "tri": 6, "tet": 4, "quad": 5, "hex": 3, "wedge": 3}[kind] if tier == "quick" else {"line": 12, "tri": 10, "tet": 7, "quad": 8, "hex": 5, "wedge": 5}[kind]
    e = getattr(fem, SIMPLE[kind])()
    sub = np.sort(rng.choice(nt, max(1, nt // 2), replace=False))
    msub = m.with_subdomains({"part": sub})
    bnd = m.boundary_facets()
    intf = np.nonzero(m.f2t[1] != -1)[0]
    fsub = np.sort(rng.choice(nf, max(1, nf // 3), replace=False))
    cases = 0
    # an integration domain named by SEVERAL, overlapping, tagged sets is the union: every cell / facet counts once
    if nt > 2:
        sa, sb = np.arange(0, max(2, 2 * nt // 3)), np.arange(nt // 3, nt)
        mo = m.with_subdomains({"a": sa, "b": sb})
        un = np.union1d(sa, sb)
        q0 = tuple([0] * d)
        q1 = tuple([1] + [0] * (d - 1))
        for how, sel in (("list of names", ["a", "b"]), ("tuple of names", ("a", "b")), ("name and index array", ["a", sb])):
            for q in (q0, q1):
                got = fem.Functional(wfun(q)).assemble(fem.CellBasis(mo, e, intorder=2 + extra, elements=sel))
                want = float(sum(ex.cell(int(k), q) for k in un))
                if not close(got, want, abs(want) + 1):
                    fails.append(dict(input="%s cells %s (overlapping tagged sets a=%s, b=%s), x^%s" % (label, how, sa.tolist()[:6], sb.tolist()[:6], list(q)),
                                      observed="UNION: assembled %r, exact integral over the union %r" % (float(got), want)))
        if kind != "wedge" and len(bnd) > 2:
            fa, fb_ = bnd[: max(2, 2 * len(bnd) // 3)], bnd[len(bnd) // 3:]
            mo = m.with_boundaries({"a": fa, "b": fb_})
            un = np.union1d(fa, fb_)
            for how, sel in (("list of names", ["a", "b"]), ("name and index array", ["a", fb_])):
                got = fem.Functional(wfun(q0)).assemble(fem.FacetBasis(mo, e, intorder=2 + extra, facets=sel))
                want = float(sum(ex.facet(int(f), q0) for f in un))
                if not close(got, want, abs(want) + 1):
                    fails.append(dict(input="%s facets %s (overlapping tagged sets)" % (label, how), observed="UNION: assembled facet measure %r, exact measure of the union %r" % (float(got), want)))
        cases += 1
    for n in range(nmax + 1):
        try:
            cb = fem.CellBasis(m, e, intorder=n + extra)
            cs = fem.CellBasis(msub, e, intorder=n + extra, elements="part")
            fbs = []
            if kind != "wedge":        # prisms have two facet types: the library offers no facet basis for them (raises NotImplementedError)
                fbs.append(("boundary", bnd, fem.FacetBasis(m, e, intorder=n + extra_f + (extra if kind == "quad" else 0))))
            if kind != "wedge":
                fbs.append(("facet-subset", fsub, fem.FacetBasis(m, e, facets=fsub, intorder=n + extra_f + (extra if kind == "quad" else 0))))
            if len(intf) and kind != "wedge":
                fbs.append(("interior", intf, fem.InteriorFacetBasis(m, e, intorder=n + extra_f + (extra if kind == "quad" else 0), side=1)))
        except Exception as exn:
            fails.append(dict(input="%s order %d" % (label, n), observed="basis construction raised %s: %s" % (type(exn).__name__, exn)))
            continue
        monos = [q for q in monomials(d, n) if sum(q) == n] if n > 2 else monomials(d, n)
        if tier == "quick" and len(monos) > 6:
            monos = [monos[i] for i in sorted(rng.choice(len(monos), 6, replace=False))]
        for q in monos:
            cases += 1
            F = fem.Functional(wfun(q))
            per = F.elemental(cb)
            exact = [ex.cell(k, q) for k in range(nt)]
            sc = sum(abs(float(v)) for v in exact)
            bad = [k for k in range(nt) if not close(per[k], float(exact[k]), sc)]
            if bad:
                fails.append(dict(input="%s cells, x^%s, intorder %d" % (label, list(q), n + extra),
                                  observed="CELL: elemental value %r of cell %d, exact %r" % (float(per[bad[0]]), bad[0], float(exact[bad[0]]))))
            tot = F.assemble(cb)
            if not close(tot, float(sum(exact)), sc):
                fails.append(dict(input="%s domain, x^%s, intorder %d" % (label, list(q), n + extra), observed="DOMAIN: assembled %r, exact %r" % (float(tot), float(sum(exact)))))
            got = F.assemble(cs)
            want = float(sum(exact[k] for k in sub))
            if not close(got, want, sc):
                fails.append(dict(input="%s tagged subdomain %s, x^%s, intorder %d" % (label, sub.tolist(), list(q), n + extra), observed="SUBDOMAIN: assembled %r, exact %r" % (float(got), want)))
            if d == 1 and n > 0 and False:
                continue
            for nm, fs, fb in fbs:
                exf = [ex.facet(int(f), q) for f in fs]
                got = F.assemble(fb)
                scf = sum(abs(v) for v in exf)
                if not close(got, sum(exf), scf):
                    fails.append(dict(input="%s %s facets %s, x^%s, intorder %d" % (label, nm, np.asarray(fs).tolist()[:12], list(q), n),
                                      observed="FACETS: assembled %r, exact %r" % (float(got), float(sum(exf)))))
                perf = F.elemental(fb)
                badf = [i for i in range(len(fs)) if not close(perf[i], exf[i], scf)]
                if badf and len(perf) == len(fs):
                    fails.append(dict(input="%s %s facet %d, x^%s, intorder %d" % (label, nm, int(fs[badf[0]]), list(q), n),
                                      observed="FACET: elemental %r, exact %r" % (float(perf[badf[0]]), exf[badf[0]])))
    return cases


def check_entries(label, m, rng, tier, fails):
    import skfem as fem
    kind = geom.kind_of(m)
    d = m.p.shape[0]
    affine = label.split("~")[0] in AFFINE
    ex = Exact(m)
    nt = m.t.shape[1]
    meas = float(sum(ex.cell(k, tuple([0] * d)) for k in range(nt)))
    bnd = m.boundary_facets()
    bmeas = sum(ex.facet(int(f), tuple([0] * d)) for f in bnd)
    sub = np.sort(rng.choice(nt, max(1, nt // 2), replace=False))
    smeas = float(sum(ex.cell(k, tuple([0] * d)) for k in sub))
    cases = 0
    mass = fem.BilinearForm(lambda u, v, w: u * v)
    stiff = fem.BilinearForm(lambda u, v, w: sum(u.grad[i] * v.grad[i] for i in range(u.grad.shape[0])))
    for name, p in LAGRANGE[kind]:
        if tier == "quick" and ((kind in ("hex",) and p == 2 and not label.startswith("hex-box")) or (kind == "tri" and p == 4 and "~" in label)):
            continue
        e = getattr(fem, name)()
        cases += 1
        basis = fem.CellBasis(m, e)
        Mlib = mass.assemble(basis).toarray()
        # MASS-SUM (partition of unity): cells, tagged subset, boundary facets
        if not close(Mlib.sum(), meas, meas):
            fails.append(dict(input="%s %s" % (label, name), observed="MASS-SUM: sum of mass entries %r, measure %r" % (float(Mlib.sum()), meas)))
        bs = fem.CellBasis(m, e, elements=sub)
        if not close(mass.assemble(bs).sum(), smeas, meas):
            fails.append(dict(input="%s %s cells %s" % (label, name, sub.tolist()), observed="MASS-SUM: subset %r, measure %r" % (float(mass.assemble(bs).sum()), smeas)))
        fb = fem.FacetBasis(m, e) if kind != "wedge" else None
        if fb is not None and not close(mass.assemble(fb).sum(), bmeas, bmeas):
            fails.append(dict(input="%s %s boundary" % (label, name), observed="MASS-SUM: boundary mass sum %r, boundary measure %r" % (float(mass.assemble(fb).sum()), bmeas)))
        if not affine and (kind == "hex" and p == 2):
            continue
        lexp = tuple(([p] + [0] * (d - 1)) if rng.randint(2) else ([0] * (d - 1) + [p])) if p else tuple([0] * d)
        if not affine:
            lexp = tuple([min(p, 1)] + [0] * (d - 1))
        try:
            M, K, b = exact_matrices(m, basis, kind, p, lexp, want_stiff=affine and p > 0)
        except AssertionError as exn:
            fails.append(dict(input="%s %s" % (label, name), observed="NODES: %s" % exn))
            continue
        sc = max(abs(float(v)) for v in M.values())
        bad = [(g, h) for (g, h), v in M.items() if not close(Mlib[g, h], float(v), sc)]
        nzl = int((abs(Mlib) > TOL * sc).sum())
        if bad or nzl > len(M):
            g, h = bad[0] if bad else (-1, -1)
            fails.append(dict(input="%s %s" % (label, name), observed="MASS: entry (%d, %d) is %r, exact %r; %d nonzeros vs %d exact" % (g, h, float(Mlib[g, h]), float(M.get((g, h), 0)), nzl, len(M))))
        if K:
            Klib = stiff.assemble(basis).toarray()
            sk = max(abs(float(v)) for v in K.values())
            bad = [(g, h) for (g, h), v in K.items() if not close(Klib[g, h], float(v), sk)]
            if bad:
                g, h = bad[0]
                fails.append(dict(input="%s %s" % (label, name), observed="STIFFNESS: entry (%d, %d) is %r, exact %r" % (g, h, float(Klib[g, h]), float(K[g, h]))))
        blib = fem.LinearForm(lambda v, w: wfun(lexp)(w) * v).assemble(basis)
        sb = max(abs(float(v)) for v in b.values())
        bad = [g for g, v in b.items() if not close(blib[g], float(v), sb)]
        if bad:
            fails.append(dict(input="%s %s f=x^%s" % (label, name, list(lexp)), observed="LOAD: entry %d is %r, exact %r" % (bad[0], float(blib[bad[0]]), float(b[bad[0]]))))
    return cases


def check_invariance(label, m, rng, tier, fails):
    """rigid motion and refinement: relational checks (same number before and after)"""
    import skfem as fem
    kind = geom.kind_of(m)
    d = m.p.shape[0]
    e = getattr(fem, SIMPLE[kind])()
    n = 3
    cases = 0
    # rigid motion x -> Q x + c; integrand f(Q^T (x - c)) on the moved mesh
    if d == 1:
        Q = np.array([[-1.]])
    elif d == 2:
        Q = np.array([[.6, -.8], [.8, .6]])
    else:
        Q = np.array([[.6, -.8, 0.], [.8, .6, 0.], [0., 0., 1.]]) @ np.array([[1., 0., 0.], [0., 0., -1.], [0., 1., 0.]])
    c = np.array([.25, -1.5, .75])[:d]
    m2 = type(m)(Q @ m.p + c[:, None], m.t)
    sub = np.sort(rng.choice(m.t.shape[1], max(1, m.t.shape[1] // 2), replace=False))
    for q in [q for q in monomials(d, n) if sum(q) == n][:4]:
        cases += 1

        def moved(w, q=q):
            y = np.einsum("ji,j...->i...", Q, w.x - c.reshape((d,) + (1,) * (w.x.ndim - 1)))
            v = 1.0
            for i, ee in enumerate(q):
                if ee:
                    v = v * y[i] ** ee
            return v + 0 * y[0]
        for nm, mk in (("cells", lambda mm: fem.CellBasis(mm, e, intorder=n + 2)), ("subset", lambda mm: fem.CellBasis(mm, e, intorder=n + 2, elements=sub)),
                       ("boundary", lambda mm: fem.FacetBasis(mm, e, intorder=n + 2)))[:2 if kind == "wedge" else 3]:
            a = fem.Functional(wfun(q)).assemble(mk(m))
            b = fem.Functional(moved).assemble(mk(m2))
            if not close(a, b, abs(a)):
                fails.append(dict(input="%s rigid motion, %s, x^%s" % (label, nm, list(q)), observed="RIGID: %r before, %r after the motion" % (float(a), float(b))))
    # the library's own motions applied to a mesh that has ALREADY been used (its mapping is cached): the moved mesh integrates over the moved geometry
    fem.CellBasis(m, e, intorder=2)
    if kind != "wedge":
        fem.FacetBasis(m, e, intorder=2)
    moves = [("translated", lambda q: q.translated(tuple(c.tolist()))), ("scaled", lambda q: q.scaled(tuple([2., .5, 1.5][:d])))]
    if d > 1:
        moves.append(("mirrored", lambda q: q.mirrored(tuple([1.] + [0.] * (d - 1)), tuple([.25] * d))))
    for mname, mv in moves:
        try:
            mm = mv(m)
        except Exception as exn:
            fails.append(dict(input="%s %s" % (label, mname), observed="raised %s: %s" % (type(exn).__name__, exn)))
            continue
        ex2 = Exact(mm)
        for q in (tuple([0] * d), tuple([1] + [0] * (d - 1)), tuple([0] * (d - 1) + [2])):
            cases += 1
            got = fem.Functional(wfun(q)).assemble(fem.CellBasis(mm, e, intorder=3 + (0 if label.split("~")[0] in AFFINE else 2)))
            want = float(sum(ex2.cell(k, q) for k in range(mm.t.shape[1])))
            if not close(got, want, abs(want) + 1):
                fails.append(dict(input="%s.%s() after the mesh was used, x^%s" % (label, mname, list(q)), observed="MOVED: assembled %r on the moved mesh, exact integral over the moved cells %r" % (float(got), want)))
    # refinement with tags
    if hasattr(m, "refined") and kind != "wedge":
        ms = m.with_subdomains({"part": sub})
        try:
            ms = ms.with_boundaries({"lo": lambda x: x[0] < np.min(m.p[0]) + 1e-9}) if kind != "line" else ms
        except Exception:
            pass
        try:
            mr = ms.refined(1)
        except Exception as exn:
            fails.append(dict(input="%s refined" % label, observed="refined(1) raised %s: %s" % (type(exn).__name__, exn)))
            return cases
        affine = label.split("~")[0] in AFFINE
        ext = 0 if affine else 2
        for q in [q for q in monomials(d, 2) if sum(q) == 2][:3]:
            cases += 1
            F = fem.Functional(wfun(q))
            pairs = [("domain", fem.CellBasis(ms, e, intorder=2 + ext), fem.CellBasis(mr, e, intorder=2 + ext)),
                     ("tagged subdomain", fem.CellBasis(ms, e, intorder=2 + ext, elements="part"), fem.CellBasis(mr, e, intorder=2 + ext, elements="part"))]
            pairs.append(("boundary", fem.FacetBasis(ms, e, intorder=2 + ext), fem.FacetBasis(mr, e, intorder=2 + ext)))
            if ms.boundaries and "lo" in ms.boundaries and mr.boundaries and "lo" in mr.boundaries:
                pairs.append(("tagged boundary", fem.FacetBasis(ms, e, intorder=2 + ext, facets="lo"), fem.FacetBasis(mr, e, intorder=2 + ext, facets="lo")))
            for nm, b0, b1 in pairs:
                a, b = F.assemble(b0), F.assemble(b1)
                if not close(a, b, abs(a)):
                    fails.append(dict(input="%s refined, %s, x^%s" % (label, nm, list(q)), observed="REFINE: %r before, %r after refinement" % (float(a), float(b))))
    return cases


def check_large_subsets(fails):
    """element subsets with more than 1000 entries on isoparametric meshes (cached Jacobians keyed by the subset)"""
    import skfem as fem
    m = fem.MeshQuad.init_tensor(np.linspace(0, 1, 65) ** 2, np.linspace(0, 2, 33))
    nt = m.t.shape[1]
    areas = np.array([geom.volume("quad", geom.cell_points(m, k)) for k in range(nt)])
    e = fem.ElementQuad1()
    a = np.arange(0, 1500)
    b = np.concatenate([np.arange(0, 3), np.arange(400, 1894), np.arange(1497, 1500)])
    mass = fem.BilinearForm(lambda u, v, w: u * v)
    one = fem.Functional(lambda w: 1. + 0 * w.x[0])
    basis_a = fem.CellBasis(m, e, elements=a)
    basis_b = fem.CellBasis(m, e, elements=b, mapping=basis_a.mapping)
    for nm, bs, ix in (("first subset", basis_a, a), ("second subset sharing the mapping", basis_b, b)):
        got, want = one.assemble(bs), areas[ix].sum()
        if not close(got, want, want):
            fails.append(dict(input="64x32 graded quad mesh, %s (%d cells)" % (nm, len(ix)), observed="SUBDOMAIN: area %r, exact %r" % (float(got), float(want))))
        got = mass.assemble(bs).sum()
        if not close(got, want, want):
            fails.append(dict(input="64x32 graded quad mesh, %s (%d cells)" % (nm, len(ix)), observed="MASS-SUM: %r, exact %r" % (float(got), float(want))))
    return 2


def _task(args):
    lab, base, vi, tier, seed = args
    import zlib
    rng = np.random.RandomState((zlib.crc32(lab.encode()) + 77 + seed) % (2 ** 31))
    m = dict(meshes(tier))[base]
    if vi is not None:
        m = Z.renumbered(m, rng)[0]
    mine, cases = [], 0
    try:
        cases += check_functionals(lab, m, rng, tier, mine)
        cases += check_entries(lab, m, rng, tier, mine)
        if vi is None or tier != "quick":
            cases += check_invariance(lab, m, rng, tier, mine)
    except Exception as exn:
        import traceback
        mine.append(dict(input=lab, observed="exception %s: %s | %s" % (type(exn).__name__, exn, traceback.format_exc()[-500:])))
    for f in mine[:4]:
        f["replay"] = dict(kind="integration_case", only=lab, seed=seed, tier=tier)
    return lab, cases, mine[:4]


def run(payload):
    import multiprocessing as mp
    tier = payload.get("tier", "quick")
    seed = int(payload.get("seed", 0))
    only = payload.get("only")
    fails, cases, samples = [], 0, []
    nvar = 1 if tier == "quick" else 3
    tasks = []
    for label, m in meshes(tier):
        tasks.append((label, label, None, tier, seed))
        for v in range(nvar):
            tasks.append(("%s~r%d" % (label, v), label, v, tier, seed))
    tasks = [t for t in tasks if not only or only == t[0]]
    if len(tasks) > 1:
        with mp.Pool(min(int(payload.get("jobs", 12)), len(tasks))) as pool:
            res = pool.map(_task, tasks, chunksize=1)
    else:
        res = [_task(t) for t in tasks]
    for lab, c, mine in res:
        cases += c
        fails.extend(mine)
        if len(samples) < 4:
            samples.append(lab)
    if not only or only == "large-subsets":
        mine = []
        try:
            cases += check_large_subsets(mine)
        except Exception as exn:
            mine.append(dict(input="large-subsets", observed="exception %s: %s" % (type(exn).__name__, exn)))
        for f in mine:
            f["replay"] = dict(kind="integration_case", only="large-subsets", seed=seed, tier=tier)
            fails.append(f)
    return dict(cases=cases, failures=fails[:24], samples=samples,
                bound="%d rational straight-sided meshes (line, irregular/L triangles, parallelogram/convex/mirrored quads, sheared/default tets, box/parallelepiped/"
                      "frustum hexes, extruded/sheared prisms), each also under %d seeded renumberings with admissible local rotations; monomials up to the integration order "
                      "(%s) over all cells, a tagged subset, boundary / random / interior facet sets; Lagrange elements of degree 0-4 (P0-P4 tri, P0-P2 line/tet, "
                      "Q0-Q2 quad/hex, prism P1): every mass / stiffness / load entry against exact rational values, mass sums against measures; rigid motion and "
                      "refinement (with tags) relational checks; two >1000-cell subsets sharing one isoparametric mapping"
                      % (len(meshes(tier)), nvar, "quick: 3-6, thorough: 5-12 depending on the cell type"))


def replay_integration_case(sp):
    r = run(dict(only=sp["only"], seed=sp.get("seed", 0), tier=sp.get("tier", "quick")))
    return dict(confirmed=bool(r["failures"]), observed=[f["observed"] for f in r["failures"]][:3], input=[f["input"] for f in r["failures"]][:3])


def replay_integration(sp):
    r = run(dict(seed=0, tier="quick"))
    return dict(confirmed=bool(r["failures"]) if r["failures"] else None, observed=[f["observed"] for f in r["failures"]][:3], input=[f["input"] for f in r["failures"]][:3])


if __name__ == "__main__":
    print("\n@@JSON@@" + json.dumps(run(json.load(sys.stdin)), default=str))
