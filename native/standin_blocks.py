"""Bounded stand-in for C19 (run under /venv): numerical agreement of vector / composite / block structures with their components."""
import json
import sys

import numpy as np
import scipy.sparse as sp


def cases():
    import skfem as fem
    mt = fem.MeshTri.init_sqsymmetric().refined(1)
    mq = fem.MeshQuad().refined(1)
    m3 = fem.MeshTet()
    mh = fem.MeshHex.init_tensor(np.array([0., .5, 1.]), np.array([0., 1.]), np.array([0., 1.]))
    return [
        ("tri/Vector(P2)*P1", mt, fem.ElementVector(fem.ElementTriP2()) * fem.ElementTriP1()),
        ("tri/P2*P1", mt, fem.ElementTriP2() * fem.ElementTriP1()),
        ("tri/RT1*P0", mt, fem.ElementTriRT1() * fem.ElementTriP0()),
        ("tri/N1*P1", mt, fem.ElementTriN1() * fem.ElementTriP1()),
        ("tri/P1*P2*P0", mt, fem.ElementTriP1() * fem.ElementTriP2() * fem.ElementTriP0()),
        ("tri/Vector(P2)", mt, fem.ElementVector(fem.ElementTriP2())),
        ("quad/Q2*Q1", mq, fem.ElementQuad2() * fem.ElementQuad1()),
        ("tet/Vector(P2)*P1", m3, fem.ElementVector(fem.ElementTetP2()) * fem.ElementTetP1()),
        ("tet/N1*RT1", m3, fem.ElementTetN1() * fem.ElementTetRT1()),
        ("tet/CCR*P1", m3, fem.ElementTetCCR() * fem.ElementTetP1()),
        ("hex/Hex2*Hex1", mh, fem.ElementHex2() * fem.ElementHex1()),
        ("hex/Vector(Hex2)", mh, fem.ElementVector(fem.ElementHex2())),
    ]


def flat(f):
    """list of scalar component arrays of a (possibly vector valued) field"""
    a = np.asarray(f)
    return [a] if a.ndim == 2 else [x for x in a.reshape((-1,) + a.shape[-2:])]


def check(label, m, e, rng):
    import skfem as fem
    fails = []
    basis = fem.CellBasis(m, e, intorder=4)
    N = basis.N
    y = rng.uniform(-1, 1, N)
    parts = basis.split(y)
    whole = basis.interpolate(y)
    whole = whole if isinstance(whole, tuple) else (whole,)
    # SPLIT-INTERP
    if isinstance(e, fem.ElementVector):
        comp_vals = [np.asarray(b.interpolate(x)) for x, b in parts]
        wv = np.asarray(whole[0])
        for c, v in enumerate(comp_vals):
            if not np.allclose(wv[c], v, atol=1e-12):
                fails.append("SPLIT-INTERP: component %d of interpolate(whole) differs from interpolate(part)" % c)
    else:
        if len(parts) != len(whole):
            fails.append("SPLIT-INTERP: %d parts, %d fields" % (len(parts), len(whole)))
        for c, ((x, b), w) in enumerate(zip(parts, whole)):
            v = b.interpolate(x)
            if not np.allclose(np.asarray(w), np.asarray(v), atol=1e-12):
                fails.append("SPLIT-INTERP: field %d of interpolate(whole) differs from interpolate(part)" % c)
            for att in ("grad", "div", "curl"):
                a1, a2 = getattr(w, att, None), getattr(v, att, None)
                if (a1 is None) != (a2 is None) or (a1 is not None and not np.allclose(a1, a2, atol=1e-10)):
                    fails.append("SPLIT-INTERP: %s of field %d differs" % (att, c))
    # BLOCKS: coupled form sum_{a,b} c_ab u_a v_b  vs separately assembled component forms
    ix = basis.split_indices()
    sb = basis.split_bases()
    nc = len(ix)
    coef = rng.uniform(.5, 1.5, (nc, nc))

    def s(f):
        return sum(flat(f))

    def coupled(*args):
        w = args[-1]
        us, vs = args[:nc], args[nc:2 * nc]
        if isinstance(e, fem.ElementVector):
            u, v = flat(args[0]), flat(args[1])
            return sum(coef[a, b] * u[a] * v[b] for a in range(nc) for b in range(nc))
        return sum(coef[a, b] * s(us[a]) * s(vs[b]) for a in range(nc) for b in range(nc))
    A = fem.BilinearForm(coupled).assemble(basis).toarray()
    for a in range(nc):
        for b in range(nc):
            blk = fem.BilinearForm(lambda u, v, w: coef[a, b] * s(u) * s(v)).assemble(sb[a], sb[b]).toarray()   # trial a, test b
            got = A[np.ix_(ix[b], ix[a])]
            if got.shape != blk.shape or not np.allclose(got, blk, atol=1e-12):
                fails.append("BLOCKS: block (test %d, trial %d) of the coupled matrix differs from the separately assembled component form" % (b, a))
    # ASM over lists == sum of separate assemblies; COOData algebra
    form = fem.BilinearForm(lambda u, v, w: s(u) * s(v) * (1 + w.x[0]))
    b0 = sb[0]
    fb = fem.FacetBasis(m, b0.elem, intorder=4)
    tot = fem.asm(form, [b0, fb], [b0, fb]) if False else None
    A1 = form.assemble(b0)
    A2 = form.assemble(fb)
    both = fem.asm(form, [b0, fb])
    if abs(both - (A1 + A2)).max() > 1e-12:
        fails.append("ASM: asm(form, [cell basis, facet basis]) differs from the sum of the separate assemblies")
    # ... also with a coefficient VECTOR as a form parameter over a partition of the cells into two subset bases (each block interpolates it on its own basis)
    ntc = m.t.shape[1]
    h1, h2 = np.arange(ntc // 2), np.arange(ntc // 2, ntc)
    if len(h1) and len(h2):
        cb = fem.CellBasis(m, b0.elem, intorder=4)
        p1 = fem.CellBasis(m, b0.elem, intorder=4, elements=h1)
        p2 = fem.CellBasis(m, b0.elem, intorder=4, elements=h2)
        xk = rng.uniform(-1, 1, cb.N)
        cform = fem.BilinearForm(lambda u, v, w: s(w["prev"]) * s(u) * s(v))
        lform = fem.LinearForm(lambda v, w: s(w["prev"]) * s(v))
        whole, parts = cform.assemble(cb, prev=xk), fem.asm(cform, [p1, p2], prev=xk)
        if abs(whole - parts).max() > 1e-12:
            fails.append("ASM: asm(form, [two subset bases], prev=vector) differs from the whole-mesh assembly by %.3e" % abs(whole - parts).max())
        if np.abs(lform.assemble(cb, prev=xk) - fem.asm(lform, [p1, p2], prev=xk)).max() > 1e-12:
            fails.append("ASM: linear form over a list of subset bases with a coefficient vector differs from the whole-mesh assembly")
    c1, c2 = form.elemental(b0), form.elemental(fb)
    csum = c1 + c2
    if abs(csum.tocsr() - (A1 + A2)).max() > 1e-12 or not np.allclose(csum.toarray(), (A1 + A2).toarray(), atol=1e-12):
        fails.append("COODATA: (c1 + c2).tocsr()/toarray() differs from the sum of the matrices")
    if (0 + c1) is not c1 or abs(sum([c1, c2]).tocsr() - (A1 + A2)).max() > 1e-12:
        fails.append("COODATA: sum([..]) with the integer start value")
    x = rng.uniform(-1, 1, b0.N)
    if not np.allclose(c1.dot(x), A1 @ x, atol=1e-12):
        fails.append("COODATA: dot(x) differs from the matrix-vector product")
    D = np.array([0, 2])
    z = c1.dot(x, D=D)
    w = A1 @ x
    w[D] = x[D]
    if not np.allclose(z, w, atol=1e-12):
        fails.append("COODATA: dot(x, D) must keep x on D")
    lin = fem.LinearForm(lambda v, w: s(v) * w.x[0])
    lv = lin.elemental(b0)
    if not np.allclose(lv.toarray(), lin.assemble(b0), atol=1e-14) or not np.allclose(lv.todefault(), lin.assemble(b0)):
        fails.append("COODATA: linear toarray/todefault differs from assemble")
    # local matrices: rows = test, cols = trial, on a DG pair with different local sizes and a non-symmetric integrand
    kind = type(m).__name__
    if kind.startswith("MeshTri"):
        eu, ev = fem.ElementDG(fem.ElementTriP2()), fem.ElementDG(fem.ElementTriP1())
    elif kind.startswith("MeshQuad"):
        eu, ev = fem.ElementDG(fem.ElementQuad2()), fem.ElementDG(fem.ElementQuad1())
    elif kind.startswith("MeshTet"):
        eu, ev = fem.ElementDG(fem.ElementTetP2()), fem.ElementDG(fem.ElementTetP1())
    else:
        eu, ev = fem.ElementDG(fem.ElementHex2()), fem.ElementDG(fem.ElementHex1())
    ub, vb = fem.CellBasis(m, eu, intorder=4), fem.CellBasis(m, ev, intorder=4)
    ns = fem.BilinearForm(lambda u, v, w: u.grad[0] * v + 2. * u * v)
    cd = ns.elemental(ub, vb)
    Ad = cd.tocsr().toarray()
    L = cd.tolocal()
    for k in range(m.t.shape[1]):
        if L[k].shape != (vb.Nbfun, ub.Nbfun) or not np.allclose(L[k], Ad[np.ix_(vb.element_dofs[:, k], ub.element_dofs[:, k])], atol=1e-13):
            fails.append("TOLOCAL: local matrix of cell %d is not the (test x trial) block of the assembled matrix" % k)
            break
    if not np.array_equal(cd.fromlocal(L).data, cd.data):
        fails.append("TOLOCAL: fromlocal(tolocal()) changes the data")
    sq = ns.elemental(ub, ub)
    inv = sq.inverse().tocsr().toarray()
    if not np.allclose(inv @ sq.tocsr().toarray(), np.eye(ub.N), atol=1e-8):
        fails.append("INVERSE: inverse() of block-diagonal DG data is not the inverse of the assembled matrix")
    # Form.block / bmat
    if not isinstance(e, fem.ElementVector) and nc == 2:
        f2 = fem.BilinearForm(lambda u1, u2, v1, v2, w: s(u1) * s(v2) + 3. * s(u2) * s(v1))
        full = f2.assemble(basis).toarray()
        b01 = f2.block(0, 1).assemble(sb[0], sb[1]).toarray()      # trial component 0, test component 1, on the component bases
        want = full[np.ix_(ix[1], ix[0])]
        if b01.shape != want.shape or not np.allclose(b01, want, atol=1e-12):
            fails.append("BLOCK: Form.block(0, 1) is not the (test 1, trial 0) block of the full form")
    from skfem.utils import bmat
    Bm = bmat([[A1, None], [None, A2]], "csr")
    if Bm.shape != (2 * b0.N, 2 * b0.N) or abs(Bm[:b0.N, :b0.N] - A1).max() > 0 or abs(Bm[b0.N:, b0.N:] - A2).max() > 0:
        fails.append("BMAT: block offsets")
    return fails


def run(payload):
    rng = np.random.RandomState(int(payload.get("seed", 0)))
    only = payload.get("only")
    cases_, failures, samples = 0, [], []
    for label, m, e in cases():
        if only and only != label:
            continue
        cases_ += 1
        if len(samples) < 3:
            samples.append(label)
        try:
            fl = check(label, m, e, rng)
        except Exception as ex:
            import traceback
            fl = ["exception %s: %s | %s" % (type(ex).__name__, ex, traceback.format_exc()[-400:])]
        for f in fl[:4]:
            failures.append(dict(input=label, observed=f, replay=dict(kind="blocks_case", only=label, seed=int(payload.get("seed", 0)))))
    return dict(cases=cases_, failures=failures[:20], samples=samples,
                bound="12 vector/composite bases (tri, quad, tet, hex; Stokes-, RT-P0-, N1-P1-, N1-RT1-, CCR-, Q2-Q1-type, three components): SPLIT-INTERP, BLOCKS, "
                      "ASM, COODATA, TOLOCAL, INVERSE, BLOCK, BMAT clauses with random coefficients")


def replay_blocks_case(sp):
    r = run(dict(only=sp["only"], seed=sp.get("seed", 0)))
    return dict(confirmed=bool(r["failures"]), observed=[f["observed"] for f in r["failures"]][:3], input=sp["only"])


def replay_blocks(sp):
    r = run(dict(seed=0))
    return dict(confirmed=bool(r["failures"]) if r["failures"] else None, observed=[f["observed"] for f in r["failures"]][:3], input=[f["input"] for f in r["failures"]][:3])


if __name__ == "__main__":
    print("\n@@JSON@@" + json.dumps(run(json.load(sys.stdin)), default=str))
