"""Bounded stand-in for C07 (DOF lookup) on the real Basis/Dofs over the mesh zoo (run under /venv).

Clauses:
  CLOSURE    get_dofs(facets=F) == DOFs attached to F and to the vertices and (3-D) edges of F      (oracle from the cell list)
             get_dofs(elements=K) == all DOFs of the cells K ; get_dofs(nodes=V) == nodal DOFs of V
  SELECTORS  index array, predicate on midpoints, tag name and list/tuple/set mixtures denote the same set -> same DOFs
  BOUNDARY   get_dofs() == CLOSURE(single-neighbour facets) ; COMPLEMENT complement_dofs(D) == [0,N) minus D
  NAMES      keep / drop / all / skip= select by the SEMANTIC name of a DOF (component and kind it belongs to), filters compose by
             intersection, .nodal/.facet/.edge/.interior dictionaries are keyed by the right names
  TRACE      a function whose coefficients vanish on get_dofs(F) has zero trace on F (value / normal / tangential component)
  HISTORY    the same query gives the same answer after other queries (different skip lists) on the same basis object
"""
import itertools
import json
import sys

import numpy as np

from native import zoo as Z
from native.standin_mesh import cells_with, elements_for, fs


def local_names(e):
    import skfem as fem
    if isinstance(e, fem.ElementComposite):
        subs = [local_names(x) for x in e.elems]
        out = []
        for i in range(int(e._bfun_counts().sum())):
            n, ind = e._deduce_bfun(i)
            out.append("%s^%d" % (subs[int(n)][int(ind)], int(n) + 1))
        return out
    if isinstance(e, fem.ElementVector):
        sub = local_names(e.elem)
        return ["%s^%d" % (sub[i // e.dim], i % e.dim + 1) for i in range(len(sub) * e.dim)]
    if isinstance(e, fem.ElementDG):
        return local_names(e.elem)
    rd = e.refdom
    nd, fd, ed, idf = e.nodal_dofs, e.facet_dofs, e.edge_dofs, e.interior_dofs
    names = list(e.dofnames)
    out = []
    out += [names[r] for _ in range(rd.nnodes) for r in range(nd)]
    out += [names[nd + fd + r] for _ in range(rd.nedges) for r in range(ed)]
    out += [names[nd + r] for _ in range(rd.nfacets) for r in range(fd)]
    out += [names[nd + fd + ed + r] for r in range(idf)]
    return out


def dof_names(basis):
    ln = local_names(basis.elem)
    ed = basis.element_dofs
    name = {}
    for i in range(ed.shape[0]):
        for g in ed[i]:
            name.setdefault(int(g), ln[i])
    return name


def dof_kinds(basis):
    d = basis.dofs
    kind = {}
    for tab, k in ((d.nodal_dofs, "nodal"), (d.edge_dofs, "edge"), (d.facet_dofs, "facet"), (d.interior_dofs, "interior")):
        for g in np.asarray(tab).ravel():
            kind[int(g)] = k
    return kind


def closure_facets(basis, F):
    m, d = basis.mesh, basis.dofs
    out = set()
    V = set(int(v) for f in F for v in m.facets[:, f])
    for v in V:
        out |= set(int(g) for g in d.nodal_dofs[:, v])
    if d.facet_dofs.size and m.dim() >= 2:
        for f in F:
            out |= set(int(g) for g in d.facet_dofs[:, f])
    if m.dim() == 3 and d.edge_dofs.size:
        rd = m.elem.refdom
        fsets = [fs(m.facets[:, f]) for f in F]
        for e in range(m.edges.shape[1]):
            pe = fs(m.edges[:, e])
            # an edge of the mesh belongs to facet f iff it is a local edge of an owning cell with both end points in the facet
            for f, S in zip(F, fsets):
                if pe <= S:
                    k = int(m.f2t[0, f])
                    loc = {int(m.t[r, k]): r for r in range(m.t.shape[0])}
                    a, b = [loc[v] for v in pe]
                    if any(set(le) == {a, b} for le in rd.edges):
                        out |= set(int(g) for g in d.edge_dofs[:, e])
                        break
    return out


def check_case(label, m, e, rng):
    import skfem as fem
    fails = []
    ename = type(e).__name__ + ("(%s)" % ",".join(type(x).__name__ for x in e.elems) if hasattr(e, "elems") else "")
    try:
        basis = fem.CellBasis(m, e)
    except Exception as ex:
        return ["%s: Basis raised %s" % (ename, ex)]
    N = basis.N
    names, kinds = dof_names(basis), dof_kinds(basis)
    allnames = sorted(set(names.values()))
    nf, nt = m.facets.shape[1], m.t.shape[1]
    mid = m.p[:, m.facets].mean(axis=1)
    # facet selections: by a coordinate predicate so that predicate / index / tag forms can be compared
    c = float(np.median(mid[0]))
    F = np.nonzero(mid[0] <= c)[0]
    F2 = np.nonzero(mid[-1] > float(np.median(mid[-1])))[0]
    mt = m.with_boundaries({"sel": F, "sel2": F2}).with_subdomains({"sub": np.arange(nt)[::2]})
    bt = fem.CellBasis(mt, e)
    want = closure_facets(basis, F.tolist())
    forms = {"index-array": lambda: bt.get_dofs(F), "predicate": lambda: bt.get_dofs(lambda x: x[0] <= c), "tag": lambda: bt.get_dofs("sel"),
             "list-of-tag": lambda: bt.get_dofs(["sel"]), "facets-kw": lambda: bt.get_dofs(facets=F)}
    for fname, f in forms.items():
        try:
            got = set(int(g) for g in f().flatten())
        except Exception as ex:
            fails.append("%s: get_dofs(%s) raised %s: %s" % (ename, fname, type(ex).__name__, ex))
            continue
        if got != want:
            fails.append("%s: CLOSURE/SELECTORS get_dofs(%s): %d DOFs, closure of the selected facets has %d (missing %s, extra %s)"
                         % (ename, fname, len(got), len(want), sorted(want - got)[:5], sorted(got - want)[:5]))
    wantu = closure_facets(basis, sorted(set(F.tolist()) | set(F2.tolist())))
    for fname, f in {"set-of-tags": lambda: bt.get_dofs({"sel", "sel2"}), "tuple-mixed": lambda: bt.get_dofs(("sel", F2)),
                     "list-mixed": lambda: bt.get_dofs([F, "sel2"])}.items():
        try:
            got = set(int(g) for g in f().flatten())
            if got != wantu:
                fails.append("%s: SELECTORS get_dofs(%s) differs from the closure of the union of the two facet sets" % (ename, fname))
        except Exception as ex:
            fails.append("%s: get_dofs(%s) raised %s: %s" % (ename, fname, type(ex).__name__, ex))
    # boundary + complement
    vc, ec, fc = cells_with(m)
    bf = sorted(f for f in range(nf) if len(fc[fs(m.facets[:, f])]) == 1)
    gb = set(int(g) for g in basis.get_dofs().flatten())
    if gb != closure_facets(basis, bf):
        fails.append("%s: BOUNDARY get_dofs() is not the closure of the single-neighbour facets" % ename)
    comp = basis.complement_dofs(basis.get_dofs())
    if sorted(int(g) for g in comp) != sorted(set(range(N)) - gb):
        fails.append("%s: COMPLEMENT complement_dofs(get_dofs()) is not [0,N) minus the boundary DOFs" % ename)
    # ... also when asked through a basis restricted to some cells / facets (it shares N and the numbering with the full basis)
    try:
        subs = [("CellBasis(elements=first half)", fem.CellBasis(m, e, elements=np.arange(max(1, nt // 2))))]
        if m.dim() >= 2 and m.bndelem is not None and not isinstance(e, fem.ElementComposite) and type(e).__name__ != "ElementTriN3":
            subs.append(("FacetBasis(two boundary facets)", fem.FacetBasis(m, e, facets=m.boundary_facets()[:2])))
        for sname, sb in subs:
            comp = sb.complement_dofs(sb.get_dofs())
            if sorted(int(g) for g in comp) != sorted(set(range(N)) - gb):
                fails.append("%s: COMPLEMENT complement_dofs(get_dofs()) asked through %s is not [0,N) minus the boundary DOFs (%d instead of %d DOFs)" % (ename, sname, len(comp), N - len(gb)))
    except Exception as ex:
        if not isinstance(ex, NotImplementedError):
            fails.append("%s: COMPLEMENT through a restricted basis raised %s: %s" % (ename, type(ex).__name__, str(ex)[:100]))
    # elements / nodes
    K = np.arange(nt)[::2]
    wantK = set(int(g) for g in basis.element_dofs[:, K].ravel())
    for fname, f in {"elements-array": lambda: bt.get_dofs(elements=K), "elements-tag": lambda: bt.get_dofs(elements="sub")}.items():
        got = set(int(g) for g in f().flatten())
        if got != wantK:
            fails.append("%s: CLOSURE get_dofs(%s) is not the set of DOFs of the selected cells" % (ename, fname))
    V = np.unique(m.t[:, 0])
    gotV = set(int(g) for g in basis.get_dofs(nodes=V).flatten())
    if gotV != set(int(g) for g in basis.dofs.nodal_dofs[:, V].ravel()):
        fails.append("%s: CLOSURE get_dofs(nodes=V) is not the set of nodal DOFs of V" % ename)
    # NAMES
    v = basis.get_dofs(F)
    base = set(int(g) for g in v.flatten())
    for nm in allnames:
        w = set(g for g in base if names[g] == nm)
        for what, got in (("all(%r)" % nm, v.all(nm)), ("keep([%r])" % nm, v.keep([nm]).flatten()), ("all([%r])" % nm, v.all([nm]))):
            if set(int(g) for g in got) != w:
                fails.append("%s: NAMES %s returns %d DOFs, %d selected DOFs carry that name" % (ename, what, len(set(got.tolist())), len(w)))
        if set(int(g) for g in v.drop(nm).flatten()) != base - w:
            fails.append("%s: NAMES drop(%r) wrong" % (ename, nm))
        if set(int(g) for g in basis.get_dofs(F, skip=[nm]).flatten()) != base - w:
            fails.append("%s: NAMES get_dofs(skip=[%r]) wrong" % (ename, nm))
        if len(v.drop(nm).keep(nm).flatten()) != 0:
            fails.append("%s: NAMES drop(%r).keep(%r) must be empty (filters compose by intersection)" % (ename, nm, nm))
    if len(allnames) >= 2:
        a, b = allnames[0], allnames[1]
        got = set(int(g) for g in basis.get_dofs(F, skip=[a]).keep([a, b]).flatten())
        if got != set(g for g in base if names[g] == b):
            fails.append("%s: NAMES get_dofs(skip=[%r]).keep([%r,%r]) must not bring back the skipped name" % (ename, a, a, b))
        got = set(int(g) for g in v.keep([a, b]).flatten())
        if got != set(g for g in base if names[g] in (a, b)):
            fails.append("%s: NAMES keep([%r,%r]) wrong" % (ename, a, b))
    for kn in ("nodal", "facet", "edge", "interior"):
        try:
            dct = getattr(v, kn)
        except Exception as ex:
            fails.append("%s: NAMES view.%s raised %s: %s" % (ename, kn, type(ex).__name__, ex))
            continue
        for nm, arr in dct.items():
            w = set(g for g in base if names[g] == nm and kinds[g] == kn)
            if set(int(g) for g in arr) != w:
                fails.append("%s: NAMES view.%s[%r] has %d DOFs, expected the %d selected %s DOFs of that name" % (ename, kn, nm, len(set(arr.tolist())), len(w), kn))
    # HISTORY: argument-free query after a query with skip
    if allnames:
        b2 = fem.CellBasis(m, e)
        b2.get_dofs(skip=[allnames[0]])
        if set(int(g) for g in b2.get_dofs().flatten()) != gb:
            fails.append("%s: HISTORY get_dofs() after get_dofs(skip=[%r]) differs from a fresh query" % (ename, allnames[0]))
        b2.get_dofs()
        wsk = set(g for g in gb if names[g] != allnames[0])
        if set(int(g) for g in b2.get_dofs(skip=[allnames[0]]).flatten()) != wsk:
            fails.append("%s: HISTORY get_dofs(skip=...) after get_dofs() differs from a fresh query" % ename)
    # TRACE
    fam = [c_.__name__ for c_ in type(e).__mro__]
    # TRACE is claimed for conforming elements (H1 / H(div) / H(curl)); Crouzeix-Raviart and piecewise constants are excluded
    nonconf = any(s in type(e).__name__ for s in ("CR", "P0", "Quad0", "Hex0", "Skeleton", "Mini")) and "ElementVector" not in type(e).__name__
    nonconf = any(s in type(e).__name__ for s in ("CR", "P0", "Quad0", "Hex0", "Skeleton", "HHJ"))
    # discontinuous subclasses (ElementTriP1DG ...: every DOF interior) promise no trace control either; an H1 element needs vertex DOFs to be conforming
    if "ElementH1" in fam and "ElementHdiv" not in fam and "ElementHcurl" not in fam and getattr(e, "nodal_dofs", 0) == 0 and not isinstance(e, fem.ElementVector):
        nonconf = True
    # ElementTriN3.gbasis has no branch for per-cell point arrays: FacetBasis(mesh, ElementTriN3()) raises by construction (observation in DESIGN A.3)
    if type(e).__name__ == "ElementTriN3":
        nonconf = True
    if (not isinstance(e, (fem.ElementGlobal, fem.ElementComposite, fem.ElementDG)) and "ElementMatrix" not in fam and len(F) and m.dim() >= 2
            and not nonconf and m.bndelem is not None):
        try:
            fb = fem.FacetBasis(m, e, facets=F)
            y = rng.uniform(.5, 1.5, N)
            y[sorted(want)] = 0.0
            u = fb.interpolate(y)
            val = np.asarray(u)
            n = fb.normals
            if "ElementHdiv" in fam:
                tr = np.einsum("i...,i...", val, n)
            elif "ElementHcurl" in fam:
                tr = (val[0] * (-n[1]) + val[1] * n[0]) if m.dim() == 2 else np.cross(n, val, axis=0)
            else:
                tr = val
            if np.max(np.abs(tr)) > 1e-10:
                fails.append("%s: TRACE a function with zero coefficients on get_dofs(F) has trace %.3e on F" % (ename, np.max(np.abs(tr))))
        except Exception as ex:
            fails.append("%s: TRACE raised %s: %s" % (ename, type(ex).__name__, ex))
    return fails


def run(payload):
    tier, seed = payload.get("tier", "quick"), int(payload.get("seed", 0))
    only = payload.get("only")
    rng = np.random.RandomState(seed)
    cases, failures, samples = 0, [], []
    for label, m in Z.zoo(tier, seed, variants=1 if tier == "quick" else 3):
        if label.startswith("line"):
            continue
        els = elements_for(m)
        if tier == "quick" and "~" in label:
            els = els[::3]
        for e in els:
            ename = type(e).__name__ + ("(%s)" % ",".join(type(x).__name__ for x in e.elems) if hasattr(e, "elems") else "")
            clabel = "%s/%s" % (label, ename)
            if only and only != clabel:
                continue
            cases += 1
            if len(samples) < 3:
                samples.append(clabel)
            try:
                fl = check_case(label, m, e, rng)
            except Exception as ex:
                import traceback
                fl = ["exception %s: %s | %s" % (type(ex).__name__, ex, traceback.format_exc()[-400:])]
            for f in fl[:4]:
                failures.append(dict(input=dict(mesh=label, element=ename), observed=f, replay=dict(kind="dofquery_case", only=clabel, seed=seed, tier=tier)))
    return dict(cases=cases, failures=failures[:25], nfail=len(failures), samples=samples,
                bound=Z.describe(tier, 1 if tier == "quick" else 3) + " (2-D and 3-D meshes) x element list per cell type (incl. vector, composite, DG, H(div), H(curl), global)")


def replay_dofquery_case(sp):
    r = run(dict(only=sp["only"], seed=sp.get("seed", 0), tier=sp.get("tier", "quick")))
    return dict(confirmed=bool(r["failures"]), observed=[f["observed"] for f in r["failures"]][:3], input=sp["only"])


def replay_dofnames(sp):
    """a refuted NAMES obligation: evaluate the NAMES clauses on real bases (3-D composites incl.)."""
    r = run(dict(tier="quick", seed=0))
    f = [x for x in r["failures"] if "NAMES" in x["observed"] or "HISTORY" in x["observed"]]
    return dict(confirmed=bool(f) if f else None, observed=[x["observed"] for x in f][:3], input=[x["input"] for x in f][:3])


if __name__ == "__main__":
    print("\n@@JSON@@" + json.dumps(run(json.load(sys.stdin)), default=str))
