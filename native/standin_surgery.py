"""Bounded stand-in for C18 (mesh surgery keeps geometry valid and carries tags to the same entities); run under /venv.

Every case is a chain of at most three surgery operations applied to a tagged zoo mesh.  Next to the library mesh an independent
MODEL is carried along: the multiset of cells as sets of vertex coordinates, the total measure, and every named subdomain / boundary
as a set of such coordinate sets.  Each operation updates the model from first principles (set definitions, affine images, Cartesian
products, containment in parent cells) and the library result must agree with it clause by clause (the cl_* functions):
VALID, MEASURE, CELLS, RANGE, SUBDOMAINS, BOUNDARIES for every result; MAPPING (restrict), COORDINATES (translated / scaled / mirrored /
morphed), ORIENTED, SPLIT + PARTITION + CONFORMING (to_meshtri / to_meshtet), JOIN (+), MATMUL (@), EXTRUDE (*), TRACE."""
import itertools
import json
import math
import sys
from collections import Counter
from dataclasses import replace
from functools import partial

import numpy as np

from native import zoo as Z

KIND = {"MeshLine1": "line", "MeshTri1": "tri", "MeshQuad1": "quad", "MeshTet1": "tet", "MeshHex1": "hex", "MeshWedge1": "wedge"}
SHAPE = {"line": (1, 2), "tri": (2, 3), "quad": (2, 4), "tet": (3, 4), "hex": (3, 8), "wedge": (3, 6)}      # (dimension, vertices per cell)
# my own decompositions into simplices (local vertex numbers), used only to measure cells; simplices measure themselves
SPLIT = {"quad": [[0, 1, 2], [0, 2, 3]], "wedge": [[0, 1, 2, 5], [0, 1, 4, 5], [0, 3, 4, 5]],
         "hex": [[0, 1, 4, 7], [0, 1, 5, 7], [0, 2, 4, 7], [0, 2, 6, 7], [0, 3, 5, 7], [0, 3, 6, 7]]}
TOL = 1e-10


def kind(m):
    return KIND[type(m).__name__]


# ---------------------------------------------------------------- independent geometry
def measures(p, t, kd=None):
    """cell measures from coordinates: simplices by (Gram) determinant, quads / hexes / prisms by my own split into simplices."""
    out = np.zeros(t.shape[1])
    for s in SPLIT.get(kd, [list(range(t.shape[0]))]):
        X = p[:, t[s]]
        E = (X[:, 1:] - X[:, :1]).transpose(2, 0, 1)
        out += np.sqrt(np.abs(np.linalg.det(np.einsum("cij,cik->cjk", E, E)))) / math.factorial(E.shape[2])
    return out


def pts(p):
    return [tuple(c) for c in np.asarray(p).T.tolist()]


def coordsets(p, t):
    """every column of t as the set of its vertex coordinates."""
    P = pts(p)
    return [frozenset(P[v] for v in col) for col in np.asarray(t).T.tolist()]


def model_of(m):
    """what a tagged mesh designates geometrically (tag indices read against m.t / m.facets)."""
    c, f = coordsets(m.p, m.t), None
    if m.boundaries:
        f = coordsets(m.p, m.facets)
    return dict(cells=Counter(c), meas=float(measures(m.p, m.t, kind(m)).sum()),
                sub={n: {c[k] for k in np.asarray(ix).tolist()} for n, ix in (m.subdomains or {}).items()},
                bnd={n: {f[k] for k in np.asarray(ix).tolist()} for n, ix in (m.boundaries or {}).items()})


def snap(q, p, tol):
    """index of the unique column of p within tol (max norm) of each column of q, -1 if there is none or several."""
    D = np.abs(q[:, :, None] - p[:, None, :]).max(axis=0) <= tol
    return np.where(D.sum(axis=1) == 1, D.argmax(axis=1), -1)


# ---------------------------------------------------------------- clauses
def cl_valid(m, kd=None):
    """VALID: is_valid() holds and, independently, shapes fit, points are distinct, every point is used, no cell is degenerate."""
    kd = kd or kind(m)
    if not m.is_valid():
        return ["VALID: is_valid() is False"]
    if (m.p.shape[0], m.t.shape[0]) != SHAPE[kd]:
        return ["VALID: shapes p%s t%s" % (m.p.shape, m.t.shape)]
    if len(set(pts(m.p))) != m.p.shape[1] or set(m.t.ravel().tolist()) != set(range(m.p.shape[1])):
        return ["VALID: duplicate or unused vertices"]
    return [] if measures(m.p, m.t, kd).min() > 0 else ["VALID: a cell has zero measure"]


def cl_measure(G, M):
    """MEASURE: total measure equals the expected one."""
    return [] if abs(G["meas"] - M["meas"]) <= TOL * abs(M["meas"]) else ["MEASURE: got %.15g, expected %.15g" % (G["meas"], M["meas"])]


def cl_cells(G, M):
    """CELLS: same multiset of cells as coordinate sets (shared-vertex structure preserved)."""
    bad = (G["cells"] - M["cells"]) + (M["cells"] - G["cells"])
    return ["CELLS: %d unexpected / missing coordinate sets (got %d cells, expected %d)" % (sum(bad.values()), sum(G["cells"].values()), sum(M["cells"].values()))] if bad else []


def cl_range(m):
    """RANGE: tags only name existing cells / facets (checked first: negative indices would silently wrap around)."""
    out = []
    for key, tags, n in (("SUBDOMAINS", m.subdomains, m.t.shape[1]), ("BOUNDARIES", m.boundaries, m.facets.shape[1] if m.boundaries else 0)):
        for name, ix in (tags or {}).items():
            ix = np.asarray(ix)
            if ix.size and (ix.dtype.kind not in "iu" or ix.min() < 0 or ix.max() >= n):
                out.append("%s: '%s' names a non-existing entity: %s (there are %d)" % (key, name, ix.tolist()[:8], n))
    return out


def cl_tags(tags, G, M, key):
    """SUBDOMAINS / BOUNDARIES: a carried-over name designates exactly the surviving geometric entities it designated before."""
    out, K = [], {"sub": "SUBDOMAINS", "bnd": "BOUNDARIES"}[key]
    for n in (tags or {}):
        if n not in M[key]:
            out.append("%s: '%s' appeared from nowhere" % (K, n))
        elif G[key][n] != M[key][n]:
            out.append("%s: '%s' designates %d entities of which %d are wrong, %d expected ones are missing"
                       % (K, n, len(G[key][n]), len(G[key][n] - M[key][n]), len(M[key][n] - G[key][n])))
    return out


def agree(m, M):
    out = cl_valid(m) or cl_range(m)
    if out:
        return out
    G = model_of(m)
    return cl_measure(G, M) + cl_cells(G, M) + cl_tags(m.subdomains, G, M, "sub") + cl_tags(m.boundaries, G, M, "bnd")


def cl_mapping(m, r, ix, keep):
    """MAPPING: p_new == p_old[:, mapping] and new cell j consists of the old vertices of old cell elements[j]."""
    ix = np.asarray(ix)
    if ix.shape != (r.p.shape[1],) or ix.min() < 0 or ix.max() >= m.p.shape[1] or not np.array_equal(r.p, m.p[:, ix]):
        return ["MAPPING: p_new != p_old[:, mapping]"]
    return [] if np.array_equal(np.sort(ix[r.t], axis=0), np.sort(m.t[:, keep], axis=0)) else ["MAPPING: mapping[t_new] != t_old[:, elements]"]


def cl_coordinates(r, E, tol):
    """COORDINATES: vertex i moved exactly to the image of old vertex i (tol > 0 only for reflections with a normalised oblique normal)."""
    ok = r.p.shape == E.shape and (np.array_equal(r.p, E) if tol == 0 else np.abs(r.p - E).max() <= tol)
    return [] if ok else ["COORDINATES: max deviation from the expected image %s" % (np.abs(r.p - E).max() if r.p.shape == E.shape else "shape")]


def cl_orientation(r):
    """ORIENTED: every simplex has a positive Jacobian determinant in its stored vertex order."""
    X = r.p[:, r.t]
    return [] if (np.linalg.det((X[:, 1:] - X[:, :1]).transpose(2, 0, 1)) > 0).all() else ["ORIENTED: a cell has non-positive orientation"]


# ---------------------------------------------------------------- operations: (mesh, model, rng, S) -> (result | None, new model, failures)
def op_restrict(m, M, rng, S, how):
    nt = m.t.shape[1]
    if S is None:                                         # random subset in random order: non-empty; for removal proper, possibly empty
        S = rng.permutation(nt)[:rng.randint(0, nt) if how == "remove" else rng.randint(1, nt + 1)]
    if how == "byname" and m.subdomains and len(m.subdomains.get("A", ())):
        arg, keep = "A", np.asarray(m.subdomains["A"]).tolist()
    elif how == "remove":
        arg, keep = S, [k for k in range(nt) if k not in set(S.tolist())]
    else:
        arg, keep = S, S.tolist()
    old, ms = coordsets(m.p, m.t), measures(m.p, m.t, kind(m))
    skip = dict(skip_boundaries=bool(rng.rand() < .1), skip_subdomains=bool(rng.rand() < .1))      # skipped families must simply not be carried
    r, ix = (m.remove_elements(arg), None) if how == "remove" else m.restrict(arg, return_mapping=True, **skip)
    kept = [old[k] for k in keep]
    M2 = dict(cells=Counter(kept), meas=float(ms[keep].sum()), sub={n: s & set(kept) for n, s in M["sub"].items()},
              bnd={n: {f for f in b if any(f <= c for c in kept)} for n, b in M["bnd"].items()})     # facets of kept cells only
    return r, M2, ([] if ix is None else cl_mapping(m, r, ix, keep))


def op_transform(m, M, rng, S, what):
    d, p, tol = m.p.shape[0], m.p, 0
    import skfem as fem
    try:
        fem.CellBasis(m, m.elem(), intorder=1)          # the operand has been USED: its reference mapping (and finder) are cached
        used = True
    except Exception:
        used = False
    if what == "translate":
        v = np.array([.5, -1.25, 2.])[:d]
        r, E = m.translated(tuple(v)), p + v[:, None]
    elif what == "scale":
        v = np.array([2., .5, 1.5])[:d]
        r, E = m.scaled(tuple(v)), p * v[:, None]
    elif what == "morph":                                 # each function sees the ORIGINAL points; None leaves a coordinate alone
        fs = [lambda x: x[0] ** 3 + x[0]] if d == 1 else [lambda x: x[0] + .25 * x[1], lambda x: x[1] + .125 * x[0], None][:d]
        r, E = m.morphed(*fs), np.array([p[i] if f is None else f(p) for i, f in enumerate(fs)])
    else:                                                 # reflection x - 2 ((x - p0).u) u
        n, p0 = (np.array([1., 0, 0])[:d], None) if what == "mirror" else (np.array([1., 2., -1.])[:d], (.25, .5, -1.)[:d])
        r, u, q = m.mirrored(tuple(n), p0), n / math.sqrt(float(n @ n)), np.zeros(d) if p0 is None else np.array(p0)
        E, tol = np.array([x - 2. * float((x - q) @ u) * u for x in p.T]).T, 1e-12
    f = cl_coordinates(r, E, tol)
    if not f and used and type(r).__name__ in ("MeshLine1", "MeshTri1", "MeshQuad1", "MeshTet1", "MeshHex1"):
        # the cells of the result occupy the transformed point sets ALSO as seen through the result's own mapping / bases
        b = fem.CellBasis(r, r.elem(), intorder=1)
        if b.doflocs.shape != r.p.shape or not np.allclose(b.doflocs, r.p, atol=1e-12):
            f = ["COORDINATES: a basis built on the result places the vertices at the operand's (old) coordinates: max deviation %.3e" % np.abs(b.doflocs - r.p).max()]
    if f:
        return None, None, f
    g = dict(zip(pts(p), pts(r.p)))

    def im(sets):
        return [frozenset(g[x] for x in s) for s in sets]
    return r, dict(cells=Counter(im(M["cells"].elements())), meas=float(measures(E, m.t, kind(m)).sum()),
                   sub={n: set(im(s)) for n, s in M["sub"].items()}, bnd={n: set(im(s)) for n, s in M["bnd"].items()}), []


def op_unused(m, M, rng, S):
    """insert two unused points (one in the middle of the numbering) and drop them again."""
    j, far = rng.randint(0, m.p.shape[1] + 1), m.p.max(axis=1)
    m2 = replace(m, doflocs=np.hstack((np.insert(m.p, j, far + 1., axis=1), far[:, None] + 2.)), t=m.t + (m.t >= j))
    assert not m2.is_valid() and not cl_cells(model_of(m2), M), "stand-in bug: input with unused vertices"
    return m2.remove_unused_nodes(), M, []


def op_dedupe(m, M, rng, S):
    """give some cells private copies of their vertices (same coordinates), re-tag facets by coordinates, merge duplicates again."""
    nv, nt, t2, cols = m.p.shape[1], m.t.shape[1], m.t.copy(), [m.p]
    for k in rng.permutation(nt)[:rng.randint(1, nt + 1)]:
        cols.append(m.p[:, m.t[:, k]])
        t2[:, k] = nv + np.arange(t2.shape[0])
        nv += t2.shape[0]
    m2 = replace(m, doflocs=np.hstack(cols), t=t2, _boundaries=None)
    fs = coordsets(m2.p, m2.facets)
    m2 = replace(m2, _boundaries={n: np.array([i for i, s in enumerate(fs) if s in b], dtype=np.int32) for n, b in M["bnd"].items()} or None)
    G = model_of(m2)
    assert not m2.is_valid() and not (cl_cells(G, M) + cl_tags(m2.boundaries, G, M, "bnd")), "stand-in bug: input with duplicate vertices"
    return m2.remove_duplicate_nodes(), M, []


def op_oriented(m, M, rng, S):
    r = m.oriented()
    return r, M, cl_orientation(r)


def cl_partition(corners, kids):
    """PARTITION: inside a (convex) parent every facet of a child simplex is shared by exactly two children or lies in a supporting
    hyperplane of the parent, i.e. the children neither overlap nor leave a gap (together with SPLIT's containment and measure)."""
    cnt = Counter(frozenset(pts(np.delete(K, i, axis=1))) for K in kids for i in range(K.shape[1]))
    for F, c in cnt.items():
        A = np.array(sorted(F)).T
        side = [np.linalg.det(np.hstack((A[:, 1:] - A[:, :1], (x - A[:, 0])[:, None]))) for x in corners.T]
        if c > 2 or (c == 1 and min(side) < -1e-12 and max(side) > 1e-12):
            return ["PARTITION: the simplices of a cell overlap or leave a gap (facet %s)" % sorted(F)]
    return []


def cl_conforming(par, ch, d):
    """CONFORMING: a child facet owned by a single simplex lies in no face common to two parent cells, i.e. parents that shared a facet
    still share it piecewise (same shared-vertex structure; the split of a conforming mesh is a conforming mesh)."""
    cnt = Counter(F for c in ch for F in map(frozenset, itertools.combinations(sorted(c), d)))
    bad = [F for F, c in cnt.items() if c == 1 and sum(F <= P for P in par) > 1]
    return ["CONFORMING: %d simplex facets inside faces shared by two parent cells are not shared by the simplices on both sides" % len(bad)] if bad else []


def op_split(m, M, rng, S, style=None):
    """SPLIT: every simplex lies in exactly one parent cell (its vertices are parent vertices, or the parent's centroid for style 'x'),
    the children of a parent add up to its measure and partition it, no other vertices appear, the returned elementwise map names the parent."""
    nt, par, pm = m.t.shape[1], coordsets(m.p, m.t), measures(m.p, m.t, kind(m))
    if kind(m) == "quad":
        r, X = m.to_meshtri(x=np.arange(nt), style=style)
    else:
        r, X = m.to_meshtet(), None
    f = cl_valid(r)
    if f:
        return None, None, f
    cen = m.p[:, m.t].mean(axis=1)
    cix = snap(cen, r.p, 1e-12) if style == "x" else -np.ones(nt, dtype=int)
    P, ch, cm = pts(r.p), coordsets(r.p, r.t), measures(r.p, r.t)
    allowed = [c | ({P[cix[k]]} if cix[k] >= 0 else set()) for k, c in enumerate(par)]
    cand = [[k for k in range(nt) if c <= allowed[k]] for c in ch]
    if any(len(c) != 1 for c in cand):
        return None, None, ["SPLIT: a simplex is not spanned by the vertices (or centroid) of exactly one parent cell"]
    parent = np.array([c[0] for c in cand])
    if np.abs(np.bincount(parent, weights=cm, minlength=nt) - pm).max() > TOL * pm.max():
        f.append("SPLIT: the children of a cell do not add up to its measure")
    for k in range(nt):
        f += cl_partition(np.array(sorted(allowed[k])).T, [r.p[:, r.t[:, j]] for j in np.nonzero(parent == k)[0]]) if not f else []
    f += cl_conforming(par, ch, m.p.shape[0]) if not f else []
    if set(P) != set(pts(m.p)) | {P[i] for i in cix if i >= 0} or (style == "x" and (cix < 0).any()):
        f.append("SPLIT: vertex set is not the old vertices%s" % (" plus cell centroids" if style == "x" else ""))
    if X is not None and not np.array_equal(np.asarray(X), parent):
        f.append("SPLIT: the carried elementwise function does not name the parent of each triangle")
    return r, dict(cells=Counter(ch), meas=M["meas"], bnd=M["bnd"], sub={n: {c for c, k in zip(ch, parent) if par[k] in s} for n, s in M["sub"].items()}), f


def op_join(m, M, rng, S, how):
    """JOIN (+): result vertices are the operands' vertices, merged within 1e-8; cells are the cells of both operands (1e-8 is only used to
    identify vertices: MEASURE / CELLS are then checked as strictly as everywhere else)."""
    d, x1 = m.p.shape[0], float(m.p[0].max())
    if how == "s":
        # partner obtained by a NEGATIVE scaling factor: its vertices on the plane x = 0 carry the coordinate -0.0
        m = m.translated((-float(m.p[0].min()), 0., 0.)[:d])
        o = m.scaled((-1., 1., 1.)[:d])
    else:
        o = m.translated((x1 - float(m.p[0].min()), 0., 0.)[:d]) if how == "t" else m.mirrored((1., 0., 0.)[:d], (x1, 0., 0.)[:d])
    r, q = m + o, np.hstack((m.p, o.p))
    loc = snap(q, r.p, 1e-8)
    if (loc < 0).any() or set(loc.tolist()) != set(range(r.p.shape[1])):
        return None, None, ["JOIN: vertices of the result are not the operands' vertices merged within 1e-8"]
    P = pts(r.p)
    cells = [frozenset(P[loc[v]] for v in col) for col in np.hstack((m.t, o.t + m.p.shape[1])).T.tolist()]
    # `+` is documented/implemented to round coordinates to 8 decimals before merging: the expected measure is that of the rounded operands
    meas = float(measures(np.round(m.p, 8), m.t, kind(m)).sum()) + float(measures(np.round(o.p, 8), o.t, kind(o)).sum())
    return r, dict(cells=Counter(cells), meas=meas, sub={}, bnd={}), []


def op_matmul(m, M, rng, S):
    """MATMUL (@): meshes of different type over ONE shared point array without duplicates; each keeps its cells; dropping the
    other mesh's points gives a valid mesh."""
    import skfem as fem
    lo, hi = m.p.min(axis=1), m.p.max(axis=1)
    ax = [np.array([hi[0], hi[0] + 1.])] + [np.array([lo[i], hi[i]]) for i in range(1, len(lo))]
    o = {"tri": fem.MeshQuad1, "quad": fem.MeshTri1, "tet": fem.MeshHex1, "hex": fem.MeshTet1, "wedge": fem.MeshTet1}[kind(m)].init_tensor(*ax)
    A, B = m @ o
    f = []
    if not np.array_equal(A.p, B.p) or len(set(pts(A.p))) != A.p.shape[1] or set(pts(A.p)) != set(pts(m.p)) | set(pts(o.p)):
        f.append("MATMUL: shared points are not the duplicate-free union of the operands' points")
    for X, Y in ((A, m), (B, o)):
        if type(X) is not type(Y) or Counter(coordsets(X.p, X.t)) != Counter(coordsets(Y.p, Y.t)):
            f.append("MATMUL: an operand's cells changed")
        else:
            f += agree(X.remove_unused_nodes(), dict(model_of(Y), sub={}, bnd={}))
    # SPLIT of an operand of @ (its point array holds the other mesh's points, which none of its cells uses): same measure, no degenerate cell
    for X, Y in ((A, m), (B, o)):
        for meth, kw in (("to_meshtri", {}), ("to_meshtri", dict(style="x")), ("to_meshtet", {})):
            if not hasattr(X, meth) or (kw and kind(Y) != "quad"):
                continue
            try:
                Tm = getattr(X, meth)(**kw)
                ms = measures(Tm.p, Tm.t, kind(Tm))
                want = float(measures(Y.p, Y.t, kind(Y)).sum())
                if abs(float(ms.sum()) - want) > 1e-10 * max(1., want) or float(ms.min()) <= 0:
                    f.append("MATMUL>SPLIT: %s(%s) of an operand of @ has measure %.6g (expected %.6g), smallest cell %.3g" % (meth, kw, float(ms.sum()), want, float(ms.min())))
            except NotImplementedError:
                pass
            except Exception as e:
                f.append("MATMUL>SPLIT: %s(%s) raised %s: %s" % (meth, kw, type(e).__name__, str(e)[:100]))
    # a LIST of several meshes: every listed mesh keeps its own cells (its points follow those of all the preceding meshes)
    sh = np.zeros(len(lo))
    sh[0] = 1.
    o2 = type(m)(m.p + 2 * (hi[0] - lo[0] + 1.) * sh[:, None], m.t)
    ops = [m, o, o2, o.translated(tuple(3 * (hi[0] - lo[0] + 1.) * sh))]
    try:
        res = ops[0] @ ops[1:]
        if len(res) != len(ops):
            f.append("MATMUL(list): %d meshes returned for %d operands" % (len(res), len(ops)))
        for k, (X, Y) in enumerate(zip(res, ops)):
            if type(X) is not type(Y) or Counter(coordsets(X.p, X.t)) != Counter(coordsets(Y.p, Y.t)):
                f.append("MATMUL(list): the cells of operand %d changed" % k)
        if any(not np.array_equal(res[0].p, X.p) for X in res) or set(pts(res[0].p)) != set().union(*[set(pts(Y.p)) for Y in ops]):
            f.append("MATMUL(list): shared points are not the union of the operands' points")
    except Exception as e:
        f.append("MATMUL(list): raised %s: %s" % (type(e).__name__, str(e)[:100]))
    return None, None, f


def op_extrude(m, M, rng, S):
    """EXTRUDE (*): cells are the Cartesian products of the cells of both factors (second factor: a renumbered two-cell chain)."""
    import skfem as fem
    o = fem.MeshLine1(np.array([[1., 0., .3]]), np.array([[1, 2], [2, 0]]))
    cells = [frozenset(a + b for a in ca for b in cb) for ca in coordsets(m.p, m.t) for cb in coordsets(o.p, o.t)]
    return m * o, dict(cells=Counter(cells), meas=M["meas"] * float(measures(o.p, o.t).sum()), sub={}, bnd={}), []


def op_trace(m, M, rng, S):
    """TRACE: returned facet indices are the requested ones; trace cell j has exactly the (projected) coordinates of facet j; the typed
    trace is a valid mesh of the same measure as the facets."""
    import skfem as fem
    kd, F, f = kind(m), m.facets, []
    x0 = m.p[0].min()
    plane = [j for j in range(F.shape[1]) if (m.p[0, F[:, j]] == x0).all()]                 # brute force: facets inside the plane x = min
    typed = {"tri": ("line", fem.MeshLine1), "quad": ("line", fem.MeshLine1), "tet": ("tri", fem.MeshTri1), "hex": ("quad", fem.MeshQuad1)}.get(kd)
    sels = [("index", rng.permutation(F.shape[1])[:rng.randint(1, F.shape[1] + 1)], None)]
    sels += [("plane", plane, typed)] if plane else []
    sels += [("name", np.asarray(m.boundaries["mix"]), None)] if m.boundaries and len(m.boundaries.get("mix", ())) else []
    for how, want, ty in sels:
        arg = {"index": want, "name": "mix", "plane": lambda x: np.abs(x[0] - x0) < 1e-9}[how]
        tr, got = m.trace(arg, mtype=ty[1], project=lambda p: p[1:]) if ty else m.trace(arg)
        src = m.p[1:] if ty else m.p
        if not np.array_equal(np.asarray(got), np.asarray(want)) or coordsets(tr.p, tr.t) != coordsets(src, F[:, want]):
            f.append("TRACE(%s): returned facets / cell coordinates differ from the requested facets" % how)
        elif len(set(pts(tr.p))) != tr.p.shape[1] or set(tr.t.ravel().tolist()) != set(range(tr.p.shape[1])):
            f.append("TRACE(%s): duplicate or unused points" % how)
        elif ty:
            f += cl_valid(tr, ty[0]) + cl_measure(dict(meas=measures(tr.p, tr.t, ty[0]).sum()), dict(meas=measures(m.p, F[:, want], ty[0] if kd == "hex" else None).sum()))
    return None, None, f


OPS = {"restrict": partial(op_restrict, how="restrict"), "remove": partial(op_restrict, how="remove"), "byname": partial(op_restrict, how="byname"),
       "unused": op_unused, "dedupe": op_dedupe, "oriented": op_oriented, "split": op_split, "split_x": partial(op_split, style="x"),
       "join_t": partial(op_join, how="t"), "join_m": partial(op_join, how="m"), "join_s": partial(op_join, how="s"), "matmul": op_matmul, "extrude": op_extrude, "trace": op_trace}
OPS.update({w: partial(op_transform, what=w) for w in ("translate", "scale", "mirror", "mirror_obl", "morph")})
COMMON = ["restrict", "remove", "byname", "translate", "scale", "mirror", "mirror_obl", "morph", "unused", "dedupe", "join_t", "join_m", "join_s", "trace"]
FOR = {"line": COMMON + ["oriented", "extrude"], "tri": COMMON + ["oriented", "extrude", "matmul"], "quad": COMMON + ["split", "split_x", "matmul"],
       "tet": COMMON + ["oriented", "matmul"], "hex": COMMON + ["split", "matmul"], "wedge": COMMON + ["split", "matmul"]}
AFTER = {("quad", "split"): "tri", ("quad", "split_x"): "tri", ("hex", "split"): "tet", ("wedge", "split"): "tet", ("line", "extrude"): "quad", ("tri", "extrude"): "wedge"}


def tagged(m, rng):
    """tag set: unsorted / overlapping / empty / full subdomains; boundary facets, unsorted mix of interior and boundary facets, empty tag, oriented interface."""
    nt, nf = m.t.shape[1], m.facets.shape[1]
    A = rng.permutation(nt)[:rng.randint(1, nt + 1)]
    sub = {"A": A, "B": np.sort(rng.permutation(nt)[:rng.randint(0, nt + 1)]), "all": np.arange(nt), "none": np.zeros(0, dtype=np.int32)}
    bnd = {"bnd": m.boundary_facets(), "mix": rng.permutation(nf)[:rng.randint(1, nf + 1)], "none": np.zeros(0, dtype=np.int32)}
    if len(A) < nt:
        bnd["iface"] = m.facets_around(np.sort(A))
    return m.with_subdomains(sub).with_boundaries(bnd)


def cases(tier, seed):
    """yield (label, zoo label, tagged mesh, chain, case seed); all draws happen here, in a fixed order, whatever is evaluated later."""
    rng = np.random.RandomState(seed)
    for zl, m0 in Z.zoo(tier, seed):
        m, kd, nt, n = tagged(m0, rng), kind(m0), m0.t.shape[1], 0
        if nt <= 4:
            subsets = [np.array(c) for k in range(1, nt + 1) for c in itertools.combinations(range(nt), k)]
        else:
            subsets = [np.arange(nt)] + [rng.permutation(nt)[:rng.randint(1, nt)] for _ in range(9)]
        chains = []
        for i, S in enumerate(subsets):
            S = rng.permutation(S)                         # the order of the element array is part of the input
            chains += [[("restrict", S), (a, None)] for a in (FOR[kd] if nt <= 4 else [FOR[kd][(2 * i + j) % len(FOR[kd])] for j in (0, 1)])]
            chains += [[("remove", S)]] if len(S) < nt else [[("remove", S[:0])]]
        chains += [[(a, None)] for a in FOR[kd]]
        for ch in chains:
            k2 = kd
            for a, _ in ch:
                k2 = AFTER.get((k2, a), k2)
            if ch[-1][0] not in ("trace", "matmul"):       # one more random operation applicable to the current mesh type
                ch.append((FOR[k2][rng.randint(len(FOR[k2]))], None))
            n += 1
            lab = ">".join(a + ("" if S is None else (str(S.tolist()) if len(S) <= 8 else "{%d cells}" % len(S))) for a, S in ch)
            yield "%s/%d:%s" % (zl, n, lab), zl, m, ch, int(rng.randint(2 ** 31))


def run_chain(m, chain, cs):
    """-> None, or (group, message) for the first operation of the chain whose result violates a clause."""
    rng, M = np.random.RandomState(cs), model_of(m)
    for step, (name, S) in enumerate(chain):
        try:
            r, M2, f = OPS[name](m, M, rng, S)
            if r is not None and not f:
                f = agree(r, M2)
        except Exception as e:
            r, f = None, ["raised %s: %s" % (type(e).__name__, e)]
        if f:
            return "%s(%s)/%s" % (name, type(m).__name__, f[0].split(":")[0]), "step %d (%s on %s, %d cells): %s" % (step + 1, name, type(m).__name__, m.t.shape[1], " | ".join(f[:3]))
        if r is None:
            break
        for key, tags in (("sub", r.subdomains), ("bnd", r.boundaries)):       # only names that were carried over stay in the model
            M2[key] = {n: s for n, s in M2[key].items() if n in (tags or {})}
        m, M = r, M2
    return None


def run(payload):
    tier, seed, only = payload.get("tier", "quick"), int(payload.get("seed", 0)), payload.get("only")
    n, groups, samples = 0, {}, []
    for label, zl, m, chain, cs in cases(tier, seed):
        if only and label != only:
            continue
        n += 1
        if len(samples) < 3:
            samples.append(label)
        bad = run_chain(m, chain, cs)
        if bad:
            small = m.p.size <= 40 and m.t.size <= 60
            tags = dict(subdomains={k: np.asarray(v).tolist() for k, v in m.subdomains.items()}, boundaries={k: np.asarray(v).tolist() for k, v in m.boundaries.items()})
            groups.setdefault(bad[0], []).append(dict(
                input=dict(case=label, mesh=zl, **(dict(p=m.p.tolist(), t=m.t.tolist(), **tags) if small else dict(mesh_and_tags="zoo mesh, tags seeded"))),
                observed=bad[1], replay=dict(kind="surgery_case", only=label, tier=tier, seed=seed)))
    # report one failure per (operation, clause) group before the second of any group, so that the 20 reported ones are diverse
    failures = [g[i] for i in range(max(map(len, groups.values()), default=0)) for g in groups.values() if i < len(g)]
    bound = (Z.describe(tier) + "; every mesh tagged with a seeded tag set (subdomains: unsorted, overlapping, full, empty; boundaries: boundary facets, unsorted "
             "mix of interior+boundary facets, empty, oriented interface); chains of <= 3 operations from {restrict (with mapping), remove_elements, restrict by name, translated, "
             "scaled, mirrored (axis / oblique), morphed, remove_unused_nodes, remove_duplicate_nodes, oriented, to_meshtri (both styles), to_meshtet, + (join with a "
             "translated / mirrored copy), @, * (extrusion), trace}: first operation = restrict to EVERY non-empty cell subset (meshes with <= 4 cells, each followed by every "
             "applicable operation) or to the full set + 9 seeded random subsets (larger meshes, two follow-ups each), remove_elements of each such subset, and every "
             "operation on the whole mesh; each chain extended by one seeded random operation; element arrays in seeded random order")
    return dict(cases=n, failures=failures[:20], samples=samples, nontrivial=n, bound=bound, failing_cases=len(failures),
                failing_groups={k: len(v) for k, v in groups.items()})


def replay_surgery_case(sp):
    r = run(dict(only=sp["only"], tier=sp.get("tier", "quick"), seed=sp.get("seed", 0)))
    return dict(confirmed=bool(r["failures"]), observed=[f["observed"] for f in r["failures"]][:3], input=sp["only"])


if __name__ == "__main__":
    print("\n@@JSON@@" + json.dumps(run(json.load(sys.stdin)), default=str))
