"""Bounded stand-in for C15 (no hidden state; operands never mutated) on the real code (run under /venv).

FRAME     every operation of a fixed list is run with checksummed operands (all ndarray / sparse / dict-of-array attributes reachable from
          the operand objects); any bit change of an operand is a failure.
HISTORY   seeded random sequences (length <= 12) of operations on LONG-LIVED objects (one mesh per kind, one element object shared by several
          meshes, one mapping, one basis, one form, one solver object) — after every step the result is compared with the same operation
          carried out on FRESH objects built from copies of the same argument values.
"""
import copy
import hashlib
import json
import sys

import numpy as np
import scipy.sparse as sp


def digest(obj, depth=0, seen=None):
    """stable checksum of the array content reachable from obj."""
    seen = seen if seen is not None else set()
    h = hashlib.sha1()
    if id(obj) in seen or depth > 4:
        return b""
    if isinstance(obj, np.ndarray):
        h.update(str(obj.dtype).encode() + str(obj.shape).encode() + np.ascontiguousarray(obj).tobytes())
        if hasattr(obj, "ori") and obj.ori is not None:
            h.update(np.ascontiguousarray(obj.ori).tobytes())
        for a in ("grad", "div", "curl", "hess"):
            v = getattr(obj, a, None)
            if isinstance(v, np.ndarray):
                h.update(np.ascontiguousarray(v).tobytes())
        return h.digest()
    if sp.issparse(obj):
        # the MATRIX (its stored pattern and values, explicit zeros included), not the order in which a row's entries happen to be stored: SciPy's direct
        # solvers sort the indices of the matrix they are handed in place, which changes the representation only
        o = obj.tocsr(copy=True)
        o.sort_indices()
        for a in (o.data, o.indices, o.indptr):
            h.update(np.ascontiguousarray(a).tobytes())
        return h.digest()
    if isinstance(obj, dict):
        seen.add(id(obj))
        for k in sorted(obj, key=str):
            h.update(str(k).encode() + digest(obj[k], depth + 1, seen))
        return h.digest()
    if isinstance(obj, (list, tuple)):
        for x in obj:
            h.update(digest(x, depth + 1, seen))
        return h.digest()
    if isinstance(obj, (int, float, str, bool, type(None), complex)):
        return repr(obj).encode()
    if hasattr(obj, "__dict__") and type(obj).__module__.startswith("skfem"):
        seen.add(id(obj))
        for k in sorted(vars(obj)):
            v = vars(obj)[k]
            if isinstance(v, (np.ndarray, dict, list, tuple)) or sp.issparse(v):
                h.update(k.encode() + digest(v, depth + 1, seen))
        return h.digest()
    return b""


def operand_digest(ops):
    """per operand: {attribute: digest}; lazily created attributes (caches) are compared only once they exist on both sides."""
    out = []
    for o in ops:
        if hasattr(o, "__dict__") and type(o).__module__.startswith("skfem") and not isinstance(o, np.ndarray):
            out.append({k: digest(v) for k, v in vars(o).items() if isinstance(v, (np.ndarray, dict, list, tuple)) or sp.issparse(v)
                        or (hasattr(v, "__dict__") and type(v).__module__.startswith("skfem"))})
        else:
            out.append({"": digest(o)})
    return out


def changed(before, after):
    return [k for k in before if k in after and before[k] != after[k]] + [k for k in before if k not in after]


def frame_cases():
    import skfem as fem
    from skfem.helpers import dot, grad
    from skfem.utils import condense, enforce, penalize, solve, mpc
    out = []
    meshes = {
        "tri": fem.MeshTri.init_sqsymmetric().with_defaults().with_subdomains({"s": lambda x: x[0] < .5}),
        "quad": fem.MeshQuad().refined(1).with_defaults(),
        "tet": fem.MeshTet().with_defaults().with_subdomains({"s": lambda x: x[0] < .5}),
        "hex": fem.MeshHex().refined(1).with_defaults(),
        "line": fem.MeshLine(np.linspace(0, 1, 5)).with_subdomains({"s": np.array([0, 1])}),
    }
    for name, m in meshes.items():
        d = m.p.shape[0]
        sel = np.arange(m.t.shape[1])[::2]
        ops = {
            "with_boundaries": lambda m=m: m.with_boundaries({"x": lambda x: x[0] == 0}),
            "with_subdomains": lambda m=m: m.with_subdomains({"y": lambda x: x[0] > .3}),
            "refined(1)": lambda m=m: m.refined(1),
            "scaled": lambda m=m, d=d: m.scaled((2.,) * d),
            "translated": lambda m=m, d=d: m.translated((1.,) * d),
            "mirrored": lambda m=m, d=d: m.mirrored((1.,) + (0.,) * (d - 1)),
            "restrict": lambda m=m, sel=sel: m.restrict(sel),
            "remove_elements": lambda m=m, sel=sel: m.remove_elements(sel),
            "remove_duplicate_nodes": lambda m=m: m.remove_duplicate_nodes(),
            "add": lambda m=m, d=d: m + m.translated((1.,) + (0.,) * (d - 1)),
            "to_dict": lambda m=m: m.to_dict() if name != "line" or True else None,
            "connectivity": lambda m=m: (m.facets, m.t2f, m.f2t, m.boundary_facets(), m.boundary_nodes()),
            "element_finder": lambda m=m, d=d: m.element_finder()(*[np.array([.31]) for _ in range(d)]),
        }
        if name in ("tri", "tet", "line"):
            ops["refined(adaptive)"] = lambda m=m: m.refined(np.array([0, 1]))
        if name in ("tri", "tet"):
            ops["oriented"] = lambda m=m: m.oriented()
            ops["smoothed"] = lambda m=m: m.smoothed()
        if name == "quad":
            ops["to_meshtri"] = lambda m=m: m.to_meshtri()
        if name == "hex":
            ops["to_meshtet"] = lambda m=m: m.to_meshtet()
        for oname, f in ops.items():
            out.append(("mesh/%s/%s" % (name, oname), [m], f))
    # constructors: the caller's arrays (already in the library's preferred dtype/layout, unsorted local order) must stay untouched
    for cname, mk in (("MeshTri", lambda: fem.MeshTri.init_sqsymmetric()), ("MeshQuad", lambda: fem.MeshQuad().refined(1)), ("MeshTet", lambda: fem.MeshTet()),
                      ("MeshHex", lambda: fem.MeshHex().refined(1)), ("MeshLine", lambda: fem.MeshLine(np.linspace(0, 1, 4)))):
        m0 = mk()
        p = np.ascontiguousarray(m0.p, dtype=np.float64).copy()
        t = np.ascontiguousarray(m0.t[::-1], dtype=np.int32).copy()          # descending local order
        cls = getattr(fem, cname)
        out.append(("construct/%s" % cname, [p, t], lambda cls=cls, p=p, t=t: cls(p, t)))
        out.append(("construct/%s(iter)" % cname, [m0], lambda cls=cls, m0=m0: cls(*m0)))
    # bases, forms, boundary-condition helpers
    m = meshes["tri"]
    e = fem.ElementTriP2()
    basis = fem.Basis(m, e)
    fbasis = fem.FacetBasis(m, e)
    y = np.linspace(0, 1, basis.N)
    form = fem.BilinearForm(lambda u, v, w: dot(grad(u), grad(v)) + w["c"] * u * v)
    lform = fem.LinearForm(lambda v, w: w["c"] * v)
    A = form.assemble(basis, c=y)
    b = lform.assemble(basis, c=y)
    D = basis.get_dofs()
    x = np.ones(basis.N)
    X = np.array([[.2, .6], [.1, .3]])
    mp = m._mapping()
    mq = meshes["quad"]
    mpq = mq._mapping()
    tind = np.array([0, 2])
    mpc_sys = mpc(A + fem.BilinearForm(lambda u, v, w: u * v).assemble(basis), b, S=np.array([0, 3]), M=np.array([1, 2]))
    ops = [
        ("basis/construct", [m, e], lambda: fem.Basis(m, e)),
        ("basis/interpolate", [basis, y], lambda: basis.interpolate(y)),
        ("basis/project", [basis], lambda: basis.project(lambda x: x[0])),
        ("basis/project-elements", [basis, y], lambda: basis.project(basis.interpolate(y), elements=np.array([0, 1]))),
        ("fbasis/project-facets", [fbasis, y], lambda: fbasis.project(fbasis.interpolate(y), facets=m.boundary_facets()[:2])),
        ("basis/probes", [basis, X], lambda: basis.probes(X)),
        ("basis/interpolator", [basis, y, X], lambda: basis.interpolator(y)(X)),
        ("basis/get_dofs", [basis], lambda: basis.get_dofs("left").all()),
        ("basis/split", [basis, y], lambda: basis.split(y)),
        ("form/assemble", [basis, y, form], lambda: form.assemble(basis, c=y)),
        ("form/assemble-field", [basis, form], lambda: form.assemble(basis, c=basis.interpolate(y))),
        ("form/elemental", [basis, y, form], lambda: form.elemental(basis, c=y).tolocal()),
        ("form/facet", [fbasis, y], lambda: fem.LinearForm(lambda v, w: w.n[0] * v).assemble(fbasis)),
        ("bc/condense", [A, b, x, D], lambda: condense(A, b, x=x, D=D)),
        ("bc/enforce", [A, b, x, D], lambda: enforce(A, b, x=x, D=D)),
        ("bc/penalize", [A, b, x, D], lambda: penalize(A, b, x=x, D=D)),
        ("bc/solve", [A, b, x, D], lambda: solve(*condense(A, b, x=x, D=D))),
        ("bc/mpc", [A, b], lambda: mpc(A, b, S=np.array([0]), M=np.array([1]))),
        ("bc/solve-mpc", list(mpc_sys[:3]) + [mpc_sys[3][0]], lambda: (solve(*mpc_sys), solve(*mpc_sys))),
        ("mapping/affine", [mp, X, tind], lambda: (mp.F(X, tind), mp.invF(mp.F(X, tind), tind), mp.detDF(X, tind), mp.DF(X))),
        ("mapping/iso", [mpq, X, tind], lambda: (mpq.F(X, tind), mpq.detDF(X, tind), mpq.invDF(X), mpq.invF(mpq.F(X, tind), tind))),
        ("coo/add-dot", [A, x], lambda: (form.elemental(basis, c=y) + form.elemental(basis, c=y)).tocsr() @ x),
    ]
    # every exported solver called on the system itself (no condensation in between: the solver sees the caller's own matrix and vector), twice with one solver object
    from skfem import utils as U
    Mm = fem.BilinearForm(lambda u, v, w: u * v).assemble(basis)
    rhs = fem.LinearForm(lambda v, w: (1. + w.x[0]) * v).assemble(basis)
    for nm, mk in (("direct", U.solver_direct_scipy), ("cg", U.solver_iter_cg), ("pcg", U.solver_iter_pcg), ("krylov", U.solver_iter_krylov)):
        def run_(mk=mk):
            s_ = mk()
            first = solve(Mm, rhs, solver=s_)
            second = solve(Mm, rhs, solver=s_)
            if not np.allclose(first, second, rtol=1e-9, atol=1e-12):
                raise AssertionError("the second solve of the same system with the same solver object differs from the first by %.2e" % float(np.max(np.abs(first - second))))
            return first
        ops.append(("solve/plain/%s" % nm, [Mm, rhs], run_))
    out += ops
    return out


def run_frames(payload):
    cases, failures, samples = 0, [], []
    only = payload.get("only")
    for label, operands, f in frame_cases():
        if only and only != label:
            continue
        cases += 1
        if len(samples) < 3:
            samples.append(label)
        before = operand_digest(operands)
        try:
            f()
        except NotImplementedError:
            continue
        except Exception as e:
            failures.append(dict(input=label, observed="FRAME: operation raised %s: %s" % (type(e).__name__, e), replay=dict(kind="state_case", what="frames", only=label)))
            continue
        after = operand_digest(operands)
        for k, (a, b) in enumerate(zip(before, after)):
            ch = changed(a, b)
            if ch:
                failures.append(dict(input=label, observed="FRAME: operand %d (%s) was modified by the operation (attributes %s)" % (k, type(operands[k]).__name__, ch[:4]),
                                     replay=dict(kind="state_case", what="frames", only=label)))
    return cases, failures, samples


def close(a, b, tol=1e-11):
    if isinstance(a, (tuple, list)):
        return isinstance(b, (tuple, list)) and len(a) == len(b) and all(close(x, y, tol) for x, y in zip(a, b))
    if isinstance(a, dict):
        return isinstance(b, dict) and sorted(a, key=str) == sorted(b, key=str) and all(close(a[k], b[k], tol) for k in a)
    if sp.issparse(a):
        return sp.issparse(b) and a.shape == b.shape and abs(a - b).max() <= tol * max(1.0, abs(a).max())
    if a is None or b is None:
        return a is b
    a, b = np.asarray(a), np.asarray(b)
    if a.shape != b.shape:
        return False
    if a.dtype.kind in "iub" and b.dtype.kind in "iub":
        return bool(np.array_equal(a, b))
    if a.dtype == object or b.dtype == object:
        return a.shape == b.shape
    fin = np.isfinite(a)
    return bool(np.allclose(a, b, rtol=tol, atol=tol * max(1.0, float(np.max(np.abs(a[fin]))) if fin.any() else 1.0), equal_nan=True))


class World:
    """the operations used by the HISTORY sequences; `fresh=True` builds every object anew."""

    def __init__(self):
        import skfem as fem
        self.fem = fem
        self.specs = {
            "triA": lambda: fem.MeshTri.init_sqsymmetric().refined(1),
            "triB": lambda: fem.MeshTri().refined(2),
            "quadA": lambda: fem.MeshQuad.init_tensor(np.array([0., .4, 1.]), np.array([0., .3, .7, 1.])),
            "quadB": lambda: fem.MeshQuad().refined(2),
            "lineA": lambda: fem.MeshLine(np.linspace(0, 1, 4)),
            "lineB": lambda: fem.MeshLine(np.array([0., .1, .4, .8, 1.])),
            "hexA": lambda: fem.MeshHex().refined(1),
        }
        self.elems = {
            "triA": ["ElementTriP2", "ElementTriMorley", "ElementTriArgyris", "ElementTriRT1"], "triB": ["ElementTriP2", "ElementTriMorley", "ElementTriArgyris", "ElementTriRT1"],
            "quadA": ["ElementQuad2", "ElementQuadP3", "ElementQuadBFS"], "quadB": ["ElementQuad2", "ElementQuadP3", "ElementQuadBFS"],
            "lineA": ["ElementLinePp3", "ElementLineHermite", "ElementLineP2"], "lineB": ["ElementLinePp3", "ElementLineHermite", "ElementLineP2"],
            "hexA": ["ElementHex1"],
        }
        self.meshes = {k: f() for k, f in self.specs.items()}
        self.elem_objs = {}
        self.bases = {}
        self.maps = {}
        self.solvers = {}

    def elem(self, name, fresh):
        fem = self.fem
        mk = {"ElementQuadP3": lambda: fem.ElementQuadP(3), "ElementLinePp3": lambda: fem.ElementLinePp(3)}.get(name, lambda: getattr(fem, name)())
        if fresh:
            return mk()
        if name not in self.elem_objs:
            self.elem_objs[name] = mk()
        return self.elem_objs[name]

    def mesh(self, key, fresh):
        return self.specs[key]() if fresh else self.meshes[key]

    def basis(self, key, ename, fresh):
        if fresh:
            return self.fem.Basis(self.mesh(key, True), self.elem(ename, True))
        if (key, ename) not in self.bases:
            self.bases[(key, ename)] = self.fem.Basis(self.meshes[key], self.elem(ename, False))
        return self.bases[(key, ename)]

    def mapping(self, key, fresh):
        if fresh:
            return self.mesh(key, True)._mapping()
        if key not in self.maps:
            self.maps[key] = self.meshes[key]._mapping()
        return self.maps[key]

    def solver(self, name, fresh):
        from skfem import utils as U
        mk = {"pcg": lambda: U.solver_iter_pcg(), "krylov": lambda: U.solver_iter_krylov(), "direct": lambda: U.solver_direct_scipy(),
              "cg": lambda: U.solver_iter_cg(), "eigen": lambda: U.solver_eigen_scipy_sym(k=3)}[name]
        if fresh:
            return mk()
        if name not in self.solvers:
            self.solvers[name] = mk()
        return self.solvers[name]


def step(W, rng, fresh_rng_state):
    """returns (label, thunk(fresh) -> result)."""
    fem = W.fem
    kind = rng.choice(["basis-eval", "interp-points", "assemble", "mapping", "solve", "eigen", "connectivity", "dofs"])
    key = rng.choice(list(W.specs))
    if kind in ("solve", "eigen") and key.startswith(("hex", "line")):
        key = "triA"
    ename = rng.choice(W.elems[key])
    if kind == "basis-eval":
        def f(fresh):
            b = W.basis(key, ename, fresh)
            y = np.linspace(-1, 1, b.N)
            u = b.interpolate(y)
            u = u if not isinstance(u, tuple) else u[0]
            return [np.asarray(u), np.asarray(b.basis[0][0]), b.dx]
        return "basis-eval/%s/%s" % (key, ename), f
    if kind == "interp-points":
        npts = int(rng.choice([1, 2, 3]))
        pts = rng.uniform(.05, .95, (W.meshes[key].p.shape[0], npts))
        def f(fresh):
            b = W.basis(key, ename, fresh)
            if ename in ("ElementTriRT1",):
                return None
            y = np.linspace(-1, 1, b.N)
            return b.interpolator(y)(pts.copy())
        return "interp-points/%s/%s/n%d" % (key, ename, npts), f
    if kind == "assemble":
        def f(fresh):
            b = W.basis(key, ename, fresh)
            form = fem.BilinearForm(lambda u, v, w: np.asarray(u).reshape((-1,) + np.asarray(u).shape[-2:])[0] * np.asarray(v).reshape((-1,) + np.asarray(v).shape[-2:])[0] * (1 + w.x[0]))
            return form.assemble(b)
        return "assemble/%s/%s" % (key, ename), f
    if kind == "mapping":
        d = W.meshes[key].p.shape[0]
        nt = W.meshes[key].t.shape[1]
        variant = int(rng.randint(6))
        X2 = rng.uniform(.1, .9, (d, 4))
        def f(fresh):
            mp = W.mapping(key, fresh)
            if variant == 0:
                tind, X = np.array([1], dtype=np.int64), X2[:, :2]
            elif variant == 1:
                tind, X = np.array([1, 0], dtype=np.int32), X2[:, :2]          # same bytes as int64 [1]
            elif variant == 2:
                tind, X = None, X2
            elif variant == 3:
                tind, X = None, np.ascontiguousarray(np.broadcast_to(X2.reshape(d, 2, 2)[:, None, :, :], (d, 1, 2, 2)).reshape(d, 2, 2)) if nt == 2 else X2[:, :3]
            elif variant == 4:
                tind, X = np.arange(nt)[::2], X2[:, :3]
            else:
                tind, X = np.arange(nt)[1::2], X2[:, :3]                        # equal size, different cells
            return [mp.F(X, tind), mp.detDF(X, tind), mp.invDF(X, tind)]
        return "mapping/%s/v%d" % (key, variant), f
    if kind == "solve":
        sname = rng.choice(["pcg", "krylov", "direct", "cg"])
        extra = {} if rng.rand() < .6 else ({"rtol": 1e-12} if sname in ("pcg", "krylov") else {})
        def f(fresh):
            from skfem.utils import solve, condense
            b = fem.Basis(W.mesh(key, fresh), fem.ElementTriP1() if key.startswith("tri") else fem.ElementQuad1())
            A = fem.BilinearForm(lambda u, v, w: u.grad[0] * v.grad[0] + u.grad[1] * v.grad[1]).assemble(b)
            rhs = fem.LinearForm(lambda v, w: 1. * v).assemble(b)
            s = W.solver(sname, fresh)
            return solve(*condense(A, rhs, D=b.get_dofs()), solver=s, **extra)
        return "solve/%s/%s/%s" % (key, sname, sorted(extra)), f
    if kind == "eigen":
        kk = int(rng.choice([2, 3]))
        def f(fresh):
            from skfem.utils import solve, condense
            b = fem.Basis(W.mesh(key, fresh), fem.ElementTriP1() if key.startswith("tri") else fem.ElementQuad1())
            A = fem.BilinearForm(lambda u, v, w: u.grad[0] * v.grad[0] + u.grad[1] * v.grad[1]).assemble(b)
            M = fem.BilinearForm(lambda u, v, w: u * v).assemble(b)
            s = W.solver("eigen", fresh)
            L, X = solve(*condense(A, M, D=b.get_dofs()), solver=s, k=kk)
            return np.sort(np.real(L))
        return "eigen/%s/k%d" % (key, kk), f
    if kind == "connectivity":
        def f(fresh):
            m = W.mesh(key, fresh)
            return [m.facets, m.t2f, m.f2t, m.boundary_facets()]
        return "connectivity/%s" % key, f
    def f(fresh):
        b = W.basis(key, ename, fresh)
        return [b.get_dofs().flatten(), b.element_dofs, b.doflocs if hasattr(b, "doflocs") else None]
    return "dofs/%s/%s" % (key, ename), f


def run_history(payload):
    tier, seed = payload.get("tier", "quick"), int(payload.get("seed", 0))
    nseq = 10 if tier == "quick" else 60
    cases, failures, samples = 0, [], []
    only = payload.get("only")
    for s in range(nseq):
        label = "history/seed%d-seq%d" % (seed, s)
        if only and only != label:
            continue
        rng = np.random.RandomState(10000 * seed + s)
        W = World()
        trace = []
        held = []
        for k in range(12):
            name, f = step(W, rng, None)
            trace.append(name)
            cases += 1
            try:
                got = f(False)
            except Exception as e:
                got = ("raised", type(e).__name__, str(e)[:120])
            try:
                want = f(True)
            except Exception as e:
                want = ("raised", type(e).__name__, str(e)[:120])
            ok = (got == want) if isinstance(got, tuple) and got and got[0] == "raised" or isinstance(want, tuple) and want and want[0] == "raised" else close(got, want)
            held.append((k, name, got, digest(got)))
            stale = [(k0, n0) for k0, n0, g0, d0 in held if digest(g0) != d0]
            if stale:
                failures.append(dict(input=dict(sequence=trace[:]), observed="ALIAS: the result returned by step %d (%s) was modified by a later operation (step %d, %s)"
                                     % (stale[0][0], stale[0][1], k, name), replay=dict(kind="state_case", what="history", only=label, seed=seed, tier=tier)))
                break
            if not ok:
                failures.append(dict(input=dict(sequence=trace[:]), observed="HISTORY: step %d (%s) differs from the same operation on fresh objects%s"
                                     % (k, name, (": " + str(got)[:160]) if isinstance(got, tuple) and got and got[0] == "raised" else ""),
                                     replay=dict(kind="state_case", what="history", only=label, seed=seed, tier=tier)))
                break
        if len(samples) < 3:
            samples.append(trace[:4])
    return cases, failures, samples


def run_moved(payload):
    """HISTORY for geometry-only transformations: the result of translating / scaling / mirroring / morphing / smoothing a mesh that HAS BEEN USED (mapping,
    finder and connectivity cached) equals, in everything computed from it, the result of the same call on a never-used equal mesh; operand and result share
    no mapping"""
    import skfem as fem
    fails, cases = [], 0
    mk = {"tri": (lambda: fem.MeshTri.init_sqsymmetric(), fem.ElementTriP1), "quad": (lambda: fem.MeshQuad().refined(1), fem.ElementQuad1),
          "tet": (lambda: fem.MeshTet(), fem.ElementTetP1), "hex": (lambda: fem.MeshHex(), fem.ElementHex1), "line": (lambda: fem.MeshLine(np.linspace(0, 1, 4)), fem.ElementLineP1)}
    for name, (make, E) in mk.items():
        d = make().p.shape[0]
        moves = {"translated": lambda q: q.translated((1.5,) * d), "scaled": lambda q: q.scaled((2.,) + (.5,) * (d - 1))}
        if d > 1:
            moves["mirrored"] = lambda q: q.mirrored((1.,) + (0.,) * (d - 1), (.25,) * d)
            moves["morphed"] = lambda q: q.morphed(lambda p: p[0] + .1 * p[1])
        if name in ("tri", "tet"):
            moves["smoothed"] = lambda q: q.smoothed()
        for mname, mv in moves.items():
            cases += 1
            used, fresh = make(), make()
            fem.CellBasis(used, E())
            used.mapping() if hasattr(used, "mapping") else None
            try:
                used.element_finder()
            except Exception:
                pass
            used.boundary_facets()
            try:
                a, b = mv(used), mv(fresh)
            except Exception as ex:
                fails.append(dict(input="%s.%s()" % (name, mname), observed="raised %s: %s" % (type(ex).__name__, ex)))
                continue
            ba, bb = fem.CellBasis(a, E()), fem.CellBasis(b, E())
            x = lambda w: w.x[0]
            va, vb = fem.Functional(x).assemble(ba), fem.Functional(x).assemble(bb)
            same = np.array_equal(ba.doflocs, bb.doflocs) and np.array_equal(ba.dx, bb.dx) and va == vb and np.array_equal(a.p, b.p)
            if not same:
                fails.append(dict(input="%s mesh: use it (basis, mapping, finder), then .%s()" % (name, mname),
                                  observed="HISTORY: on the moved mesh int x = %r, on the same call applied to a never-used equal mesh %r (doflocs equal: %s, dx equal: %s)"
                                           % (float(va), float(vb), np.array_equal(ba.doflocs, bb.doflocs), np.array_equal(ba.dx, bb.dx))))
            if getattr(ba.mapping, "mesh", None) is used:
                fails.append(dict(input="%s mesh .%s()" % (name, mname), observed="ALIAS: the mapping of the result refers to the mesh it was computed from"))
    # refinement is a function of the mesh and the marked set: the same call twice (with other refinements in between) gives the same mesh
    for name, mk, marked in (("tet", lambda: fem.MeshTet().refined(1), np.array([0, 5])), ("tri", lambda: fem.MeshTri().refined(2), np.array([1, 4])),
                             ("line", lambda: fem.MeshLine(np.linspace(0, 1, 5)), np.array([2]))):
        cases += 1
        m0 = mk()
        r1 = m0.refined(marked)
        mk().refined(np.array([0]))                       # an unrelated refinement in between
        fem.MeshTet().refined(np.array([0, 1]))
        r2 = m0.refined(marked)
        r3 = mk().refined(marked)
        if not (np.array_equal(r1.p, r2.p) and np.array_equal(r1.t, r2.t) and np.array_equal(r1.p, r3.p) and np.array_equal(r1.t, r3.t)):
            fails.append(dict(input="%s mesh refined adaptively (marked %s) twice, with other refinements in between" % (name, marked.tolist()),
                              observed="HISTORY: the two results differ (%d vs %d vs %d cells)" % (r1.t.shape[1], r2.t.shape[1], r3.t.shape[1])))
    for f in fails:
        f["replay"] = dict(kind="state_case", what="moved", seed=0, tier="quick")
    return cases, fails, ["moved/tri/translated"]


def run(payload):
    what = payload.get("what")
    if what == "moved":
        c, f, s_ = run_moved(payload)
        return dict(cases=c, failures=f[:20], samples=s_, bound="5 mesh classes x {translated, scaled, mirrored, morphed, smoothed} after use vs never-used equal meshes")
    c1 = c2 = 0
    f1 = f2 = []
    s1 = s2 = []
    if what in (None, "frames"):
        c1, f1, s1 = run_frames(payload)
    if what in (None, "history"):
        c2, f2, s2 = run_history(payload)
        c3, f3, s3 = run_moved(payload)
        c2, f2 = c2 + c3, f3 + f2
    return dict(cases=c1 + c2, failures=(f1 + f2)[:20], samples=(s1 + s2)[:3],
                bound="FRAME: %d operations with checksummed operands; HISTORY: %s seeded random sequences of 12 operations on long-lived objects "
                      "(7 meshes, 12 element kinds incl. ElementGlobal/LinePp/QuadP, mappings with adversarial same-bytes arguments, 5 reused solver objects) "
                      "vs fresh objects" % (c1, "10" if payload.get("tier", "quick") == "quick" else "60"))


def replay_state_case(sp):
    r = run(dict(what=sp.get("what"), only=sp["only"], seed=sp.get("seed", 0), tier=sp.get("tier", "quick")))
    return dict(confirmed=bool(r["failures"]), observed=[f["observed"] for f in r["failures"]][:3], input=[f["input"] for f in r["failures"]][:1])


if __name__ == "__main__":
    print("\n@@JSON@@" + json.dumps(run(json.load(sys.stdin)), default=str))
