"""Bounded stand-in for C03 (run under /venv): one-sided traces of discrete functions with random coefficient vectors on both sides of every interior facet.

The trace points are own convex combinations of the facet's vertices (read from p and the facet's vertex list through an owning cell), pulled back to each of
the two cells with the mapping's invF and evaluated with the element's real gbasis and the real DOF numbering.  Where the library offers it, the same
comparison is repeated through InteriorFacetBasis(side=0/1).interpolate (the observation point named by the property)."""
import json
import sys
import warnings

import numpy as np

from native import geom
from native import zoo as Z

TOL = 2e-9


def classify(e):
    """what the element promises across an interior facet"""
    import skfem.element as E
    n = type(e).__name__
    special = {
        "ElementTriCR": "mean", "ElementTetCR": "mean",
        "ElementTriMorley": "morley", "ElementTri15ParamPlate": "plate15",
        "ElementTriArgyris": "c1", "ElementLineHermite": "c1", "ElementQuadBFS": "c1-box", "ElementHexC1": "c1-box",
        "ElementTriHermite": "c0",
    }
    if n in special:
        return special[n]
    if isinstance(e, (E.ElementDG,)) or "DG" in n or "Skeleton" in n or "HHJ" in n:
        return None
    if isinstance(e, E.ElementHdiv):
        return "hdiv"
    if isinstance(e, E.ElementHcurl):
        return "hcurl"
    if isinstance(e, E.ElementVector):
        return classify(e.elem)
    if isinstance(e, E.ElementComposite):
        return None
    if e.nodal_dofs >= 1:
        # elements defined through a tensorial power basis in GLOBAL coordinates span Q_p(x, y) on every cell: their traces are determined by the facet's
        # DOFs only on axis-parallel boxes (the mesh family they support)
        return "c0-box" if getattr(e, "tensorial_basis", False) and isinstance(e, E.ElementGlobal) else "c0"
    return None      # P0-type, facet-only ... : no continuity promised


def facet_weights(nv, rng, kind):
    """points on a facet as weights of its (cyclically ordered) vertices"""
    if nv == 1:
        return np.ones((1, 1))
    if kind == "special":          # endpoints / midpoint (segments only)
        return np.array([[1., 0.], [0., 1.], [.5, .5]])
    npts = 4
    if nv in (2, 3):
        w = rng.dirichlet(np.ones(nv), npts)
        return w
    st = rng.uniform(0.05, .95, (npts, 2))
    s, t = st[:, 0], st[:, 1]
    return np.stack([(1 - s) * (1 - t), s * (1 - t), s * t, (1 - s) * t], axis=1)


def facet_normals(F, w):
    """unit normals (d, npts) of the facet with cyclic vertices F at the points with vertex weights w (bilinear faces: normal of the bilinear surface)"""
    npts = w.shape[0]
    if len(F) == 1:
        return np.ones((1, npts))
    if F.shape[1] == 2:
        tq = F[1] - F[0]
        n = np.array([tq[1], -tq[0]])
        return np.repeat((n / np.linalg.norm(n))[:, None], npts, axis=1)
    if len(F) == 3:
        n = np.cross(F[1] - F[0], F[2] - F[0])
        return np.repeat((n / np.linalg.norm(n))[:, None], npts, axis=1)
    # w = [(1-s)(1-t), s(1-t), st, (1-s)t]
    s_ = w[:, 1] + w[:, 2]
    t_ = w[:, 2] + w[:, 3]
    ds = (F[1] - F[0])[None] * (1 - t_)[:, None] + (F[2] - F[3])[None] * t_[:, None]
    dt = (F[3] - F[0])[None] * (1 - s_)[:, None] + (F[2] - F[1])[None] * s_[:, None]
    n = np.cross(ds, dt)
    return (n / np.linalg.norm(n, axis=1)[:, None]).T


def one_sided(m, e, basis, x, find, side, pts, per_facet=False):
    """fields (value, grad) of the discrete function with coefficients x in the cell on `side` of the facets, at global points pts (d, nf, np)"""
    mapping = basis.mapping
    tind = m.f2t[side, find]
    nf, npt = pts.shape[1], pts.shape[2]
    val = grad = None

    def add(acc, part, coef):
        part = np.asarray(part)
        c = coef.reshape((1,) * (part.ndim - 2) + (-1, 1))
        return part * c if acc is None else acc + part * c
    if not per_facet:
        Y = mapping.invF(pts, tind=tind)
        for i in range(basis.Nbfun):
            f = e.gbasis(mapping, Y, i, tind=tind)[0]
            coef = x[basis.element_dofs[i, tind]]
            val = add(val, np.array(f), coef)
            if getattr(f, "grad", None) is not None:
                grad = add(grad, f.grad, coef)
        return val, grad
    vals, grads = [], []
    for a in range(nf):
        k = np.array([tind[a]])
        Y = mapping.invF(pts[:, a:a + 1, :], tind=k)[:, 0, :]
        v = g = None
        for i in range(basis.Nbfun):
            f = e.gbasis(mapping, Y, i, tind=k)[0]
            coef = x[basis.element_dofs[i, k]]
            v = add(v, np.array(f), coef)
            if getattr(f, "grad", None) is not None:
                g = add(g, f.grad, coef)
        vals.append(v)
        grads.append(g)
    val = np.concatenate(vals, axis=-2)
    grad = np.concatenate(grads, axis=-2) if grads[0] is not None else None
    return val, grad


def check(label, m, elabel, e, rng, tier):
    import skfem as fem
    fails = []
    cls = classify(e)
    if cls is None:
        return 0, fails
    kind = geom.kind_of(m)
    d = m.p.shape[0]
    find = np.nonzero(m.f2t[1] != -1)[0]
    if len(find) == 0:
        return 0, fails
    if cls in ("c1-box", "c0-box"):
        # supported family: axis-parallel boxes
        for k in range(m.t.shape[1]):
            P = geom.cell_points(m, k)
            if len(np.unique(np.round(P, 10), axis=0)) != len(P) or any(len(np.unique(np.round(P[:, i], 10))) != 2 for i in range(d)):
                return 0, fails
    with warnings.catch_warnings():
        warnings.simplefilter("ignore")
        basis = fem.CellBasis(m, e)
    x = rng.uniform(-1, 1, basis.N)
    tol = TOL
    if getattr(e, "V", None) is not None and np.ndim(e.V) == 3:
        # ElementGlobal: the basis is obtained by numerically inverting a Vandermonde matrix of the global power basis on every cell; rounding errors are
        # amplified by its condition number (slivers of a random Delaunay mesh).  The tolerance follows the conditioning, never below TOL.
        cond = max(float(np.linalg.cond(V)) for V in e.V)
        tol = max(TOL, 64 * np.finfo(float).eps * cond)
    Fs = [geom.facet_points(m, int(f)) for f in find]
    nvs = sorted(set(len(F) for F in Fs))
    worst = 0.0
    for nv in nvs:
        sel = np.array([a for a, F in enumerate(Fs) if len(F) == nv])
        modes = ["random"] + (["special"] if cls in ("morley", "plate15", "mean") and nv == 2 else [])
        for mode in modes:
            w = facet_weights(nv, rng, mode)
            pts = np.stack([np.einsum("pv,vi->ip", w, Fs[a]) for a in sel], axis=1)     # (d, nf, np)
            if type(m).__name__.endswith("2"):
                # second-order (curved) meshes: the facet is the image of the reference facet under the mapping's facet map G (contract C10), not the flat
                # polygon through its vertices
                if nv == 2:
                    Xf = w[:, 1][None, :]
                elif nv == 3:
                    Xf = w[:, 1:].T
                else:
                    Xf = np.stack([w[:, 1] + w[:, 2], w[:, 2] + w[:, 3]])
                pts = np.asarray(basis.mapping.G(Xf, find=find[sel]))
            normals = np.stack([facet_normals(Fs[a], w) for a in sel], axis=1)         # (d, nf, np)
            per_facet = False
            try:
                v0, g0 = one_sided(m, e, basis, x, find[sel], 0, pts)
                v1, g1 = one_sided(m, e, basis, x, find[sel], 1, pts)
            except Exception:
                per_facet = True
                v0, g0 = one_sided(m, e, basis, x, find[sel], 0, pts, per_facet=True)
                v1, g1 = one_sided(m, e, basis, x, find[sel], 1, pts, per_facet=True)
            scale = max(1.0, float(np.max(np.abs(v0))), float(np.max(np.abs(v1))))
            dv = v0 - v1
            n = normals

            def report(what, arr, sc):
                nonlocal worst
                arr = np.abs(arr)
                j = float(arr.max()) if arr.size else 0.0
                worst = max(worst, j / sc)
                if j > tol * sc:
                    a = int(np.unravel_index(np.argmax(arr), arr.shape)[-2])
                    f = int(find[sel][a])
                    fails.append("%s: jump %.3e (scale %.2e) across facet %d between cells %d and %d%s" % (what, j, sc, f, m.f2t[0, f], m.f2t[1, f],
                                                                                                   " [per-facet evaluation]" if per_facet else ""))
            if cls in ("c0", "c0-box", "c1", "c1-box") and mode == "random":
                report("VALUE", dv, scale)
            if cls in ("c1", "c1-box") and mode == "random" and g0 is not None:
                gs = max(1.0, float(np.max(np.abs(g0))))
                report("GRADIENT", g0 - g1, gs)
            if cls == "hdiv":
                report("NORMAL-COMPONENT", np.einsum("i...,i...->...", dv, np.broadcast_to(n, dv.shape)), scale)
            if cls == "hcurl":
                nn = np.broadcast_to(n, dv.shape)
                tang = dv - nn * np.einsum("i...,i...->...", dv, nn)[None]
                report("TANGENTIAL-COMPONENT", tang, scale)
            if cls == "mean":
                if nv == 2 and mode == "special":
                    report("MIDPOINT-VALUE", dv[..., 2:3], scale)
                elif nv == 3 and mode == "random":
                    # mean over a triangle of an affine function = value at the centroid
                    wc = np.full((1, 3), 1 / 3)
                    pc = np.stack([np.einsum("pv,vi->ip", wc, Fs[a]) for a in sel], axis=1)
                    c0, _ = one_sided(m, e, basis, x, find[sel], 0, pc)
                    c1, _ = one_sided(m, e, basis, x, find[sel], 1, pc)
                    report("FACET-MEAN", c0 - c1, scale)
            if cls in ("morley", "plate15") and mode == "special":
                report("VERTEX-VALUE", dv[..., 0:2], scale)
                gs = max(1.0, float(np.max(np.abs(g0))))
                dn = np.einsum("i...,i...->...", g0 - g1, np.broadcast_to(n, g0.shape))
                report("MIDPOINT-NORMAL-DERIVATIVE", dn[..., 2:3], gs)
                if cls == "plate15":
                    report("MIDPOINT-VALUE", dv[..., 2:3], scale)
                    report("VERTEX-GRADIENT", (g0 - g1)[..., 0:2], gs)
    # the same through the library's one-sided facet bases
    if cls in ("c0", "c0-box", "c1", "c1-box", "hdiv", "hcurl") and kind != "wedge":
        try:
            with warnings.catch_warnings():
                warnings.simplefilter("ignore")
                b0 = fem.InteriorFacetBasis(m, e, side=0, intorder=3)
                b1 = fem.InteriorFacetBasis(m, e, side=1, intorder=3)
        except Exception as ex:
            b0 = None
            note = "%s: %s" % (type(ex).__name__, str(ex)[:60])
        if b0 is not None:
            f0, f1 = b0.interpolate(x), b1.interpolate(x)
            v0, v1 = np.asarray(f0), np.asarray(f1)
            n = b0.normals
            n = np.asarray(n)
            dv = v0 - v1
            sc = max(1.0, float(np.max(np.abs(v0)))) if v0.size else 1.0
            if cls == "hdiv":
                j = np.einsum("i...,i...->...", dv, n)
            elif cls == "hcurl":
                j = dv - n * np.einsum("i...,i...->...", dv, n)[None]
            else:
                j = dv
            jm = float(np.max(np.abs(j))) if np.size(j) else 0.0
            if jm > tol * sc:
                fails.append("INTERIOR-FACET-BASIS: one-sided interpolants differ by %.3e (scale %.2e)" % (jm, sc))
            if cls in ("c1", "c1-box") and f0.grad is not None:
                gj = float(np.max(np.abs(f0.grad - f1.grad))) if np.size(f0.grad) else 0.0
                gs = max(1.0, float(np.max(np.abs(f0.grad)))) if np.size(f0.grad) else 1.0
                if gj > tol * gs:
                    fails.append("INTERIOR-FACET-BASIS: one-sided gradients differ by %.3e (scale %.2e)" % (gj, gs))
    return 1, fails


def check_composite(label, m, elabel, e, rng):
    """composite elements of conforming components: every component of the discrete function is single valued in the sense of ITS element
    (through the library's one-sided interior facet bases)"""
    import skfem as fem
    fails = []
    with warnings.catch_warnings():
        warnings.simplefilter("ignore")
        b0 = fem.InteriorFacetBasis(m, e, side=0, intorder=3)
        b1 = fem.InteriorFacetBasis(m, e, side=1, intorder=3)
    if b0.find.size == 0:
        return 0, fails
    x = rng.uniform(-1, 1, b0.N)
    f0, f1 = b0.interpolate(x), b1.interpolate(x)
    n = np.asarray(b0.normals)
    for c, (ec, u0, u1) in enumerate(zip(e.elems, f0, f1)):
        cls = classify(ec)
        if cls is None:
            continue
        dv = np.asarray(u0) - np.asarray(u1)
        sc = max(1.0, float(np.max(np.abs(np.asarray(u0)))))
        if cls == "hdiv":
            j = np.einsum("i...,i...->...", dv, n)
        elif cls == "hcurl":
            j = dv - n * np.einsum("i...,i...->...", dv, n)[None]
        else:
            j = dv
        jm = float(np.max(np.abs(j))) if np.size(j) else 0.0
        if jm > TOL * sc:
            fails.append("COMPOSITE: component %d (%s, %s) of the discrete function jumps by %.3e (scale %.2e) across interior facets" % (c, type(ec).__name__, cls, jm, sc))
    return 1, fails


def composites_for(m):
    import skfem as fem
    k = geom.kind_of(m)
    if k == "tri":
        return [("ElementTriP2*ElementTriP1", fem.ElementTriP2() * fem.ElementTriP1()), ("ElementTriRT1*ElementTriN1", fem.ElementTriRT1() * fem.ElementTriN1())]
    if k == "tet":
        return [("ElementTetN1*ElementTetRT1", fem.ElementTetN1() * fem.ElementTetRT1()), ("ElementTetCCR*ElementTetP2", fem.ElementTetCCR() * fem.ElementTetP2()),
                ("ElementVector(ElementTetP2)*ElementTetP1", fem.ElementVector(fem.ElementTetP2()) * fem.ElementTetP1())]
    if k == "hex":
        return [("ElementHex2*ElementHexS2", fem.ElementHex2() * fem.ElementHexS2())]
    if k == "quad":
        return [("ElementQuad2*ElementQuad1", fem.ElementQuad2() * fem.ElementQuad1())]
    return []


def elements_for(m):
    """[(label, element)] of all exported elements living on the mesh's reference cell (+ vector wrappers of one H1 element)"""
    import skfem.element as E
    from contracts import catalog
    rd = m.elem.refdom.__name__
    out = []
    for label, cls, args in catalog.reference_elements() + catalog.global_elements():
        try:
            e = cls(*args)
        except Exception:
            continue
        if getattr(e, "refdom", None) is None or e.refdom.__name__ != rd:
            continue
        out.append((label, e))
    first = next((e for l, e in out if classify(e) == "c0" and not isinstance(e, E.ElementGlobal)), None)
    if first is not None:
        out.append(("ElementVector(%s)" % type(first).__name__, E.ElementVector(first)))
    return out


def extra_meshes(tier, rng):
    """random Delaunay, jiggled and curved meshes"""
    import skfem as fem
    from scipy.spatial import Delaunay
    out = []
    P2 = rng.uniform(0, 1, (12 if tier == "quick" else 30, 2))
    out.append(("tri-delaunay", fem.MeshTri(P2.T.copy(), Delaunay(P2).simplices.T.astype(np.int64))))
    P3 = rng.uniform(0, 1, (9 if tier == "quick" else 16, 3))
    out.append(("tet-delaunay", fem.MeshTet(P3.T.copy(), Delaunay(P3).simplices.T.astype(np.int64))))
    mq = fem.MeshQuad().refined(1)
    p = mq.p.copy()
    inner = np.nonzero((p[0] > 0) & (p[0] < 1) & (p[1] > 0) & (p[1] < 1))[0]
    p[:, inner] += rng.uniform(-.12, .12, (2, len(inner)))
    out.append(("quad-jiggled", fem.MeshQuad(p, mq.t)))
    mh = fem.MeshHex().refined(1)
    p = mh.p.copy()
    inner = np.nonzero(np.all((p > 0) & (p < 1), axis=0))[0]
    p[:, inner] += rng.uniform(-.1, .1, (3, len(inner)))
    out.append(("hex-jiggled", fem.MeshHex(p, mh.t)))
    return out


def derived_meshes(tier):
    """meshes delivered by the library's own constructors and mesh operations (the caller never switches the per-cell sorting off)"""
    import skfem as fem
    out = []
    mt = fem.MeshTri.init_sqsymmetric().refined(1)
    out.append(("tri-adaptive", mt.refined(np.array([0, 5]))))
    out.append(("tri-adaptive-twice", fem.MeshTri().refined(1).refined(np.array([1])).refined(np.array([0, 2, 3]))))
    out.append(("tri-adaptive-then-uniform", mt.refined(np.array([2])).refined(1)))
    out.append(("tri-from-quad", fem.MeshQuad().refined(1).to_meshtri()))
    out.append(("tri-circle", fem.MeshTri.init_circle(1)))
    out.append(("tri-mirrored", fem.MeshTri.init_lshaped().mirrored((1., 0.), (.25, 0.))))
    out.append(("tri-joined", fem.MeshTri().refined(1) + fem.MeshTri().refined(1).translated((1., 0.))))
    out.append(("tri-tagged-adaptive", mt.with_subdomains({"a": [0, 1]}).with_boundaries({"l": lambda x: x[0] == 0}).refined(np.array([3]))))
    out.append(("tet-adaptive", fem.MeshTet().refined(1).refined(np.array([0, 7]))))
    out.append(("tet-from-hex", fem.MeshHex().refined(1).to_meshtet()))
    out.append(("tet-ball", fem.MeshTet.init_ball(1)))
    out.append(("quad-from-tri", fem.MeshTri().refined(1).to_meshquad() if hasattr(fem.MeshTri, "to_meshquad") else fem.MeshQuad()))
    out.append(("quad-joined", fem.MeshQuad().refined(1) + fem.MeshQuad().refined(1).translated((1., 0.))))
    out.append(("line-adaptive", fem.MeshLine().refined(2).refined(np.array([1]))))
    if tier != "quick":
        out.append(("tri-adaptive-deep", fem.MeshTri.init_lshaped().refined(2).refined(np.arange(0, 40, 3)).refined(np.array([0, 1, 2, 50]))))
        out.append(("tet-adaptive-deep", fem.MeshTet().refined(1).refined(np.array([0, 3])).refined(np.array([1, 2, 5]))))
    return out


def curved_meshes(tier):
    import skfem as fem
    out = [("tri2-circle", fem.MeshTri2.init_circle()), ("quad2", fem.MeshQuad2().refined(1))]
    m = fem.MeshQuad2().refined(1)
    dl = m.doflocs.copy()
    mid = np.arange(m.p.shape[1], dl.shape[1])
    rs = np.random.RandomState(5)
    inner = [j for j in mid if 0 < dl[0, j] < 1 and 0 < dl[1, j] < 1]
    dl[:, inner] += rs.uniform(-.04, .04, (2, len(inner)))
    try:
        out.append(("quad2-curved", fem.MeshQuad2(dl, m.t)))
    except Exception:
        pass
    if tier != "quick":
        out.append(("tet2", fem.MeshTet2.init_ball() if hasattr(fem.MeshTet2, "init_ball") else fem.MeshTet2()))
        out.append(("hex2", fem.MeshHex2().refined(1) if hasattr(fem, "MeshHex2") else fem.MeshHex()))
    return out


def all_cases(tier, seed):
    rng = np.random.RandomState(300 + seed)
    for label, m in Z.zoo(tier, seed=seed, variants=(2 if tier == "quick" else 5)):
        yield label, m
    for label, m in extra_meshes(tier, rng):
        yield label, m
        for v in range(1 if tier == "quick" else 3):
            yield "%s~r%d" % (label, v), Z.renumbered(m, rng)[0]
    for label, m in curved_meshes(tier):
        yield label, m
    for label, m in derived_meshes(tier):
        yield "derived/" + label, m
    # triangle meshes with the per-cell sorting explicitly switched off: inside the claim for elements with at most one DOF per facet
    import skfem as fem
    for label, m0 in (("tri-sym4", fem.MeshTri.init_sqsymmetric().refined(1)), ("tri-L6", fem.MeshTri.init_lshaped())):
        for v in range(1 if tier == "quick" else 3):
            t = m0.t.copy()
            for k in range(t.shape[1]):
                t[:, k] = t[rng.permutation(3), k]
            yield "unsorted/%s~%d" % (label, v), fem.MeshTri(m0.p, t, sort_t=False)
    yield "unsorted/tri-oriented", fem.MeshTri.init_sqsymmetric().refined(1).oriented()
    yield "history/tri-renumbered", fem.MeshTri.init_sqsymmetric().refined(1)
    yield "history/tri-edge-flipped", fem.MeshTri(np.array([[0., 1., 0., 1., .5, .4], [0., 0., 1., 1., .45, 1.6]]), np.array([[0, 1, 4], [1, 3, 4], [3, 2, 4], [2, 0, 4], [2, 3, 5]]).T)


def _task(args):
    label, tier, seed, only_el = args
    import logging
    logging.disable(logging.WARNING)
    m = dict(all_cases(tier, seed))[label]
    import zlib
    rng = np.random.RandomState((zlib.crc32(label.encode()) + seed) % 2 ** 31)
    out, cases = [], 0
    if label.startswith("derived/") and type(m).__name__ == "MeshTri1" and not np.all(np.diff(m.t, axis=0) > 0):
        # representation invariant of the default triangle mesh: every cell lists its vertices in ascending order (relied upon by every element with
        # several DOFs per facet); a library operation must not hand back a mesh that silently lost it
        k = int(np.nonzero(~np.all(np.diff(m.t, axis=0) > 0, axis=0))[0][0])
        out.append(dict(input=label, observed="SORTED: cell %d of the delivered MeshTri1 lists its vertices as %s (sort_t=%s)" % (k, m.t[:, k].tolist(), m.sort_t),
                        replay=dict(kind="continuity_case", mesh=label, element="ElementTriP3", seed=seed, tier=tier)))
    curved = label.split("~")[0] in ("tri2-circle", "quad2", "quad2-curved", "tet2", "hex2")
    if label.startswith("history/"):
        # ONE element object used on a mesh and then on another mesh with the very same vertex array, the same number of cells and a different
        # connectivity (cells renumbered / an interior edge flipped): whatever the element remembers must not leak into the second mesh
        import skfem as fem
        m2 = m
        t1 = m2.t[:, ::-1].copy() if label.endswith("renumbered") else None
        if t1 is None:
            # flip the interior edge shared by cells 0 and its neighbour across facet f
            f = int(np.nonzero(m2.f2t[1] != -1)[0][0])
            k0, k1 = m2.f2t[:, f]
            a, b = m2.facets[:, f]
            c0 = [v for v in m2.t[:, k0] if v not in (a, b)][0]
            c1 = [v for v in m2.t[:, k1] if v not in (a, b)][0]
            t1 = m2.t.copy()
            t1[:, k0] = [a, c0, c1]
            t1[:, k1] = [b, c0, c1]
        m1 = type(m2)(m2.doflocs, t1)
        for elabel, e in elements_for(m2):
            if only_el and elabel != only_el:
                continue
            try:
                check(label + " (first mesh)", m1, elabel, e, rng, tier)
                c, fl = check(label, m2, elabel, e, rng, tier)
            except Exception as ex:
                c, fl = 1, ["exception %s: %s" % (type(ex).__name__, ex)]
            cases += c
            for f_ in fl[:2]:
                out.append(dict(input="%s on %s after use on a mesh with the same vertex array" % (elabel, label), observed=f_,
                                replay=dict(kind="continuity_case", mesh=label, element=elabel, seed=seed, tier=tier)))
        return label, cases, out
    if not curved and not label.startswith(("unsorted/", "history/")):
        for elabel, e in composites_for(m):
            if only_el and elabel != only_el:
                continue
            try:
                c, fl = check_composite(label, m, elabel, e, rng)
            except Exception as ex:
                c, fl = 1, ["exception %s: %s" % (type(ex).__name__, str(ex)[:200])]
            cases += c
            for f in fl[:2]:
                out.append(dict(input="%s on %s" % (elabel, label), observed=f, replay=dict(kind="continuity_case", mesh=label, element=elabel, seed=seed, tier=tier)))
    for elabel, e in elements_for(m):
        if only_el and elabel != only_el:
            continue
        if curved and classify(e) not in ("c0",):
            continue
        if curved and type(e).__mro__[1].__name__ == "ElementGlobal":
            continue
        if label.startswith("unsorted/") and (e.facet_dofs > 1 or getattr(getattr(e, "elem", None), "facet_dofs", 0) > 1):
            continue
        try:
            c, fl = check(label, m, elabel, e, rng, tier)
        except Exception as ex:
            import traceback
            c, fl = 1, ["exception %s: %s | %s" % (type(ex).__name__, ex, traceback.format_exc()[-400:])]
        cases += c
        for f in fl[:2]:
            out.append(dict(input="%s on %s" % (elabel, label), observed=f, replay=dict(kind="continuity_case", mesh=label, element=elabel, seed=seed, tier=tier)))
    return label, cases, out


def run(payload):
    import multiprocessing as mp
    tier, seed = payload.get("tier", "quick"), int(payload.get("seed", 0))
    labels = [l for l, _ in all_cases(tier, seed)]
    if payload.get("mesh"):
        labels = [l for l in labels if l == payload["mesh"]]
    tasks = [(l, tier, seed, payload.get("element")) for l in labels]
    if len(tasks) > 1:
        with mp.Pool(min(int(payload.get("jobs", 12)), len(tasks))) as pool:
            res = pool.map(_task, tasks, chunksize=1)
    else:
        res = [_task(t) for t in tasks]
    cases, fails = 0, []
    for l, c, out in res:
        cases += c
        fails.extend(out)
    return dict(cases=cases, failures=fails[:30], samples=labels[:4],
                bound="%d meshes (%s; random Delaunay triangulations / tetrahedralisations, jiggled quadrilaterals / hexahedra, each under seeded renumberings with "
                      "admissible local rotations; curved P2/Q2 meshes for H1 elements) x every exported element of the cell type that promises continuity, one random "
                      "coefficient vector each, 4 random points on every interior facet (plus end/mid points for the non-conforming elements)"
                      % (len(labels), Z.describe(tier, variants=(2 if tier == "quick" else 5))))


def replay_continuity_case(sp):
    r = run(dict(mesh=sp["mesh"], element=sp["element"], seed=sp.get("seed", 0), tier=sp.get("tier", "quick")))
    return dict(confirmed=bool(r["failures"]), observed=[f["observed"] for f in r["failures"]][:3], input=[f["input"] for f in r["failures"]][:3])


def replay_continuity_patch(sp):
    """the two-cell mesh of a refuted PATCH obligation, evaluated numerically with a random coefficient vector"""
    import skfem as fem
    from contracts import catalog
    import logging
    logging.disable(logging.WARNING)
    cls = {"line": fem.MeshLine1, "tri": fem.MeshTri1, "quad": fem.MeshQuad1, "tet": fem.MeshTet1, "hex": fem.MeshHex1, "wedge": fem.MeshWedge1}[sp["cell"]]
    m = cls(np.array(sp["p"], dtype=float), np.array(sp["t"], dtype=np.int64), **(sp.get("kw") or {}))
    e = catalog.make(sp["element"])
    c, fl = check("two-cell patch", m, sp["element"], e, np.random.RandomState(0), "quick")
    return dict(confirmed=bool(fl), observed=fl[:3], input=dict(element=sp["element"], p=sp["p"], t=sp["t"], kw=sp.get("kw") or {}, coefficients="RandomState(0).uniform(-1, 1, N)"))


def replay_continuity(sp):
    r = run(dict(seed=0, tier="quick"))
    return dict(confirmed=bool(r["failures"]) if r["failures"] else None, observed=[f["observed"] for f in r["failures"]][:3], input=[f["input"] for f in r["failures"]][:3])


if __name__ == "__main__":
    print("\n@@JSON@@" + json.dumps(run(json.load(sys.stdin)), default=str))
