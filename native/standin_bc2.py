"""Bounded stand-in for C05 on FEM systems (run under /venv): the property statement itself.
For index arrays, DofsViews and dictionaries of (overlapping) views, given as I or as D:
  condense+solve returns y with y[D] = x[D] and (A y)[I] = b[I];
  enforce and penalize give the same solution; constrained rows of enforce are diag*e_i; eigenproblems are reduced consistently;
  saddle-point systems with zero diagonal blocks and unsorted / non-contiguous D are included."""
import json
import sys

import numpy as np
import scipy.sparse as sp


def systems():
    import skfem as fem
    from skfem.helpers import dot, grad
    out = []
    m = fem.MeshTri.init_sqsymmetric().refined(1)
    b = fem.Basis(m, fem.ElementTriP2())
    A = fem.BilinearForm(lambda u, v, w: dot(grad(u), grad(v)) + u.grad[0] * v).assemble(b)      # unsymmetric
    f = fem.LinearForm(lambda v, w: (1 + w.x[0]) * v).assemble(b)
    M = fem.BilinearForm(lambda u, v, w: u * v).assemble(b)
    out.append(("tri-P2-unsymmetric", b, A, f, M))
    mq = fem.MeshQuad().refined(2)
    bq = fem.Basis(mq, fem.ElementQuad1())
    Aq = fem.BilinearForm(lambda u, v, w: dot(grad(u), grad(v))).assemble(bq)
    fq = fem.LinearForm(lambda v, w: v).assemble(bq)
    Mq = fem.BilinearForm(lambda u, v, w: u * v).assemble(bq)
    out.append(("quad-Q1", bq, Aq, fq, Mq))
    return out


def selections(name, basis, rng):
    N = basis.N
    left = basis.get_dofs(lambda x: x[0] == 0)
    top = basis.get_dofs(lambda x: x[1] == 1)
    allb = basis.get_dofs()
    yield "array-boundary", allb.flatten()
    yield "array-unsorted", rng.permutation(allb.flatten())
    yield "view", allb
    yield "dict-overlapping", {"left": left, "top": top, "all": allb}
    yield "dict-disjoint+overlap", {"left": left, "top": top}      # left/top share a corner; the rest of the boundary stays free -> still solvable? (natural)


def run(payload):
    from skfem.utils import condense, enforce, penalize, solve, _flatten_dofs
    rng = np.random.RandomState(int(payload.get("seed", 0)))
    cases, failures, samples = 0, [], []

    def fail(label, msg):
        failures.append(dict(input=label, observed=msg, replay=dict(kind="bc2_case", only=label)))
    only = payload.get("only")
    for name, basis, A, f, M in systems():
        N = basis.N
        x = rng.uniform(-1, 1, N)
        for sname, sel in selections(name, basis, rng):
            Dflat = np.unique(_flatten_dofs(sel) if not isinstance(sel, np.ndarray) else sel)
            Iflat = np.setdiff1d(np.arange(N), Dflat)
            if "disjoint" in sname:
                # keep the problem well posed: add a mass term
                A_ = (A + M).tocsr()
            else:
                A_ = A
            for form in ("D", "I"):
                label = "%s/%s/%s-form" % (name, sname, form)
                if only and only != label:
                    continue
                cases += 1
                if len(samples) < 3:
                    samples.append(label)
                if form == "D":
                    kw = dict(D=sel)
                else:
                    if isinstance(sel, dict) or not isinstance(sel, np.ndarray):
                        kw = dict(I=Iflat)        # complementary index array
                    else:
                        kw = dict(I=np.setdiff1d(np.arange(N), sel))
                A0, f0, x0 = A_.copy(), f.copy(), x.copy()
                try:
                    y = solve(*condense(A_, f, x=x, **kw))
                except Exception as e:
                    fail(label, "condense+solve raised %s: %s" % (type(e).__name__, e))
                    continue
                if (A_ != A0).nnz or not np.array_equal(f, f0) or not np.array_equal(x, x0):
                    fail(label, "condense/solve modified an argument")
                if not np.array_equal(y[Dflat], x[Dflat]):
                    fail(label, "expanded solution differs from x on the constrained indices")
                res = (A0 @ y - f0)[Iflat]
                if np.max(np.abs(res)) > 1e-9 * max(1.0, np.max(np.abs(f0))):
                    fail(label, "original equations violated on kept rows: max residual %.3e" % np.max(np.abs(res)))
                # enforce: same solution, exact rows
                try:
                    Ae, fe = enforce(A_, f, x=x, **kw)
                    ye = solve(Ae, fe)
                    if np.max(np.abs(ye - y)) > 1e-8:
                        fail(label, "enforce gives a different solution (max diff %.3e)" % np.max(np.abs(ye - y)))
                    R = Ae[Dflat].toarray()
                    E = np.zeros_like(R)
                    E[np.arange(len(Dflat)), Dflat] = 1.0
                    if not np.array_equal(R, E) or not np.array_equal(fe[Dflat], x[Dflat]):
                        fail(label, "enforced rows are not e_i / rhs not x_i")
                    if (Ae[Iflat] != A0[Iflat]).nnz or not np.array_equal(fe[Iflat], f0[Iflat]):
                        fail(label, "enforce touched unconstrained rows")
                    if (A_ != A0).nnz or not np.array_equal(f, f0):
                        fail(label, "enforce modified an argument without overwrite")
                except Exception as e:
                    fail(label, "enforce raised %s: %s" % (type(e).__name__, e))
                # penalize: agrees up to its parameter
                try:
                    Ap, fp = penalize(A_, f, x=x, **kw)
                    yp = solve(Ap, fp)
                    if np.max(np.abs(yp - y)) > 1e-5:
                        fail(label, "penalize deviates from condense by %.3e" % np.max(np.abs(yp - y)))
                    if (A_ != A0).nnz or not np.array_equal(f, f0):
                        fail(label, "penalize modified an argument without overwrite")
                except Exception as e:
                    fail(label, "penalize raised %s: %s" % (type(e).__name__, e))
                # eigenproblem: matrix right-hand side reduced consistently
                try:
                    Ac, Mc, xx, II = condense(A_, M, **kw)
                    want = M.toarray()[np.ix_(np.asarray(II), np.asarray(II))]
                    if not np.array_equal(Mc.toarray(), want):
                        fail(label, "mass matrix not reduced as M[I][:, I]")
                    Ae2, Me2 = enforce(A_, M, **kw)
                    if np.abs(Me2[Dflat].toarray()).max() != 0 or (Me2[Iflat] != M[Iflat]).nnz:
                        fail(label, "enforce on a matrix right-hand side must zero exactly the constrained rows (diag 0)")
                except Exception as e:
                    fail(label, "eigen reduction raised %s: %s" % (type(e).__name__, e))
        # value types: the expanded solution carries the solution's own type (a complex system with a real load, x omitted or given as real numbers; an
        # integer-valued load), and eigen-modes expanded by solve carry the prescribed values on the constrained indices
        Dall = basis.get_dofs().flatten()
        Iall = np.setdiff1d(np.arange(N), Dall)
        from skfem.utils import solver_eigen_scipy_sym
        for tname, A_t, f_t, kwx in (("complex-matrix-real-load-x-omitted", (A + M) + 1j * M, f.copy(), {}),
                                     ("complex-matrix-real-x", (A + M) + 1j * M, f.copy(), dict(x=x.copy())),
                                     ("integer-load-x-omitted", A + M, np.round(40 * f / max(1e-30, np.abs(f).max())).astype(np.int64), {})):
            cases += 1
            label = "%s/types/%s" % (name, tname)
            if only and only != label:
                continue
            try:
                y = solve(*condense(A_t.tocsr(), f_t, D=Dall, **kwx))
                res = (A_t @ y - f_t)[Iall]
                if np.max(np.abs(res)) > 1e-9 * max(1.0, np.max(np.abs(f_t))):
                    fail(label, "original equations violated on kept rows after expansion: max residual %.3e (result dtype %s)" % (np.max(np.abs(res)), y.dtype))
                want_D = kwx["x"][Dall] if "x" in kwx else 0.0
                if np.max(np.abs(y[Dall] - want_D)) > 0:
                    fail(label, "expanded solution differs from x on the constrained indices")
            except Exception as e:
                fail(label, "condense+solve raised %s: %s" % (type(e).__name__, e))
        cases += 1
        label = "%s/eigen-expand" % name
        if not only or only == label:
            try:
                xx = np.zeros(N)
                xx[Dall] = rng.uniform(.5, 1.5, len(Dall))
                lam, modes = solve(*condense(A + M, M, x=xx, D=Dall), solver=solver_eigen_scipy_sym(k=3, sigma=0.0))
                if modes.shape != (N, 3) or not all(np.array_equal(modes[Dall, j], xx[Dall]) for j in range(3)):
                    fail(label, "expanded eigen-modes do not carry the prescribed values x on the constrained indices (shape %s)" % (modes.shape,))
            except Exception as e:
                fail(label, "eigen expansion raised %s: %s" % (type(e).__name__, e))
        # overwrite=True really overwrites, overwrite=False never
        A2, f2 = A.copy(), f.copy()
        Ae, fe = enforce(A2, f2, D=basis.get_dofs().flatten(), overwrite=True)
        cases += 1
        if Ae is not A2 or fe is not f2:
            fail(name + "/overwrite", "overwrite=True must return the operands")
    # saddle point with zero diagonal block, constrained pressure row without stored diagonal
    K = sp.csr_matrix(np.array([[4., -1, 0, 1, 0], [-1, 4, -1, 0, 1], [0, -1, 4, 1, 1], [1, 0, 1, 0, 0], [0, 1, 1, 0, 0]]))
    rhs = np.arange(5.0)
    for D in ([4], [3, 0], [4, 3]):
        cases += 1
        label = "saddle-point/D=%s" % D
        if only and only != label:
            continue
        Dn = np.array(D)
        xx = np.array([.5, -.25, 1., 2., -3.])
        try:
            Ae, fe = enforce(K, rhs, x=xx, D=Dn)
            R = Ae[Dn].toarray()
            E = np.zeros_like(R)
            E[np.arange(len(D)), Dn] = 1.0
            if not np.array_equal(R, E):
                fail(label, "enforced row without a stored diagonal is %s" % R.tolist())
            y = solve(*condense(K, rhs, x=xx, D=Dn))
            ye = solve(Ae, fe)
            if np.max(np.abs(y - ye)) > 1e-10:
                fail(label, "enforce and condense disagree on a saddle-point system")
        except Exception as e:
            fail(label, "raised %s: %s" % (type(e).__name__, e))
    return dict(cases=cases, failures=failures[:20], samples=samples,
                bound="2 FEM systems x 5 selection kinds (index arrays sorted/unsorted, view, dicts of overlapping views) x I/D form x "
                      "{condense+solve, enforce, penalize, eigen reduction} + 3 saddle-point cases without stored diagonal")


def replay_bc2_case(sp):
    r = run(dict(only=sp["only"]))
    return dict(confirmed=bool(r["failures"]), observed=[f["observed"] for f in r["failures"]][:3], input=sp["only"])


if __name__ == "__main__":
    print("\n@@JSON@@" + json.dumps(run(json.load(sys.stdin)), default=str))
