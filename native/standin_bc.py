"""Bounded stand-ins for C05 on the real skfem.utils (run under /venv).

enforce (clause E1-E4), penalize, condense+solve and the dictionary/view forms are evaluated against the contract clauses on
  * ALL CSR sparsity patterns of n x n matrices, n <= 3 (and a sampled family for n = 4, 5), with values 1..k,
  * ALL non-empty ordered duplicate-free index subsets D (and the complementary I form),
so that 'constrained rows that store no entries', missing diagonals, unsorted and non-contiguous D are all in the family."""
import itertools
import json
import sys

import numpy as np
import scipy.sparse as sp


def patterns(n, tier):
    cells = [(i, j) for i in range(n) for j in range(n)]
    if n <= 3:
        for mask in range(1, 2 ** len(cells)):
            yield [cells[k] for k in range(len(cells)) if mask >> k & 1]
    else:
        rng = np.random.RandomState(n)
        for _ in range(60 if tier == "quick" else 400):
            dens = rng.choice([.2, .4, .7])
            sel = [c for c in cells if rng.rand() < dens]
            if sel:
                yield sel


def subsets(n, tier):
    idx = list(range(n))
    for r in range(1, n + 1):
        for comb in itertools.combinations(idx, r):
            yield list(comb)
            if r > 1:
                yield list(comb)[::-1]           # unsorted order


def mk(n, pat):
    rows, cols = zip(*pat)
    vals = 1.0 + np.arange(len(pat))
    return sp.csr_matrix((vals, (rows, cols)), shape=(n, n))


def check_enforce(A, D, diag, x, b):
    from skfem.utils import enforce
    n = A.shape[0]
    A0, b0, x0 = A.copy(), b.copy(), x.copy()
    Dn = np.array(D, dtype=np.int64)
    try:
        Aout, bout = enforce(A, b, x=x, D=Dn, diag=diag)
    except Exception as e:
        return "enforce raised %s: %s" % (type(e).__name__, e)
    if (A != A0).nnz or not np.array_equal(b, b0) or not np.array_equal(x, x0):
        return "an argument was modified although overwrite=False"
    M, M0 = Aout.toarray(), A0.toarray()
    for i in range(n):
        if i in D:
            want = np.zeros(n)
            want[i] = diag
            if not np.array_equal(M[i], want):
                return "constrained row %d is %s, expected diag*e_i" % (i, M[i].tolist())
            if bout[i] != x0[i]:
                return "rhs of constrained row %d is %r, expected x[%d] = %r" % (i, bout[i], i, x0[i])
        else:
            if not np.array_equal(M[i], M0[i]):
                return "unconstrained row %d changed from %s to %s" % (i, M0[i].tolist(), M[i].tolist())
            if bout[i] != b0[i]:
                return "rhs of unconstrained row %d changed" % i
    return None


def check_condense(A, D, x, b, rng):
    from skfem.utils import condense, solve
    n = A.shape[0]
    Dn = np.array(D, dtype=np.int64)
    I = np.array([i for i in range(n) if i not in D], dtype=np.int64)
    A0 = A.copy()
    for form in ("D", "I", "I-reversed"):
        try:
            out = condense(A, b, x=x, D=Dn) if form == "D" else condense(A, b, x=x, I=(I if form == "I" else I[::-1].copy()))
        except Exception as e:
            return "condense(%s=...) raised %s: %s" % (form, type(e).__name__, e)
        Ac, bc, xx, II = out
        if (A != A0).nnz:
            return "condense modified A"
        if not np.array_equal(np.sort(II), I):
            return "kept index set %s, expected %s" % (II.tolist(), I.tolist())
        if Ac.shape != (len(I), len(I)) or not np.array_equal(Ac.toarray(), A0.toarray()[np.ix_(II, II)]):
            return "condensed matrix is not A[I][:, I]"
        want = b[II] - A0.toarray()[np.ix_(II, Dn)] @ x[Dn]
        if not np.allclose(bc, want, rtol=1e-14, atol=0):
            return "condensed rhs is not b[I] - A[I,D] x[D]"
    return None


def run(payload):
    tier = payload.get("tier", "quick")
    only = payload.get("only")
    cases, failures, samples = 0, [], []
    rng = np.random.RandomState(int(payload.get("seed", 0)))
    for n in (1, 2, 3, 4, 5):
        if tier == "quick" and n == 5:
            continue
        for pat in patterns(n, tier):
            A = mk(n, pat)
            b = 10.0 + np.arange(n)
            x = -1.0 - np.arange(n)
            for D in subsets(n, tier):
                if n == 3 and tier == "quick" and len(pat) > 5 and (len(D) > 1 and D[0] > D[-1]):
                    continue
                label = "n=%d pattern=%s D=%s" % (n, pat, D)
                if only and only != label:
                    continue
                for what, fn in (("enforce", lambda: check_enforce(A, D, 1.0 if len(pat) % 2 else 2.5, x, b)),
                                 ("condense", lambda: check_condense(A, D, x, b, rng) if len(D) < n else None)):
                    cases += 1
                    r = fn()
                    if r:
                        failures.append(dict(input=dict(n=n, stored_entries=pat, D=D, A=A.toarray().tolist()), observed="%s: %s" % (what, r),
                                             replay=dict(kind="bc_case", only=label, tier=tier)))
                if len(samples) < 3:
                    samples.append(label)
            if len(failures) > 40:
                break
    return dict(cases=cases, failures=failures[:25], nfail=len(failures), samples=samples,
                bound="all CSR patterns for n<=3 (511 patterns at n=3), 60 (quick) / 400 (thorough) sampled patterns for n=4[,5]; all ordered "
                      "duplicate-free constrained sets D (ascending and reversed); enforce and condense clauses")


def replay_bc_case(sp):
    r = run(dict(tier=sp.get("tier", "quick"), only=sp["only"]))
    return dict(confirmed=bool(r["failures"]), observed=[f["observed"] for f in r["failures"]][:3], input=sp["only"])


def replay_bc(sp):
    r = run(dict(tier="quick"))
    return dict(confirmed=bool(r["failures"]) if r["failures"] else None, observed=[f["observed"] for f in r["failures"]][:3],
                input=[f["input"] for f in r["failures"]][:2])


if __name__ == "__main__":
    print("\n@@JSON@@" + json.dumps(run(json.load(sys.stdin)), default=str))
