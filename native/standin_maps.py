"""Bounded stand-in for C10 (and parts of C02) on the real mappings (run under /venv).

Clauses
  INVERSE   invF(F(X), tind) == X and F(invF(x)) == x on every cell (affine and isoparametric; multilinear distorted cells; curved second-order
            cells); batches mixing cells whose Newton iterations converge at different speeds; very small / large length units
  JACOBIAN  DF == finite difference of F; invDF*DF == I; detDF == det(DF)
  FACETMAP  G(s) for facet f lies on the face of both adjacent cells (independent containment test) and int detDG == facet measure
  NORMALS   |n| == 1, n orthogonal to the facet tangents dG/ds at EVERY point, n points out of the cell it is taken from,
            int_{boundary} x.n == d*|Omega|  (plain, mirrored = negative determinants, jiggled + renumbered, curved P2/Q2 meshes)
  AFF=ISO   MappingAffine and MappingIsoparametric give the same values on straight simplicial meshes
  FORMS     shared points (d, npts), per-cell points (d, ncells, npts) with and without a cell subset give the same values
"""
import json
import sys

import numpy as np

from native import geom as G
from native import zoo as Z


def meshes(tier, seed):
    import skfem as fem
    rng = np.random.RandomState(seed)
    out = []
    for label, m in Z.zoo(tier, seed, variants=1):
        if label.startswith("wedge"):
            continue
        out.append((label, m))
        if "~" not in label and not label.startswith("line"):
            d = m.p.shape[0]
            n = np.zeros(d)
            n[0] = 1.0
            out.append((label + "~mirrored", m.mirrored(tuple(n))))
    # distorted multilinear cells
    mq = fem.MeshQuad.init_tensor(np.linspace(0, 1, 4), np.linspace(0, 1, 3))
    out.append(("quad-distorted", fem.MeshQuad(mq.p + .06 * np.sin(5 * mq.p[::-1] + 1.), mq.t)))
    mh = fem.MeshHex.init_tensor(np.linspace(0, 1, 3), np.linspace(0, 1, 3), np.linspace(0, 1, 2))
    ph = mh.p.copy()
    ph[0] *= 1 + .3 * ph[2]          # frusta: every face stays planar (x = x0 (1 + .3 z)), the map is genuinely trilinear
    ph[1] *= 1 + .2 * ph[2]
    out.append(("hex-distorted", fem.MeshHex(ph, mh.t)))
    # curved second-order meshes
    out.append(("tri2-circle", fem.MeshTri2.init_circle(1)))
    q2 = fem.MeshQuad2.from_mesh(fem.MeshQuad().refined(1))
    pq = q2.p.copy()
    pq[0] += .05 * np.sin(np.pi * pq[1])
    out.append(("quad2-wavy", fem.MeshQuad2(pq, q2.t)))
    # tiny / huge length units (distorted quads)
    base = out[[l for l, _ in out].index("quad-distorted")][1]
    out.append(("quad-distorted-nm", fem.MeshQuad(base.p * 1e-9, base.t)))
    out.append(("quad-distorted-km", fem.MeshQuad(base.p * 1e3 + 5e3, base.t)))
    return out


def ref_points(m, rng, n):
    rd = m.elem.refdom if hasattr(m.elem, "refdom") else None
    d = m.p.shape[0]
    name = type(m).__name__
    if name.startswith(("MeshTri", "MeshTet")):
        X = rng.dirichlet(np.ones(d + 1), size=n).T[:d]
    else:
        X = rng.uniform(0.02, .98, (d, n))
    X[:, 0] = .5 if not name.startswith(("MeshTri", "MeshTet")) else 1. / (d + 1)       # a point where Newton converges at once
    return X


def check(label, m, rng):
    import skfem as fem
    from skfem.mapping import MappingAffine, MappingIsoparametric
    fails = []
    d = m.p.shape[0]
    nt = m.t.shape[1]
    mp = m._mapping()
    X = ref_points(m, rng, 4)
    scale = float(np.ptp(m.p, axis=1).max())
    x = mp.F(X)
    # FORMS
    X3 = np.broadcast_to(X[:, None, :], (d, nt, X.shape[1])).copy()
    tind = np.arange(nt)[::-1][: max(1, nt // 2)].copy()
    try:
        alt = [("per-cell", mp.F(X3), mp.detDF(X3), mp.DF(X3)), ("subset", None, None, None)]
        if not np.allclose(alt[0][1], x, rtol=1e-13, atol=1e-13 * scale) or not np.allclose(alt[0][2], mp.detDF(X)) or not np.allclose(alt[0][3], mp.DF(X)):
            fails.append("FORMS: per-cell points give different F/detDF/DF than shared points")
        xs = mp.F(X, tind)
        if not np.allclose(xs, x[:, tind]) or not np.allclose(mp.F(X3[:, tind], tind), x[:, tind]) or not np.allclose(mp.detDF(X, tind), mp.detDF(X)[tind]) \
                or not np.allclose(mp.invDF(X, tind), mp.invDF(X)[:, :, tind]):
            fails.append("FORMS: cell subset does not commute with F/detDF/invDF")
    except Exception as e:
        fails.append("FORMS: raised %s: %s" % (type(e).__name__, str(e)[:100]))
    # INVERSE
    try:
        Xb = mp.invF(x)
        if np.max(np.abs(Xb - X3)) > 1e-9:
            fails.append("INVERSE: invF(F(X)) differs from X by %.2e" % np.max(np.abs(Xb - X3)))
        Xs = mp.invF(x[:, tind], tind)
        if np.max(np.abs(Xs - X3[:, tind])) > 1e-9:
            fails.append("INVERSE: invF(F(X), tind) differs from X by %.2e" % np.max(np.abs(Xs - X3[:, tind])))
        one = mp.invF(x[:, [0]][:, :, [1]], np.array([0]))
        if np.max(np.abs(one[:, 0, 0] - X[:, 1])) > 1e-9:
            fails.append("INVERSE: single point differs by %.2e" % np.max(np.abs(one[:, 0, 0] - X[:, 1])))
    except Exception as e:
        fails.append("INVERSE: raised %s: %s" % (type(e).__name__, str(e)[:100]))
    # JACOBIAN
    DF, iDF, det = mp.DF(X), mp.invDF(X), mp.detDF(X)
    h = 1e-6
    for j in range(d):
        Xp, Xm = X.copy(), X.copy()
        Xp[j] += h
        Xm[j] -= h
        fd = (mp.F(Xp) - mp.F(Xm)) / (2 * h)
        if np.max(np.abs(fd - DF[:, j])) > 1e-6 * scale:
            fails.append("JACOBIAN: DF[:, %d] differs from the finite difference of F by %.2e" % (j, np.max(np.abs(fd - DF[:, j]))))
    I = np.einsum("ijkl,jmkl->imkl", iDF, DF)
    if np.max(np.abs(I - np.eye(d)[:, :, None, None])) > 1e-9:
        fails.append("JACOBIAN: invDF*DF != I")
    dd = np.linalg.det(np.moveaxis(DF, (0, 1), (-2, -1)))
    if not np.allclose(dd, det, rtol=1e-10, atol=1e-14 * scale ** d):
        fails.append("JACOBIAN: detDF is not the determinant of DF")
    # BUFFER: the values belong to the CONTENTS of the point array: a reused work buffer with new contents gives the values of the new contents
    try:
        buf = X.copy()
        mp.DF(buf), mp.detDF(buf), mp.invDF(buf)
        buf[:] = ref_points(m, rng, 4)
        for nm, f in (("DF", mp.DF), ("detDF", mp.detDF), ("invDF", mp.invDF), ("F", mp.F)):
            if not np.array_equal(f(buf), f(buf.copy())):
                fails.append("BUFFER: %s of a reused point array with new contents differs from %s of an equal fresh array by %.2e" % (nm, nm, np.max(np.abs(f(buf) - f(buf.copy())))))
        buf3 = X3.copy()
        mp.DF(buf3, ), mp.detDF(buf3)
        buf3[:] = buf[:, None, :]
        if not np.array_equal(mp.DF(buf3), mp.DF(buf3.copy())) or not np.array_equal(mp.detDF(buf3, ), mp.detDF(buf3.copy())):
            fails.append("BUFFER: per-cell point array reused with new contents gives stale DF/detDF")
    except Exception as e:
        fails.append("BUFFER: raised %s: %s" % (type(e).__name__, str(e)[:100]))
    # FACETMAP + NORMALS + divergence theorem
    if d > 1 and getattr(m, "bndelem", None) is not None:
        name = type(m).__name__
        e1 = {"MeshTri1": fem.ElementTriP1, "MeshQuad1": fem.ElementQuad1, "MeshTet1": fem.ElementTetP1, "MeshHex1": fem.ElementHex1,
              "MeshTri2": fem.ElementTriP2, "MeshQuad2": fem.ElementQuad2}.get(name)
        if e1 is not None:
            for side, bfacets in ((0, m.boundary_facets()), (0, np.nonzero(m.f2t[1] != -1)[0]), (1, np.nonzero(m.f2t[1] != -1)[0])):
                if len(bfacets) == 0:
                    continue
                fb = fem.FacetBasis(m, e1(), intorder=4, facets=bfacets) if side == 0 else fem.InteriorFacetBasis(m, e1(), intorder=4, side=1)
                if side == 1:
                    bfacets = fb.find
                n = fb.normals
                ln = np.sqrt(np.sum(n ** 2, axis=0))
                if np.max(np.abs(ln - 1)) > 1e-12:
                    fails.append("NORMALS: |n| deviates from 1 by %.2e" % np.max(np.abs(ln - 1)))
                Y = fb.X if hasattr(fb, "X") else None
                # tangents of the facet map at every quadrature point
                S = fb.X
                for j in range(d - 1):
                    Sp, Sm = S.copy(), S.copy()
                    Sp[j] += 1e-6
                    Sm[j] -= 1e-6
                    tg = (mp.G(Sp, find=fb.find) - mp.G(Sm, find=fb.find)) / 2e-6
                    dot = np.sum(tg * n, axis=0)
                    if np.max(np.abs(dot)) > 1e-6 * scale:
                        fails.append("NORMALS: n is not orthogonal to the facet tangent at every point (max |n.t| = %.2e)" % np.max(np.abs(dot)))
                        break
                # outward: moving along n leaves the cell the normal is taken from
                xg = fb.global_coordinates() if hasattr(fb, "global_coordinates") else mp.G(S, find=fb.find)
                xg = np.asarray(xg)
                cells = fb.tind_normals       # the cell the normal is taken from (the same for both sides of an interior facet)
                kd = G.kind_of(m)
                if name.endswith("1"):
                    P = [G.cell_points(m, int(k)) for k in cells]
                    step = 1e-3 * scale
                    for a in range(0, len(cells), max(1, len(cells) // 6)):
                        q = xg[:, a, 0]
                        if G.contains(kd, P[a], q + step * n[:, a, 0], 1e-9) or not G.contains(kd, P[a], q - step * n[:, a, 0], 1e-7):
                            fails.append("NORMALS: normal of facet %d does not point out of the cell it is taken from" % int(fb.find[a]))
                            break
                        # FACETMAP: the facet point lies on the cell's face
                        if not any(G.on_facet(F_, q, 1e-8) for F_ in G.faces_of(kd, P[a])):
                            fails.append("FACETMAP: G(s) of facet %d does not lie on a face of the adjacent cell" % int(fb.find[a]))
                            break
                    meas = float(np.sum(fb.dx))
                    want = sum(G.poly_area(G.facet_points(m, int(f_))) for f_ in fb.find)
                    if abs(meas - want) > 1e-10 * max(1.0, want):
                        fails.append("FACETMAP: integral of the surface factor is %.12g, the facets' measure is %.12g" % (meas, want))
            fbb = fem.FacetBasis(m, e1(), intorder=6)
            xn = float(np.sum(np.sum(fbb.global_coordinates() * fbb.normals, axis=0) * fbb.dx))
            vol = float(np.sum(fem.CellBasis(m, e1(), intorder=6).dx))
            if abs(xn - d * vol) > 1e-9 * max(1.0, abs(d * vol)):
                fails.append("NORMALS: boundary integral of x.n = %.12g but d*|Omega| = %.12g" % (xn, d * vol))
    # AFF = ISO on straight simplices
    name = type(m).__name__
    if name in ("MeshTri1", "MeshTet1", "MeshLine1"):
        el = {"MeshTri1": fem.ElementTriP1, "MeshTet1": fem.ElementTetP1, "MeshLine1": fem.ElementLineP1}[name]()
        bel = {"MeshTri1": fem.ElementLineP1(), "MeshTet1": fem.ElementTriP1(), "MeshLine1": None}[name]
        mi = MappingIsoparametric(m, el, bel)
        ma = MappingAffine(m)
        for nm, a, b in (("F", ma.F(X), mi.F(X)), ("detDF", ma.detDF(X), mi.detDF(X)), ("invDF", ma.invDF(X), mi.invDF(X)), ("F(tind)", ma.F(X, tind), mi.F(X, tind)),
                         ("F(per-cell)", ma.F(X3), mi.F(X3)), ("invF", ma.invF(x), mi.invF(x))):
            if a.shape != b.shape or not np.allclose(a, b, rtol=1e-11, atol=1e-12 * scale):
                fails.append("AFF=ISO: %s differs between MappingAffine and MappingIsoparametric" % nm)
    return fails


def check_thin_facets():
    """surface factors on needle-shaped facets (boundary-layer meshes): detDG * reference measure against the facet measure computed in exact rational arithmetic
    (the square of the measure is rational; one correctly rounded square root).  Floating-point cancellation in an algebraically equivalent formula shows here."""
    import skfem as fem
    from fractions import Fraction
    from math import sqrt
    from skfem.mapping import MappingAffine, MappingIsoparametric
    fails = []
    for thick in (2. ** -14, 2. ** -20, 2. ** -27):
        m = fem.MeshTet.init_tensor(np.array([0., thick, 1.]), np.array([0., .5, 1.]), np.array([0., 1.]))
        maps = [("affine", MappingAffine(m)), ("isoparametric", MappingIsoparametric(m, fem.ElementTetP1(), fem.ElementTriP1()))]
        X = np.array([[1 / 3], [1 / 3]])
        find = np.arange(m.facets.shape[1])
        exact = []
        for f in find:
            P = [[Fraction(float(v)) for v in m.p[:, vi]] for vi in m.facets[:, f]]
            a = [P[1][i] - P[0][i] for i in range(3)]
            b = [P[2][i] - P[0][i] for i in range(3)]
            cr = [a[1] * b[2] - a[2] * b[1], a[2] * b[0] - a[0] * b[2], a[0] * b[1] - a[1] * b[0]]
            exact.append(sqrt(sum(c * c for c in cr)))        # = 2 * area = detDG (reference triangle has measure 1/2)
        exact = np.array(exact)
        for name, mp in maps:
            got = np.asarray(mp.detDG(X, find))[:, 0]
            rel = np.abs(got - exact) / exact
            if rel.max() > 1e-9:
                f = int(np.argmax(rel))
                fails.append("THIN-FACET: %s detDG of facet %d of a boundary-layer mesh (layer thickness %.1e) is %r, exact %r (relative error %.2e)" % (name, f, thick, float(got[f]), float(exact[f]), rel.max()))
    mq = fem.MeshHex.init_tensor(np.array([0., 2. ** -20, 1.]), np.array([0., 1.]), np.array([0., 1.]))
    mp = mq._mapping()
    got = np.asarray(mp.detDG(np.array([[.5], [.5]]), np.arange(mq.facets.shape[1])))[:, 0]
    ex = np.array([geom_area(mq, f) for f in range(mq.facets.shape[1])])
    rel = np.abs(got - ex) / ex
    if rel.max() > 1e-9:
        fails.append("THIN-FACET: hexahedral detDG relative error %.2e on a boundary-layer mesh" % rel.max())
    return fails


def geom_area(m, f):
    from native import geom as G
    return G.poly_area(G.facet_points(m, f))


def run(payload):
    tier, seed = payload.get("tier", "quick"), int(payload.get("seed", 0))
    only = payload.get("only")
    rng = np.random.RandomState(seed)
    cases, failures, samples = 0, [], []
    if not only or only == "thin-facets":
        cases += 1
        try:
            fl = check_thin_facets()
        except Exception as ex:
            fl = ["exception %s: %s" % (type(ex).__name__, ex)]
        for f in fl[:4]:
            failures.append(dict(input=dict(mesh="boundary-layer tetrahedra / hexahedra"), observed=f, replay=dict(kind="maps_case", only="thin-facets", seed=seed, tier=tier)))
    for label, m in meshes(tier, seed):
        if only and only != label:
            continue
        cases += 1
        if len(samples) < 3:
            samples.append(label)
        try:
            fl = check(label, m, np.random.RandomState(seed + cases))
        except Exception as ex:
            import traceback
            fl = ["exception %s: %s | %s" % (type(ex).__name__, ex, traceback.format_exc()[-400:])]
        for f in fl[:4]:
            failures.append(dict(input=dict(mesh=label), observed=f, replay=dict(kind="maps_case", only=label, seed=seed, tier=tier)))
    return dict(cases=cases, failures=failures[:20], samples=samples,
                bound=Z.describe(tier, 1) + " + mirrored copies (negative determinants), distorted quadrilaterals/hexahedra, curved MeshTri2 disc and wavy MeshQuad2, "
                      "nanometre- and kilometre-scale distorted quadrilaterals; 4 reference points per cell (one where Newton converges immediately)")


def replay_maps_case(sp):
    r = run(dict(only=sp["only"], seed=sp.get("seed", 0), tier=sp.get("tier", "quick")))
    return dict(confirmed=bool(r["failures"]), observed=[f["observed"] for f in r["failures"]][:3], input=sp["only"])


def replay_maps(sp):
    r = run(dict(seed=0, tier="quick"))
    return dict(confirmed=bool(r["failures"]) if r["failures"] else None, observed=[f["observed"] for f in r["failures"]][:3], input=[f["input"] for f in r["failures"]][:3])


if __name__ == "__main__":
    print("\n@@JSON@@" + json.dumps(run(json.load(sys.stdin)), default=str))
