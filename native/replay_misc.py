"""Replay handlers (run under /venv): integrand helpers."""
import itertools
import numpy as np


def _arr(prefix, shape, point, seed):
    rng = np.random.RandomState(seed)
    a = rng.uniform(-1, 1, size=tuple(shape) + (1, 1))
    for idx in np.ndindex(*shape):
        key = prefix + "".join(str(i) for i in idx)
        if key in point and np.isfinite(point[key]) and abs(point[key]) < 1e6:
            a[idx + (0, 0)] = point[key]
    return a


def replay_helper(sp):
    variant, name, d = sp["variant"], sp["name"], sp.get("d", 3)
    pt = sp.get("point") or {}
    u, v, w = (_arr(p, (d,), pt, k) for k, p in enumerate("uvw"))
    A, B = _arr("A", (d, d), pt, 5), _arr("B", (d, d), pt, 6)
    G, H = _arr("G", (d, d, d), pt, 7), _arr("H", (d, d, d), pt, 8)
    if variant == "jax":
        import jax.numpy as jnp
        import skfem.autodiff.helpers as M
        from skfem.autodiff import JaxDiscreteField as DF
        conv = jnp.asarray
        fld = lambda val, **k: DF(conv(val), **{a: conv(b) for a, b in k.items()})
    else:
        import skfem.helpers as M
        from skfem.element import DiscreteField
        conv = np.asarray
        fld = lambda val, **k: DiscreteField(value=val, **k)
    f = getattr(M, name if name != "prod3" else "prod")
    sq = lambda a: np.asarray(a, dtype=float)[..., 0, 0]
    a_, b_, u_, v_, w_, g_, h_ = sq(A), sq(B), sq(u), sq(v), sq(w), sq(G), sq(H)
    cases = {
        "dot": (lambda: f(conv(u), conv(v)), lambda: u_ @ v_),
        "ddot": (lambda: f(conv(A), conv(B)), lambda: np.sum(a_ * b_)),
        "dddot": (lambda: f(conv(G), conv(H)), lambda: np.sum(g_ * h_)),
        "prod": (lambda: f(conv(u), conv(v)), lambda: np.outer(u_, v_)),
        "prod3": (lambda: getattr(M, "prod")(conv(u), conv(v), conv(w)), lambda: np.einsum("i,j,k->ijk", u_, v_, w_)),
        "mul": (lambda: f(conv(A), conv(u)), lambda: a_ @ u_),
        "trace": (lambda: f(conv(A)), lambda: np.trace(a_)),
        "transpose": (lambda: f(conv(A)), lambda: a_.T),
        "sym_grad": (lambda: f(fld(u, grad=A)), lambda: .5 * (a_ + a_.T)),
        "div": (lambda: f(fld(u, grad=A)), lambda: np.trace(a_)),
        "det": (lambda: f(conv(A)), lambda: np.linalg.det(a_)),
        "inv": (lambda: f(conv(A)), lambda: np.linalg.inv(a_)),
        "cross": (lambda: f(conv(u), conv(v)), lambda: np.cross(u_, v_)),
        "curl": (lambda: f(fld(u, grad=A)),
                 lambda: (a_[1, 0] - a_[0, 1]) if d == 2 else np.array([a_[2, 1] - a_[1, 2], a_[0, 2] - a_[2, 0], a_[1, 0] - a_[0, 1]])),
    }
    if name not in cases:
        return dict(confirmed=None, note="no replay for helper %s" % name)
    if sp.get("frame"):
        # FRAME clause: the operands (and their derivative fields) are unchanged after the call
        keep = [(x, np.array(x, dtype=float).copy()) for x in (u, v, w, A, B, G, H)]
        cases[name][0]()
        changed = [n for n, (x, c) in zip("u v w A B G H".split(), keep) if not np.array_equal(np.asarray(x, dtype=float), c)]
        return dict(confirmed=bool(changed), observed="operands modified in place: %s" % changed, required="no operand is modified",
                    inputs=dict(A=a_.tolist(), u=u_.tolist()), oracle="helper '%s' (%s variant) called on arrays that are compared with copies taken before the call" % (name, variant))
    got = np.asarray(cases[name][0](), dtype=float)
    got = got[..., 0, 0] if got.ndim >= 2 else got
    req = np.asarray(cases[name][1](), dtype=float)
    err = float(np.max(np.abs(got - req)))
    return dict(confirmed=bool(err > 1e-9 * max(1.0, float(np.max(np.abs(req))))), observed=got.tolist(), required=req.tolist(),
                inputs=dict(A=a_.tolist(), B=b_.tolist(), u=u_.tolist(), v=v_.tolist()),
                oracle="helper '%s' (%s variant) on the real code vs independent NumPy definition" % (name, variant))


def replay_quadrature(sp):
    """Evaluate the clause on the real getter with exact rationals."""
    from fractions import Fraction
    from math import factorial
    import skfem.quadrature as Q
    from skfem import refdom as R
    cell, n, cl = sp["cell"], sp["n"], sp["clause"]
    get = {"tri": lambda: Q.get_quadrature_tri(n), "tet": lambda: Q.get_quadrature_tet(n), "line": lambda: Q.get_quadrature_line(n),
           "quad": lambda: Q.get_quadrature(R.RefQuad, n), "hex": lambda: Q.get_quadrature(R.RefHex, n),
           "wedge": lambda: Q.get_quadrature(R.RefWedge, n)}[cell]
    try:
        X, W = get()
    except NotImplementedError as e:
        return dict(confirmed=(cl != "raises"), observed="NotImplementedError: %s" % e, required="a rule" if cl != "raises" else "raise")
    if cl == "raises":
        return dict(confirmed=True, observed="returned a %d-point rule for order %d" % (len(W), n), required="NotImplementedError",
                    input=dict(cell=cell, order=n))
    Xf = [[Fraction(float(v)) for v in row] for row in np.asarray(X, dtype=float)]
    Wf = [Fraction(float(v)) for v in W]
    d = len(Xf)
    if cl == "moment":
        e = sp["exps"]
        got = sum(Wf[q] * np.prod([Xf[k][q] ** e[k] for k in range(d)]) for q in range(len(Wf)))
        if cell in ("tri", "tet", "line"):
            req = Fraction(int(np.prod([factorial(a) for a in e])), factorial(sum(e) + d))
        elif cell == "wedge":
            req = Fraction(factorial(e[0]) * factorial(e[1]), factorial(e[0] + e[1] + 2)) / (e[2] + 1)
        else:
            req = Fraction(1)
            for a in e:
                req /= (a + 1)
        return dict(confirmed=bool(abs(got - req) > Fraction(1, 10 ** 13)), observed=float(got), required=float(req),
                    input=dict(cell=cell, order=n, monomial=e), oracle="exact rational moment of the rule returned by the real getter")
    if cl == "inside":
        if cell in ("tri", "tet"):
            bad = [q for q in range(len(Wf)) if min(Xf[k][q] for k in range(d)) < 0 or sum(Xf[k][q] for k in range(d)) > 1]
        elif cell == "wedge":
            bad = [q for q in range(len(Wf)) if min(Xf[k][q] for k in range(3)) < 0 or Xf[0][q] + Xf[1][q] > 1 or Xf[2][q] > 1]
        else:
            bad = [q for q in range(len(Wf)) if any(not (0 <= Xf[k][q] <= 1) for k in range(d))]
        return dict(confirmed=bool(bad), observed="nodes outside: %s" % [[float(Xf[k][q]) for k in range(d)] for q in bad[:3]], required="all nodes in the closed cell",
                    input=dict(cell=cell, order=n))
    if cl in ("count", "pairing"):
        n1 = len(Q.get_quadrature_line(n)[1])
        want = n1 ** d if cell != "wedge" else n1 * len(Q.get_quadrature_tri(n)[1])
        return dict(confirmed=bool(len(Wf) != want) if cl == "count" else None, observed=len(Wf), required=want, input=dict(cell=cell, order=n))
    return dict(confirmed=None)


def replay_quadrature_fresh(sp):
    import skfem.quadrature as Q
    from skfem import refdom as R
    n = sp["n"]
    g = getattr(Q, sp["getter"], None)
    if g is None or sp["getter"] == "<lambda>":
        return dict(confirmed=None)
    X0, W0 = g(n)
    Xc, Wc = X0.copy(), W0.copy()
    try:
        X0 *= 3.0
        W0 += 1.0
    except ValueError:
        pass
    X1, W1 = g(n)
    bad = not (np.array_equal(X1, Xc) and np.array_equal(W1, Wc))
    return dict(confirmed=bool(bad), observed="second call returns weights summing to %r" % float(W1.sum()), required="sum %r" % float(Wc.sum()),
                input="X, W = %s(%d); X *= 3; W += 1; %s(%d)" % (sp["getter"], n, sp["getter"], n))


def replay_jaxfield(sp):
    import jax.numpy as jnp
    from skfem.autodiff import JaxDiscreteField as DF
    a, b = jnp.asarray([[0.3, 1.7]]), jnp.asarray([[2.0, -0.4]])
    fa = DF(a)
    name, form = sp["op"], sp["form"]
    other = {"field-field": DF(b), "field-array": b, "field-number": 2.5, "array-field": b, "number-field": 2.5}[form]
    ov = other.value if isinstance(other, DF) else other
    import operator
    base = {"add": operator.add, "sub": operator.sub, "mul": operator.mul, "truediv": operator.truediv,
            "rsub": lambda x, y: y - x, "rmul": lambda x, y: y * x, "rtruediv": lambda x, y: y / x}[name]
    got = np.asarray(getattr(fa, "__%s__" % name)(other))
    req = np.asarray(base(a, ov))
    return dict(confirmed=bool(np.max(np.abs(got - req)) > 1e-12), observed=got.tolist(), required=req.tolist(),
                input="JaxDiscreteField([[0.3,1.7]]).__%s__(%s)" % (name, form))


def jacobian_cache_sequences():
    """(label, first call, second call, in-place update between the calls or None) on the 2x2 tensor quad mesh; shared by the C15 unit and its replay"""
    X = np.array([[.2, .7, .1, .9], [.3, .4, .8, .6]])
    buf = X[:, :2].copy()

    def refill():
        buf[:] = X[:, 2:]
    return [
        ("tind-dtype", (X[:, :2], np.array([1], dtype=np.int64)), (X[:, :2], np.array([1, 0], dtype=np.int32)), None),
        ("X-shape", (X, None), (X.reshape(2, 4, 1), None), None),
        ("tind-subsets", (X[:, :3], np.array([0, 2])), (X[:, :3], np.array([1, 3])), None),
        ("X-values", (X[:, :2], None), (X[:, 2:], None), None),
        ("X-buffer-reused", (buf, None), (buf, None), refill),      # the same array OBJECT, new contents before the second call
    ]


def jacobian_cache_case(label):
    """-> (ok, detail): detDF(args2) after detDF(args1) [and the in-place update] on one mapping == detDF(args2) on a fresh mapping"""
    import skfem as fem
    m = fem.MeshQuad.init_tensor(np.array([0., .4, 1.]), np.array([0., .3, 1.]))
    p = m.p.copy()
    p[:, np.argmin(np.abs(p[0] - .4) + np.abs(p[1] - .3))] += np.array([.07, -.05])      # non-parallelogram cells: the Jacobian depends on the point
    m = fem.MeshQuad(p, m.t.copy())
    (_, a, b, upd), = [q for q in jacobian_cache_sequences() if q[0] == label]
    fresh = lambda: fem.MeshQuad(m.p.copy(), m.t.copy())._mapping()
    try:
        used = m._mapping()
        used.detDF(*a)
        if upd is not None:
            upd()
        got = used.detDF(*b)
        want = fresh().detDF(*[None if v is None else v.copy() for v in b])
        ok = got.shape == want.shape and np.array_equal(got, want)
        return ok, "" if ok else ("second call returned shape %s, fresh mapping %s, max difference %s" % (got.shape, want.shape, float(np.max(np.abs(got - want))) if got.shape == want.shape else "n/a"))
    except Exception as e:
        try:
            fresh().detDF(*b)
            return False, "used mapping raised %s, fresh mapping did not" % type(e).__name__
        except Exception:
            return True, ""


def replay_hash_args(sp):
    label = sp.get("case", "tind-dtype")
    ok, det = jacobian_cache_case(label)
    return dict(confirmed=bool(not ok), observed=det or "equal to the fresh mapping", required="result of a fresh mapping",
                input="sequence %r: detDF(args1), [in-place update of the point array], detDF(args2) on one MappingIsoparametric" % label)


def element_global_dropped_mesh(name="ElementTriMorley", rounds=30):
    """one element object used on a mesh that is then dropped and garbage collected, then on a new mesh of equal size and other geometry (preferring a new mesh
    object that the allocator places at the address of the dropped one): values == those of a fresh element.  -> (ok, detail)"""
    import gc
    import skfem as fem
    mk = getattr(fem, name)
    make = lambda k: fem.MeshTri().refined(1).scaled((1. + k, 1. / (1. + k)))
    shared, hits = mk(), 0
    for k in range(1, rounds + 1):
        first = make(0)
        fem.Basis(first, shared)
        address = id(first)
        del first
        gc.collect()
        keep, second = [], None
        for j in range(300):
            cand = make(k)
            if id(cand) == address:
                second, hits = cand, hits + 1
                break
            if j % 3:
                keep.append(cand)
        second = cand if second is None else second
        del keep
        b2, b3 = fem.Basis(second, shared), fem.Basis(make(k), mk())
        err = max(float(np.max(np.abs(np.asarray(x[0]) - np.asarray(y[0])))) for x, y in zip(b2.basis, b3.basis))
        if err > 1e-8:
            return False, "round %d: one %s object used on a dropped mesh and then on a new mesh gives basis values differing from a fresh element's by %.3e" % (k, name, err)
    return True, "%d rounds, %d with the new mesh at the address of the dropped one" % (rounds, hits)


def replay_element_global(sp):
    if sp.get("case") == "dropped-mesh":
        ok, det = element_global_dropped_mesh(sp["name"])
        return dict(confirmed=bool(not ok), observed=det, input="%s object used on a mesh that is garbage collected, then on a new mesh" % sp["name"])
    import skfem as fem
    name = sp["name"]
    mk = getattr(fem, name)
    if "Line" in name:
        m1, m2 = fem.MeshLine(np.linspace(0, 1, 3)), fem.MeshLine(np.linspace(0, 1, 6))
    elif "Quad" in name:
        m1, m2 = fem.MeshQuad().refined(1), fem.MeshQuad().refined(2)
    else:
        m1, m2 = fem.MeshTri().refined(1), fem.MeshTri.init_sqsymmetric().refined(2)
    e = mk()
    try:
        fem.Basis(m1, e)
        b2, b3 = fem.Basis(m2, e), fem.Basis(m2, mk())
        err = max(float(np.max(np.abs(np.asarray(x[0]) - np.asarray(y[0])))) for x, y in zip(b2.basis, b3.basis))
        return dict(confirmed=bool(err > 1e-8), observed="max difference %.3e" % err, input="%s object used on two meshes" % name)
    except Exception as ex:
        return dict(confirmed=True, observed="raised %s: %s" % (type(ex).__name__, ex), input="%s object used on two meshes" % name)


def replay_points(sp):
    """refuted PROBES obligation: evaluate probes on real bases against the independent local expansion (stand-in family)."""
    from native import standin_points as SP
    r = SP.run(dict(tier="quick", seed=0))
    f = [x for x in r["failures"] if "EVAL" in x["observed"] or "POINT-SOURCE" in x["observed"] or "QUAD" in x["observed"]]
    return dict(confirmed=bool(f) if f else None, observed=[x["observed"] for x in f][:3], input=[x["input"] for x in f][:2])


def solver_reuse_failures():
    """one solver object on two systems (different sizes, per-call options) vs fresh solver objects."""
    import skfem as fem
    from skfem import utils as U
    out = []

    def system(n):
        m = fem.MeshTri().refined(n)
        b = fem.Basis(m, fem.ElementTriP1())
        A = fem.BilinearForm(lambda u, v, w: u.grad[0] * v.grad[0] + u.grad[1] * v.grad[1] + u * v).assemble(b)
        f = fem.LinearForm(lambda v, w: 1. * v).assemble(b)
        return A, f
    (A1, f1), (A2, f2) = system(1), system(2)
    for name, mk, opt in (("solver_iter_pcg", U.solver_iter_pcg, dict(rtol=1e-2)), ("solver_iter_krylov", U.solver_iter_krylov, dict(rtol=1e-2)),
                          ("solver_direct_scipy", U.solver_direct_scipy, dict(use_umfpack=False)), ("solver_iter_cg", U.solver_iter_cg, dict(tol=1e-1))):
        s = mk()
        try:
            s(A1, f1)
            x2 = s(A2, f2)
            if not np.allclose(x2, mk()(A2, f2), rtol=1e-9, atol=1e-12):
                out.append("%s: second system solved with a reused solver differs from a fresh solver" % name)
            s2 = mk()
            s2(A1, f1, **opt)
            if not np.allclose(s2(A1, f1), mk()(A1, f1), rtol=1e-9, atol=1e-12):
                out.append("%s: options of an earlier call leak into later calls" % name)
        except Exception as e:
            out.append("%s: reuse raised %s: %s" % (name, type(e).__name__, str(e)[:100]))
    M1 = fem.BilinearForm(lambda u, v, w: u * v).assemble(fem.Basis(fem.MeshTri().refined(1), fem.ElementTriP1()))
    for name, mk in (("solver_eigen_scipy_sym", U.solver_eigen_scipy_sym),):
        s = mk(k=2)
        try:
            s(A1, M1, k=3)
            L = s(A1, M1)[0]
            if len(L) != 2:
                out.append("%s: per-call k=3 leaked into the next call (%d eigenvalues instead of 2)" % (name, len(L)))
        except Exception as e:
            out.append("%s: reuse raised %s: %s" % (name, type(e).__name__, str(e)[:100]))
    return out


def replay_solver_reuse(sp):
    f = solver_reuse_failures()
    return dict(confirmed=bool(f), observed=f[:3], input="one solver object used on two systems / with per-call options")


def replay_table_alias(sp):
    import skfem as fem
    bad = []
    for name, e, d in (("ElementLinePp(3)", fem.ElementLinePp(3), 1), ("ElementQuadP(3)", fem.ElementQuadP(3), 2)):
        X1, X2 = np.random.RandomState(0).rand(d, 4), np.random.RandomState(1).rand(d, 4)
        r1 = e.lbasis(X1, 2)
        keep = [np.array(a, copy=True) for a in r1]
        e.lbasis(X2, 2)
        if any(not np.array_equal(a, b) for a, b in zip(r1, keep)):
            bad.append("%s: arrays returned by lbasis(X1, .) changed after lbasis(X2, .)" % name)
    return dict(confirmed=bool(bad), observed=bad, input="hold the result of lbasis at one point set, evaluate at another set of equal size")


def replay_basis_dofs(sp):
    """the numbering a basis uses against Dofs(mesh, elem) built directly for the same mesh and element"""
    import skfem as fem
    from skfem.assembly.dofs import Dofs
    m = getattr(fem, sp["mesh"])().refined(1)
    e = fem.ElementDG(fem.ElementTriP1()) if sp["element"] == "ElementDG" else getattr(fem, sp["element"])()
    b = fem.CellBasis(m, e)
    d = Dofs(m, e)
    bad = b.N != d.N or b.dofs.element_dofs.shape != d.element_dofs.shape or not np.array_equal(b.dofs.element_dofs, d.element_dofs)
    return dict(confirmed=bool(bad), input="CellBasis(%s().refined(1), %s())" % (sp["mesh"], sp["element"]),
                observed="basis.N = %d, Dofs(mesh, elem).N = %d" % (b.N, d.N), required="the basis numbers its DOFs with Dofs(mesh, elem) of its own element")


def replay_global_derivatives(sp):
    """ElementGlobal: every entry of grad3 against central differences of the Hessian (ElementHexC1 delivers three derivatives)"""
    import skfem as fem
    m = fem.MeshHex().refined(1)
    e = fem.ElementHexC1()
    X = np.array([[.3], [.55], [.2]])
    h = 1e-5
    worst, where = 0.0, None
    for i in (0, 9, 37):
        f = e.gbasis(m._mapping(), X, i, tind=np.array([0]))[0]
        g3 = getattr(f, "grad3", None)
        if g3 is None:
            return dict(confirmed=None, note="no third derivatives delivered")
        for a in range(3):
            Xp, Xm = X.copy(), X.copy()
            Xp[a] += h
            Xm[a] -= h
            Hp = e.gbasis(m._mapping(), Xp, i, tind=np.array([0]))[0].hess
            Hm = e.gbasis(m._mapping(), Xm, i, tind=np.array([0]))[0].hess
            dF = np.asarray(m._mapping().DF(X, tind=np.array([0])))[a, a, 0, 0]
            num = (Hp - Hm) / (2 * h * dF)
            for b in range(3):
                for c in range(3):
                    err = abs(float(g3[b, c, a, 0, 0]) - float(num[b, c, 0, 0]))
                    sc = max(1.0, abs(float(num[b, c, 0, 0])))
                    if err / sc > worst:
                        worst, where = err / sc, (i, (b, c, a), float(g3[b, c, a, 0, 0]), float(num[b, c, 0, 0]))
    return dict(confirmed=bool(worst > 1e-4), input="ElementHexC1 on MeshHex().refined(1), cell 0, point (.3,.55,.2)", observed="basis %s: grad3%s delivered %r, difference quotient of hess %r" % where if where else "",
                required="grad3[b,c,a] == d hess[b,c] / dx_a")
