"""Bounded stand-in for C06 (run under /venv): patch tests (Poisson, reaction-diffusion, linear elasticity; Dirichlet + natural data along random facet splits)
and the projection identity, with a sharp tolerance, on irregular / renumbered / graded meshes of every cell type.

Oracle: the manufactured polynomial itself (own polynomial class: values, gradients, Laplacians, stresses computed symbolically), compared with the discrete
solution in the L2 norm with an over-integrating rule and at the DOFs through the library's interpolation -- never through the solver under test."""
import itertools
import json
import sys
import warnings

import numpy as np

from native import geom
from native import zoo as Z

TOL = 2e-9


# ------------------------------------------------------------------------------------------------ polynomials

class MPoly:
    """multivariate polynomial {exponent tuple: coefficient} with numpy evaluation"""

    def __init__(self, c, d):
        self.c, self.d = {k: float(v) for k, v in c.items() if v != 0}, d

    @staticmethod
    def random(d, deg, rng):
        return MPoly({e: rng.randint(-4, 5) / 2. for e in itertools.product(range(deg + 1), repeat=d) if sum(e) <= deg}, d)

    def __call__(self, x):
        out = 0. * x[0]
        for e, co in self.c.items():
            t = co
            for i, k in enumerate(e):
                if k:
                    t = t * x[i] ** k
            out = out + t
        return out

    def diff(self, i):
        out = {}
        for e, co in self.c.items():
            if e[i]:
                k = list(e)
                k[i] -= 1
                out[tuple(k)] = out.get(tuple(k), 0) + co * e[i]
        return MPoly(out, self.d)

    def __add__(self, o):
        out = dict(self.c)
        for k, v in o.c.items():
            out[k] = out.get(k, 0) + v
        return MPoly(out, self.d)

    def scale(self, a):
        return MPoly({k: a * v for k, v in self.c.items()}, self.d)


# ------------------------------------------------------------------------------------------------ meshes

def meshes(tier, rng):
    import skfem as fem
    out = []
    out.append(("line-graded", fem.MeshLine(np.array([0., .1, .15, .5, .55, 1.3])), True))
    p = np.array([[0., 1., 0., 1., .5, .375, 1.5, .2, .8], [0., 0., 1., 1., .5625, -.25, .5, .4, .2]])
    from scipy.spatial import Delaunay
    out.append(("tri-delaunay", fem.MeshTri(p.copy(), Delaunay(p.T).simplices.T.astype(np.int64)), True))
    out.append(("tri-L-refined", fem.MeshTri.init_lshaped().refined(1), True))
    out.append(("tri-adaptive", fem.MeshTri.init_sqsymmetric().refined(np.array([0])).refined(np.array([1, 2])), True))
    mq = fem.MeshQuad.init_tensor(np.array([0., .3, 1.]), np.array([0., .5, .7, 1.2]))
    A2 = np.array([[1., .5], [-.3, 1.4]])
    out.append(("quad-sheared", fem.MeshQuad(A2 @ mq.p, mq.t), True))
    out.append(("quad-box", mq, True))
    pq = mq.p.copy()
    inner = np.nonzero((pq[0] > 0) & (pq[0] < 1) & (pq[1] > 0) & (pq[1] < 1.2))[0]
    pq[:, inner] += rng.uniform(-.08, .08, (2, len(inner)))
    out.append(("quad-convex", fem.MeshQuad(pq, mq.t), False))
    # mostly exact squares / cubes with ONE interior vertex moved: affine and non-affine cells side by side, both kinds owning boundary facets
    m4 = fem.MeshQuad.init_tensor(np.linspace(0, 1, 4), np.linspace(0, 1, 4))
    p4 = m4.p.copy()
    j4 = int(np.argmin(np.abs(p4[0] - 1 / 3) + np.abs(p4[1] - 1 / 3)))
    p4[:, j4] += [.09, -.07]
    out.append(("quad-one-vertex-moved", fem.MeshQuad(p4, m4.t), False))
    P3 = np.vstack([np.array(list(itertools.product([0., 1.], repeat=3))), rng.uniform(.2, .8, (3, 3))])
    out.append(("tet-delaunay", fem.MeshTet(P3.T.copy(), Delaunay(P3).simplices.T.astype(np.int64)), True))
    A3 = np.array([[1., .4, .2], [.1, .9, -.3], [-.2, .3, 1.2]])
    mt = fem.MeshTet.init_tensor(np.array([0., .6, 1.]), np.array([0., 1.]), np.array([0., .5, 1.]))
    out.append(("tet-sheared", fem.MeshTet(A3 @ mt.p, mt.t), True))
    mh = fem.MeshHex.init_tensor(np.array([0., .6, 1.]), np.array([0., .3, 1.]), np.array([0., 1.]))
    out.append(("hex-sheared", fem.MeshHex(A3 @ mh.p, mh.t), True))
    out.append(("hex-box", mh, True))
    ph = mh.p.copy()
    inner = np.nonzero(np.all((ph > 0) & (ph < 1), axis=0))[0]
    ph[0] = ph[0] * (1 + ph[2] / 3)
    ph[1] = ph[1] * (1 + ph[2] / 5)
    out.append(("hex-frusta", fem.MeshHex(ph, mh.t), False))
    m3 = fem.MeshHex.init_tensor(np.linspace(0, 1, 4), np.linspace(0, 1, 3), np.linspace(0, 1, 3))
    p3 = m3.p.copy()
    j3 = int(np.argmin(np.abs(p3[0] - 1 / 3) + np.abs(p3[1] - .5) + np.abs(p3[2] - .5)))
    p3[:, j3] += [.08, -.06, .05]
    out.append(("hex-one-vertex-moved", fem.MeshHex(p3, m3.t), False))
    mw = fem.MeshTri.init_sqsymmetric() * fem.MeshLine(np.array([0., .4, 1.]))
    out.append(("wedge-sheared", type(mw)(A3 @ mw.p, mw.t), True))
    return out


def curved(tier):
    import skfem as fem
    return [("tri2-circle", fem.MeshTri2.init_circle()), ("quad2", fem.MeshQuad2().refined(1))]


# element name -> degree of the full polynomial space it contains (on affine cells)
DEGREE = {
    "ElementLineP1": 1, "ElementLineP2": 2, "ElementLinePp(3)": 3, "ElementLinePp(4)": 4, "ElementLineMini": 1,
    "ElementTriP1": 1, "ElementTriP2": 2, "ElementTriP3": 3, "ElementTriP4": 4, "ElementTriMini": 1, "ElementTriCCR": 2, "ElementTriP1B": 1, "ElementTriP2B": 2,
    "ElementTriP1G": 1, "ElementTriP2G": 2,
    "ElementQuad1": 1, "ElementQuad2": 2, "ElementQuadS2": 2, "ElementQuadP(2)": 2, "ElementQuadP(3)": 3, "ElementQuadP(4)": 4,
    "ElementTetP1": 1, "ElementTetP2": 2, "ElementTetMini": 1, "ElementTetCCR": 2,
    "ElementHex1": 1, "ElementHex2": 2, "ElementHexS2": 2,
    "ElementWedge1": 1,
}


def elements_for(m):
    from contracts import catalog
    rd = m.elem.refdom.__name__
    out = []
    for label in DEGREE:
        try:
            e = catalog.make(label)
        except Exception:
            continue
        if e.refdom.__name__ == rd:
            out.append((label, e))
    return out


# ------------------------------------------------------------------------------------------------ checks

def l2err(basis_hi, xh, u):
    """relative L2 error of the discrete function against the polynomial (over-integrated)"""
    import skfem as fem
    uh = basis_hi.interpolate(xh)
    num = fem.Functional(lambda w: (w["uh"] - u(w.x)) ** 2).assemble(basis_hi, uh=uh)
    den = fem.Functional(lambda w: u(w.x) ** 2 + 1.).assemble(basis_hi)
    return float(np.sqrt(abs(num) / den))


def split_boundary(m, rng):
    bf = m.boundary_facets()
    k = max(1, len(bf) // 2)
    dfac = np.sort(rng.choice(bf, k, replace=False))
    return dfac, np.setdiff1d(bf, dfac)


def patch_scalar(label, m, elabel, e, deg, rng, reaction, fails):
    import skfem as fem
    from skfem.helpers import dot, grad
    from skfem.models.poisson import laplace, mass
    d = m.p.shape[0]
    kind = geom.kind_of(m)
    u = MPoly.random(d, deg, rng)
    du = [u.diff(i) for i in range(d)]
    lap = None
    for i in range(d):
        lap = du[i].diff(i) if lap is None else lap + du[i].diff(i)
    basis = fem.CellBasis(m, e)
    A = laplace.assemble(basis)
    if reaction:
        A = A + reaction * mass.assemble(basis)
    b = fem.LinearForm(lambda v, w: (-lap(w.x) + reaction * u(w.x)) * v).assemble(basis)
    if kind == "wedge":
        D = basis.get_dofs()
        x = basis.zeros()
        x[D.flatten()] = u(basis.doflocs[:, D.flatten()])
        what = "all-Dirichlet (nodal values)"
    else:
        dfac, nfac = split_boundary(m, rng)
        if len(nfac):
            # the Neumann part is handed over as a LIST of two overlapping facet sets: it denotes their union
            nsel = [nfac[: max(1, 2 * len(nfac) // 3)], nfac[len(nfac) // 3:]] if len(nfac) >= 3 else nfac
            fbn = fem.FacetBasis(m, e, facets=nsel)
            b = b + fem.LinearForm(lambda v, w: sum(du[i](w.x) * w.n[i] for i in range(d)) * v).assemble(fbn)
        fbd = fem.FacetBasis(m, e, facets=dfac)
        x = fbd.project(lambda xx: u(xx))
        D = basis.get_dofs(dfac)
        what = "Dirichlet facets %s, Neumann facets %s" % (dfac.tolist()[:8], nfac.tolist()[:8])
    xh = fem.solve(*fem.condense(A, b, x=x, D=D))
    hi = fem.CellBasis(m, e, intorder=min(2 * max(e.maxdeg, deg) + 2, 8 if geom.kind_of(m) == 'tet' else 99))
    err = l2err(hi, xh, u)
    if not err < TOL:
        fails.append("PATCH-%s: degree-%d solution %s, %s: relative L2 error %.3e" % ("REACTION-DIFFUSION" if reaction else "POISSON", deg, u.c, what, err))
    return xh, u


def patch_elasticity(label, m, elabel, e, deg, rng, fails):
    import skfem as fem
    from skfem.models.elasticity import lame_parameters, linear_elasticity
    d = m.p.shape[0]
    if d == 1 or geom.kind_of(m) == "wedge":
        return
    lam, mu = lame_parameters(3., .3)
    ev = fem.ElementVector(e)
    basis = fem.CellBasis(m, ev)
    u = [MPoly.random(d, deg, rng) for _ in range(d)]
    G = [[u[i].diff(j) for j in range(d)] for i in range(d)]              # du_i/dx_j
    div = None
    for i in range(d):
        div = G[i][i] if div is None else div + G[i][i]

    def sig(i, j):
        s = (G[i][j] + G[j][i]).scale(mu)
        return s + div.scale(lam) if i == j else s
    f = []
    for i in range(d):
        acc = None
        for j in range(d):
            t = sig(i, j).diff(j).scale(-1.)
            acc = t if acc is None else acc + t
        f.append(acc)
    A = linear_elasticity(lam, mu).assemble(basis)
    b = fem.LinearForm(lambda v, w: sum(f[i](w.x) * v[i] for i in range(d))).assemble(basis)
    dfac, nfac = split_boundary(m, rng)
    if len(nfac):
        fbn = fem.FacetBasis(m, ev, facets=nfac)
        b = b + fem.LinearForm(lambda v, w: sum(sig(i, j)(w.x) * w.n[j] * v[i] for i in range(d) for j in range(d))).assemble(fbn)
    fbd = fem.FacetBasis(m, ev, facets=dfac)
    x = fbd.project(lambda xx: np.array([u[i](xx) for i in range(d)]))
    D = basis.get_dofs(dfac)
    xh = fem.solve(*fem.condense(A, b, x=x, D=D))
    hi = fem.CellBasis(m, ev, intorder=min(2 * max(e.maxdeg, deg) + 2, 8 if geom.kind_of(m) == 'tet' else 99))
    uh = hi.interpolate(xh)
    num = fem.Functional(lambda w: sum((w["uh"][i] - u[i](w.x)) ** 2 for i in range(d))).assemble(hi, uh=uh)
    den = fem.Functional(lambda w: sum(u[i](w.x) ** 2 for i in range(d)) + 1.).assemble(hi)
    err = float(np.sqrt(abs(num) / den))
    if not err < TOL:
        fails.append("PATCH-ELASTICITY: degree-%d displacement, Dirichlet facets %s: relative L2 error %.3e" % (deg, dfac.tolist()[:8], err))


def projection_identity(label, m, elabel, e, rng, fails, curved=False):
    """project(interpolate(y)) == y on the whole mesh, a cell subset and boundary parts"""
    import skfem as fem
    basis = fem.CellBasis(m, e)
    y = rng.uniform(-1, 1, basis.N)
    z = basis.project(basis.interpolate(y))
    if not np.allclose(z, y, atol=1e-8 * max(1, np.abs(y).max())):
        fails.append("PROJECT: project(interpolate(y)) differs from y by %.3e on the whole mesh" % np.abs(z - y).max())
    nt = m.t.shape[1]
    if nt > 1:
        sub = np.sort(rng.choice(nt, max(1, nt // 2), replace=False))
        z = basis.project(basis.interpolate(y), elements=sub)
        I = basis.get_dofs(elements=sub).flatten()
        if not np.allclose(z[I], y[I], atol=1e-8):
            fails.append("PROJECT-SUBDOMAIN: project(.., elements=%s) differs from y on the subdomain's DOFs by %.3e" % (sub.tolist()[:8], np.abs(z[I] - y[I]).max()))
        out = np.setdiff1d(np.arange(basis.N), I)
        if len(out) and np.abs(z[out]).max() > 0:
            fails.append("PROJECT-SUBDOMAIN: DOFs outside the subdomain are not zero")
        z = basis.project(basis.interpolate(y))
        if not np.allclose(z, y, atol=1e-8 * max(1, np.abs(y).max())):
            fails.append("PROJECT-HISTORY: the whole-mesh projection with the SAME basis object after project(.., elements=..) differs from y by %.3e" % np.nanmax(np.abs(z - y)))
        bs = fem.CellBasis(m, e, elements=sub)
        z2 = bs.project(bs.interpolate(y))
        if not np.allclose(z2[I], y[I], atol=1e-8):
            fails.append("PROJECT-SUBDOMAIN: CellBasis(elements=..).project differs from y by %.3e" % np.abs(z2[I] - y[I]).max())
    if geom.kind_of(m) == "wedge" or e.nodal_dofs == 0:
        return
    bf = m.boundary_facets()
    parts = [bf, np.sort(rng.choice(bf, max(1, len(bf) // 3), replace=False))]
    for part in parts:
        fb = fem.FacetBasis(m, e, facets=part)
        I = basis.get_dofs(part)
        # only DOFs whose basis functions have a non-zero trace are determined by the boundary datum
        M = fem.BilinearForm(lambda u, v, w: u * v).assemble(fb)
        ix = I.flatten()
        keep = ix[np.abs(M.diagonal()[ix]) > 1e-14]
        z = fb.project(fb.interpolate(y), facets=part) if part is not bf else fb.project(fb.interpolate(y))
        if not np.allclose(z[keep], y[keep], atol=1e-7):
            fails.append("PROJECT-BOUNDARY: FacetBasis.project on facets %s differs from y on the boundary DOFs by %.3e" % (part.tolist()[:8], np.abs(z[keep] - y[keep]).max()))
        if part is not bf:
            fball = fem.FacetBasis(m, e)
            z = fball.project(fball.interpolate(y), facets=part)
            if not np.allclose(z[keep], y[keep], atol=1e-7):
                fails.append("PROJECT-BOUNDARY: whole-boundary FacetBasis.project(.., facets=%s) differs from y on that part's DOFs by %.3e" % (part.tolist()[:8], np.abs(z[keep] - y[keep]).max()))


def run_case(label, m, affine, tier, seed, only_el=None):
    import zlib
    rng = np.random.RandomState((zlib.crc32(label.encode()) + seed) % 2 ** 31)
    out, cases = [], 0
    for elabel, e in elements_for(m):
        if only_el and elabel != only_el:
            continue
        fails = []
        deg = DEGREE[elabel] if affine else 1
        try:
            with warnings.catch_warnings():
                warnings.simplefilter("ignore")
                patch_scalar(label, m, elabel, e, deg, rng, 0., fails)
                patch_scalar(label, m, elabel, e, deg, rng, 2.5, fails)
                if "G" != elabel[-1] and "Pp" not in elabel and "QuadP" not in elabel:
                    patch_elasticity(label, m, elabel, e, deg, rng, fails)
                projection_identity(label, m, elabel, e, rng, fails)
        except Exception as ex:
            import traceback
            fails.append("exception %s: %s | %s" % (type(ex).__name__, ex, traceback.format_exc()[-500:]))
        cases += 1
        for f in fails[:3]:
            out.append(dict(input="%s on %s" % (elabel, label), observed=f, replay=dict(kind="galerkin_case", mesh=label, element=elabel, seed=seed, tier=tier)))
    return cases, out


def all_cases(tier, seed):
    rng = np.random.RandomState(900 + seed)
    for label, m, affine in meshes(tier, rng):
        yield label, m, affine
        for v in range(1 if tier == "quick" else 3):
            yield "%s~r%d" % (label, v), Z.renumbered(m, rng)[0], affine


def _task(args):
    label, tier, seed, only_el = args
    import logging
    logging.disable(logging.WARNING)
    if label.startswith("curved/"):
        import zlib
        m = dict(curved(tier))[label[7:]]
        rng = np.random.RandomState((zlib.crc32(label.encode()) + seed) % 2 ** 31)
        out, cases = [], 0
        for elabel, e in elements_for(m):
            if only_el and elabel != only_el:
                continue
            if elabel.endswith("G"):
                continue
            fails = []
            try:
                with warnings.catch_warnings():
                    warnings.simplefilter("ignore")
                    projection_identity(label, m, elabel, e, rng, fails, curved=True)
            except Exception as ex:
                fails.append("exception %s: %s" % (type(ex).__name__, ex))
            cases += 1
            for f in fails[:3]:
                out.append(dict(input="%s on %s" % (elabel, label), observed=f, replay=dict(kind="galerkin_case", mesh=label, element=elabel, seed=seed, tier=tier)))
        return label, cases, out
    for l, m, affine in all_cases(tier, seed):
        if l == label:
            c, out = run_case(label, m, affine, tier, seed, only_el)
            return label, c, out
    return label, 0, []


def run(payload):
    import multiprocessing as mp
    tier, seed = payload.get("tier", "quick"), int(payload.get("seed", 0))
    labels = [l for l, _, _ in all_cases(tier, seed)] + ["curved/" + l for l, _ in curved(tier)]
    if payload.get("mesh"):
        labels = [l for l in labels if l == payload["mesh"]]
    tasks = [(l, tier, seed, payload.get("element")) for l in labels]
    if len(tasks) > 1:
        with mp.Pool(min(int(payload.get("jobs", 12)), len(tasks))) as pool:
            res = pool.map(_task, tasks, chunksize=1)
    else:
        res = [_task(t) for t in tasks]
    cases, fails = 0, []
    for l, c, out in res:
        cases += c
        fails.extend(out)
    return dict(cases=cases, failures=fails[:30], samples=labels[:4],
                bound="%d meshes (graded line, Delaunay / L-shaped / adaptively refined triangles, sheared / box / convex quadrilaterals, Delaunay / sheared "
                      "tetrahedra, sheared / box / frustum hexahedra, sheared prisms; each also renumbered with admissible local rotations; curved P2/Q2 meshes for "
                      "the projection identity) x every polynomial-complete element of the cell type with a random polynomial of its degree (degree one on "
                      "non-affine cells): Poisson and reaction-diffusion with a random Dirichlet/Neumann facet split (natural data through w.n), linear elasticity "
                      "with traction data, projection identity on the mesh / a cell subset / boundary parts; tolerance %.0e relative L2" % (len(labels), TOL))


def replay_galerkin_case(sp):
    r = run(dict(mesh=sp["mesh"], element=sp["element"], seed=sp.get("seed", 0), tier=sp.get("tier", "quick")))
    return dict(confirmed=bool(r["failures"]), observed=[f["observed"] for f in r["failures"]][:3], input=[f["input"] for f in r["failures"]][:3])


def replay_galerkin(sp):
    r = run(dict(seed=0, tier="quick"))
    return dict(confirmed=bool(r["failures"]) if r["failures"] else None, observed=[f["observed"] for f in r["failures"]][:3], input=[f["input"] for f in r["failures"]][:3])


if __name__ == "__main__":
    print("\n@@JSON@@" + json.dumps(run(json.load(sys.stdin)), default=str))
