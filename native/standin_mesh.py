"""Bounded stand-ins on the real mesh classes over the mesh zoo (run under /venv).
payload: {what: connectivity|..., tier, seed}"""
import itertools
import json
import sys

import numpy as np

from native import zoo as Z


def fs(a):
    return frozenset(int(x) for x in np.asarray(a).ravel())


def facet_cycles(m):
    """cyclically consecutive vertex pairs of each facet (3-D), as sets of frozensets."""
    F = m.facets
    n = F.shape[0]
    out = []
    for f in range(F.shape[1]):
        vs = list(dict.fromkeys(int(v) for v in F[:, f]))     # wedge pads a repeated vertex
        out.append({frozenset((vs[i], vs[(i + 1) % len(vs)])) for i in range(len(vs))})
    return out


def check_connectivity(label, m):
    fails = []
    rd = m.elem.refdom
    t = m.t
    nt = t.shape[1]

    def bad(msg):
        fails.append(msg)

    # ENT facets / edges
    for name, ents, conn, slots in (("facets", m.facets, m.t2f, rd.facets), ("edges", m.edges if m.dim() == 3 else None, m.t2e if m.dim() == 3 else None, rd.edges)):
        if ents is None:
            continue
        sets = [fs(ents[:, e]) for e in range(ents.shape[1])]
        if len(set(sets)) != len(sets):
            bad("%s: an entity appears twice" % name)
        if conn.shape != (len(slots), nt):
            bad("%s: connectivity table shape %s" % (name, conn.shape))
            continue
        if conn.min() < 0 or conn.max() >= ents.shape[1]:
            bad("%s: connectivity entries out of range" % name)
            continue
        for s, k in itertools.product(range(len(slots)), range(nt)):
            if sets[conn[s, k]] != fs(t[slots[s], k]):
                bad("%s: cell %d slot %d names entity %d = %s but its local vertices are %s" % (name, k, s, conn[s, k], sorted(sets[conn[s, k]]), sorted(fs(t[slots[s], k]))))
                break
        if set(conn.ravel().tolist()) != set(range(ents.shape[1])):
            bad("%s: an entity is referenced by no cell" % name)
    # INV
    f2t = m.f2t
    nf = m.facets.shape[1]
    owners = [[] for _ in range(nf)]
    for s, k in itertools.product(range(m.t2f.shape[0]), range(nt)):
        owners[m.t2f[s, k]].append(k)
    for f in range(nf):
        got = [int(c) for c in f2t[:, f] if c != -1]
        if sorted(set(owners[f])) != sorted(got) or (len(set(owners[f])) == 1) != (f2t[1, f] == -1) or f2t[0, f] == -1:
            bad("f2t[:, %d] = %s but the facet lies in cells %s" % (f, f2t[:, f].tolist(), sorted(set(owners[f]))))
            break
    # boundary sets
    bf = set(f for f in range(nf) if len(set(owners[f])) == 1)
    if m.boundary_facets().tolist() != sorted(bf):
        bad("boundary_facets() = %s, facets with a single neighbour = %s" % (m.boundary_facets().tolist()[:8], sorted(bf)[:8]))
    bn = set(int(v) for f in bf for v in m.facets[:, f])
    if m.boundary_nodes().tolist() != sorted(bn):
        bad("boundary_nodes() differs from the vertices of single-neighbour facets")
    if m.interior_nodes().tolist() != sorted(set(range(m.p.shape[1])) - bn):
        bad("interior_nodes() is not the complement of boundary_nodes()")
    if m.dim() == 3:
        # oracle from the reference cell: the edges of facet slot s are the cell's local edges with both local end points in the slot
        epairs = [fs(m.edges[:, e]) for e in range(m.edges.shape[1])]
        bpairs = set()
        for s, k in itertools.product(range(m.t2f.shape[0]), range(nt)):
            if m.t2f[s, k] in bf:
                loc = set(rd.facets[s])
                for (a, b) in rd.edges:
                    if a in loc and b in loc:
                        bpairs.add(frozenset((int(t[a, k]), int(t[b, k]))))
        want = sorted(e for e in range(len(epairs)) if epairs[e] in bpairs)
        got = sorted(int(e) for e in m.boundary_edges())
        if got != want:
            bad("boundary_edges(): got %s..., edges contained in single-neighbour facets %s..." % (got[:6], want[:6]))
        if hasattr(m, "interior_edges"):
            gi = sorted(int(e) for e in m.interior_edges())
            if gi != sorted(set(range(len(epairs))) - set(want)):
                bad("interior_edges() is not the complement of the boundary edges")
        # f2e
        bslots = m.bndelem.refdom.facets if m.bndelem is not None else None
        if bslots is not None and type(m).__name__.startswith(("MeshTet", "MeshHex")):
            f2e = m.f2e
            for s, f in itertools.product(range(f2e.shape[0]), range(nf)):
                if epairs[f2e[s, f]] != fs(m.facets[bslots[s], f]):
                    bad("f2e[%d,%d] = edge %s but the facet's local edge is %s" % (s, f, sorted(epairs[f2e[s, f]]), sorted(fs(m.facets[bslots[s], f]))))
                    break
    # incidence matrices
    for nm, mat, ents in (("p2f", m.p2f, m.facets), ("p2t", m.p2t, m.t), ("p2e", m.p2e if m.dim() == 3 else None, m.edges if m.dim() == 3 else None)):
        if mat is None:
            continue
        A = mat.toarray()
        want = np.zeros((ents.shape[1], m.nvertices), dtype=int)
        for r in range(ents.shape[0]):
            for e in range(ents.shape[1]):
                want[e, ents[r, e]] += 1
        if A.shape != want.shape or not np.array_equal(A, want):
            bad("%s is not the vertex incidence matrix of its entities" % nm)
    if m.dim() == 3:
        E = m.e2t.toarray()
        want = np.zeros_like(E)
        for k in range(nt):
            cs = fs(t[:, k])
            for e in range(m.edges.shape[1]):
                want[k, e] = int(fs(m.edges[:, e]) <= cs)
        if not np.array_equal((E != 0).astype(int), want):
            bad("e2t does not mark exactly the edges whose end points are vertices of the cell")
    # facets_around on a few cell subsets
    rng = np.random.RandomState(7)
    for trial in range(3):
        K = np.nonzero(rng.rand(nt) < .5)[0]
        if len(K) == 0:
            K = np.array([0])
        ob = m.facets_around(K)
        want = sorted(f for f in range(nf) if sum(1 for c in set(owners[f]) if c in set(K.tolist())) == 1)
        if sorted(int(f) for f in ob) != want:
            bad("facets_around(%s): got %s want %s" % (K.tolist(), sorted(int(f) for f in ob)[:8], want[:8]))
            break
        for f, o in zip(np.asarray(ob), ob.ori):
            if int(f2t[o, f]) not in set(K.tolist()):
                bad("facets_around(%s): orientation of facet %d does not point at the inside cell" % (K.tolist(), f))
                break
        obf = m.facets_around(K, flip=True)
        for f, o in zip(np.asarray(obf), obf.ori):
            if int(f2t[o, f]) in set(K.tolist()):
                bad("facets_around(%s, flip=True): orientation of facet %d must name the outside neighbour" % (K.tolist(), f))
                break
    return fails


def elements_for(m):
    """wrapper combinations chosen by hand + EVERY exported element living on the mesh's reference cell (read from the working tree's export list)"""
    base = _elements_by_hand(m)
    from contracts import catalog
    have = {type(e).__name__ for e in base}
    rd = m.elem.refdom.__name__
    for label, cls, args in catalog.reference_elements() + catalog.global_elements():
        try:
            e = cls(*args)
        except Exception:
            continue
        if getattr(e, "refdom", None) is not None and e.refdom.__name__ == rd and cls.__name__ not in have:
            have.add(cls.__name__)
            base.append(e)
    return base


def _elements_by_hand(m):
    import skfem as fem
    n = type(m).__name__
    if n.startswith("MeshLine"):
        return [fem.ElementLineP1(), fem.ElementLineP2(), fem.ElementLineMini(), fem.ElementLinePp(3), fem.ElementLineHermite(), fem.ElementVector(fem.ElementLineP2(), 2)]
    if n.startswith("MeshTri"):
        return [fem.ElementTriP1(), fem.ElementTriP2(), fem.ElementTriP3(), fem.ElementTriRT1(), fem.ElementTriMini(), fem.ElementTriCR(),
                fem.ElementVector(fem.ElementTriP2()), fem.ElementTriP2() * fem.ElementTriP1(), fem.ElementDG(fem.ElementTriP1()), fem.ElementTriMorley(),
                fem.ElementTriN2(), fem.ElementTriP0(), fem.ElementVector(fem.ElementTriP2(), 1), fem.ElementVector(fem.ElementTriP1(), 3)]
    if n.startswith("MeshQuad"):
        return [fem.ElementQuad1(), fem.ElementQuad2(), fem.ElementQuadS2(), fem.ElementQuadRT1(), fem.ElementQuadP(3), fem.ElementVector(fem.ElementQuad1()),
                fem.ElementQuad2() * fem.ElementQuad0()]
    if n.startswith("MeshTet"):
        return [fem.ElementTetP1(), fem.ElementTetP2(), fem.ElementTetRT1(), fem.ElementTetN1(), fem.ElementTetMini(), fem.ElementTetCCR(),
                fem.ElementVector(fem.ElementTetP2()) * fem.ElementTetP0(), fem.ElementTetN1() * fem.ElementTetP1(), fem.ElementTetN1() * fem.ElementTetRT1(), fem.ElementVector(fem.ElementTetP2(), 2)]
    if n.startswith("MeshHex"):
        return [fem.ElementHex1(), fem.ElementHex2(), fem.ElementHexS2(), fem.ElementHexRT1(), fem.ElementHexS2() * fem.ElementHex0()]
    if n.startswith("MeshWedge"):
        return [fem.ElementWedge1()]
    return []


def cells_with(m):
    """for every vertex / edge / facet: the set of cells containing it (from the cell list alone)."""
    rd = m.elem.refdom
    t = m.t
    nt = t.shape[1]
    vc, ec, fc = {}, {}, {}
    for k in range(nt):
        for v in t[:, k]:
            vc.setdefault(int(v), set()).add(k)
        for e in (rd.edges or []) if m.dim() == 3 else []:
            ec.setdefault(fs(t[list(e), k]), set()).add(k)
        for f in rd.facets:
            fc.setdefault(fs(t[list(f), k]), set()).add(k)
    return vc, ec, fc


def check_dofs(label, m, accept=None):
    import skfem as fem
    fails = []
    vc, ec, fc = cells_with(m)
    nt = m.t.shape[1]
    for e in elements_for(m):
        if accept is not None and not accept(e):
            continue
        name = type(e).__name__ + ("(%s)" % ",".join(type(x).__name__ for x in e.elems) if hasattr(e, "elems") else "")
        try:
            basis = fem.CellBasis(m, e)
        except Exception as ex:
            fails.append("%s: Basis raised %s: %s" % (name, type(ex).__name__, ex))
            continue
        d = basis.dofs
        ed = d.element_dofs
        N = basis.N
        used = np.unique(ed)
        if used.tolist() != list(range(N)) or d.N != N:
            fails.append("%s: numbers used are not exactly 0..N-1 (N=%d, %d used, max %d)" % (name, N, len(used), int(used.max())))
            continue
        counts = e._bfun_counts()
        if ed.shape != (int(counts.sum()), nt) or basis.Nbfun != ed.shape[0]:
            fails.append("%s: element_dofs shape %s vs counts %s" % (name, ed.shape, counts.tolist()))
            continue
        owner = {}
        for k in range(nt):
            for g in ed[:, k]:
                owner.setdefault(int(g), set()).add(k)
        # expected sharing from the tables
        exp = {}
        for r in range(d.nodal_dofs.shape[0]):
            for v in range(d.nodal_dofs.shape[1]):
                exp[int(d.nodal_dofs[r, v])] = vc.get(v, set())
        if m.dim() == 3 and d.edge_dofs.size:
            for r in range(d.edge_dofs.shape[0]):
                for q in range(d.edge_dofs.shape[1]):
                    exp[int(d.edge_dofs[r, q])] = ec[fs(m.edges[:, q])]
        if d.facet_dofs.size and m.dim() >= 2:
            for r in range(d.facet_dofs.shape[0]):
                for q in range(d.facet_dofs.shape[1]):
                    exp[int(d.facet_dofs[r, q])] = fc[fs(m.facets[:, q])]
        for r in range(d.interior_dofs.shape[0]):
            for k in range(nt):
                exp[int(d.interior_dofs[r, k])] = {k}
        if m.dim() == 1 and d.facet_dofs.size:
            pass
        if len(exp) != N:
            fails.append("%s: the per-entity tables name %d distinct numbers, N = %d (tables overlap or leave gaps)" % (name, len(exp), N))
            continue
        badg = [g for g in range(N) if owner.get(g) != exp.get(g)]
        if badg:
            g = badg[0]
            fails.append("%s: DOF %d is referenced by cells %s but its entity lies in cells %s" % (name, g, sorted(owner.get(g, [])), sorted(exp.get(g, []))))
            continue
        # DOF locations: single valued and equal to the mapped reference locations
        if hasattr(basis, "doflocs") and hasattr(e, "doflocs"):
            X = np.asarray(e.doflocs, dtype=float)
            ok_rows = [j for j in range(min(X.shape[0], ed.shape[0])) if not np.isnan(X[j]).any()]
            if ok_rows:
                F = basis.mapping.F(X[ok_rows].T)
                for jj, j in enumerate(ok_rows):
                    loc = basis.doflocs[:, ed[j]]
                    if not np.allclose(loc, F[:, :, jj], atol=1e-12):
                        fails.append("%s: doflocs of local DOF %d disagree with the mapped reference location" % (name, j))
                        break
        # shape + locality of an assembled matrix
        try:
            A = fem.BilinearForm(lambda *a: 1.0 + 0 * a[-1].x[0], nargs=None).assemble(basis) if False else fem.BilinearForm(lambda *a: 1.0 + 0 * a[-1].x[0]).assemble(basis)
            if A.shape != (N, N):
                fails.append("%s: matrix shape %s, N = %d" % (name, A.shape, N))
            else:
                A = A.tocoo()
                for i, j in zip(A.row, A.col):
                    if not (owner[int(i)] & owner[int(j)]):
                        fails.append("%s: matrix entry (%d,%d) couples DOFs that share no cell" % (name, i, j))
                        break
        except Exception as ex:
            fails.append("%s: assembly raised %s: %s" % (name, type(ex).__name__, ex))
    if accept is None:
        # COMPOSITE numbering: the flat CompositeBasis of two / three / four bases numbers block k after all DOFs of the blocks before it, gap-free
        try:
            from skfem.assembly.basis.composite_basis import CompositeBasis
            es = [e for e in elements_for(m) if not hasattr(e, "elems") and not type(e).__name__.startswith("ElementVector")][:4]
            for n in (2, 3, 4):
                if not es:
                    break
                pick = [es[k % len(es)] for k in range(n)]
                bs = [fem.CellBasis(m, e, intorder=2) for e in pick]
                cb = CompositeBasis(*bs)
                offs = np.cumsum([0] + [b.N for b in bs])
                want = np.vstack([b.element_dofs + o for b, o in zip(bs, offs)])
                ed = cb.element_dofs
                if cb.N != offs[-1] or ed.shape != want.shape or not np.array_equal(ed, want) or np.unique(ed).tolist() != list(range(int(offs[-1]))):
                    fails.append("CompositeBasis(%s): element_dofs are not the blocks' numbers shifted by the sizes of all preceding blocks (N = %s, expected %d, %d distinct numbers)"
                                 % (", ".join(type(e).__name__ for e in pick), cb.N, offs[-1], len(np.unique(ed))))
                    break
        except Exception as ex:
            fails.append("CompositeBasis: raised %s: %s" % (type(ex).__name__, str(ex)[:120]))
    return fails


def check_large(label, m):
    """overflow probe: entity tables of a mesh with > 2**16 randomly numbered vertices against an int64 recomputation."""
    fails = []
    rd = m.elem.refdom
    t = m.t.astype(np.int64)
    for name, ents, conn, slots in (("facets", m.facets, m.t2f, rd.facets), ("edges", m.edges if m.dim() == 3 else None, m.t2e if m.dim() == 3 else None, rd.edges)):
        if ents is None:
            continue
        cols = np.sort(np.hstack([t[s] for s in slots]), axis=0)
        nv = int(t.max()) + 1
        key = np.zeros(cols.shape[1], dtype=object)
        key = sum(cols[r].astype(object) * (nv ** (cols.shape[0] - 1 - r)) for r in range(cols.shape[0]))
        uniq = set(key.tolist())
        if len(uniq) != ents.shape[1]:
            fails.append("%s: the cells have %d distinct entities but the table has %d columns" % (name, len(uniq), ents.shape[1]))
            continue
        got = np.sort(ents[:, conn.reshape(-1)].astype(np.int64), axis=0)
        if not np.array_equal(got, cols):
            fails.append("%s: connectivity table does not name the entity spanned by the local vertices" % name)
    return fails


def large_meshes(seed):
    import skfem as fem
    rng = np.random.RandomState(seed)
    out = []
    g = np.linspace(0, 1, 290)
    for label, m in (("tri-290x290", fem.MeshTri.init_tensor(g, g)), ("quad-290x290", fem.MeshQuad.init_tensor(g, g))):
        perm = rng.permutation(m.p.shape[1])
        p = np.empty_like(m.p)
        p[:, perm] = m.p
        out.append((label + "~random-numbering", type(m)(p, perm[m.t])))
    g3 = np.linspace(0, 1, 42)
    m = fem.MeshTet.init_tensor(g3, g3, g3)
    perm = rng.permutation(m.p.shape[1])
    p = np.empty_like(m.p)
    p[:, perm] = m.p
    out.append(("tet-42^3~random-numbering", fem.MeshTet(p, perm[m.t])))
    return out


def run_large(payload):
    cases, failures, samples = 0, [], []
    for label, m in large_meshes(int(payload.get("seed", 0))):
        cases += 1
        samples.append(dict(mesh=label, vertices=int(m.p.shape[1]), cells=int(m.t.shape[1])))
        for f in check_large(label, m):
            failures.append(dict(input=dict(mesh=label, vertices=int(m.p.shape[1])), observed=f, replay=dict(kind="mesh_large", seed=int(payload.get("seed", 0)))))
    return dict(cases=cases, failures=failures, samples=samples, nontrivial=cases,
                bound="3 meshes with 74088-84100 randomly numbered vertices (> 2**16): entity tables vs an arbitrary-precision recomputation")


def replay_mesh_large(sp):
    r = run_large(dict(seed=sp.get("seed", 0)))
    return dict(confirmed=bool(r["failures"]), observed=[f["observed"] for f in r["failures"]][:3], input=[f["input"] for f in r["failures"]][:3])


def _warm(m):
    """touch every cached table"""
    for a in ("facets", "t2f", "f2t", "edges", "t2e"):
        try:
            getattr(m, a)
        except Exception:
            pass
    m.boundary_facets()


def check_history(label, m, rng):
    """connectivity after mesh operations applied to a mesh whose tables are already cached: the ORIGINAL must stay coherent (and its cell list untouched), and
    the RESULT must be coherent with its own cell list"""
    import skfem as fem
    fails = []
    kind = type(m).__name__
    nt = m.t.shape[1]
    ops = [("with_boundaries", lambda q: q.with_boundaries({"b": q.boundary_facets()[:1]})),
           ("with_subdomains", lambda q: q.with_subdomains({"s": np.array([0])})),
           ("translated", lambda q: q.translated(tuple([.5] * q.p.shape[0]))),
           ("remove_unused_nodes", lambda q: q.remove_unused_nodes()),
           ("remove_duplicate_nodes", lambda q: q.remove_duplicate_nodes()),
           ("restrict", lambda q: q.restrict(np.arange(max(1, q.t.shape[1] // 2)))),
           ("remove_elements", lambda q: q.remove_elements(np.array([0])) if q.t.shape[1] > 1 else q),
           ("refined", lambda q: q.refined(1))]
    if kind.startswith(("MeshTri1", "MeshTet1")):
        ops.append(("oriented", lambda q: q.oriented()))
    if kind.startswith("MeshTri1"):
        ops.append(("refined-adaptive", lambda q: q.refined(np.array([0]))))
    variants = [("as built", m)]
    if nt > 2 and not kind.startswith("MeshWedge"):
        # a mesh with unused vertices in front of / between used ones
        sub = np.sort(rng.choice(nt, max(1, nt // 2), replace=False))
        try:
            variants.append(("cell subset with unused vertices", type(m)(m.p, m.t[:, sub])))
        except Exception:
            pass
    for vname, m0 in variants:
        for oname, op in ops:
            try:
                if oname == "oriented":
                    tf = m0.t.copy()
                    tf[:2, ::2] = tf[:2, ::2][::-1]                       # every other cell negatively oriented, so that oriented() has work to do
                    q = type(m0)(m0.p.copy(), tf, sort_t=False)
                else:
                    q = type(m0)(m0.p.copy(), m0.t.copy())
            except Exception:
                continue
            _warm(q)
            t_before = q.t.copy()
            try:
                r = op(q)
            except NotImplementedError:
                continue
            except Exception as e:
                if oname in ("remove_duplicate_nodes",):
                    continue
                fails.append("%s (%s): raised %s: %s" % (oname, vname, type(e).__name__, str(e)[:100]))
                continue
            if not np.array_equal(q.t, t_before):
                fails.append("%s (%s): the cell list of the mesh it was called on changed" % (oname, vname))
            for who, mm in (("original after " + oname, q), ("result of " + oname, r)):
                if who.startswith("result") and vname != "as built" and oname in ("with_boundaries", "with_subdomains", "translated", "refined", "restrict", "remove_elements", "oriented", "refined-adaptive"):
                    pass
                try:
                    fl = check_connectivity(label, mm)
                except Exception as e:
                    fl = ["exception %s: %s" % (type(e).__name__, str(e)[:120])]
                for f in fl[:1]:
                    fails.append("%s (%s): %s" % (who, vname, f))
    return fails


def run_periodic(payload):
    """periodic (DG-topology) tensor meshes, every subset of periodic directions: the numbering is gap-free and has exactly the expected size; Q2/P2 likewise"""
    import itertools
    import skfem as fem
    from skfem.mesh import MeshLine1DG, MeshTri1DG, MeshQuad1DG, MeshHex1DG
    cases, failures = 0, []
    for cls, d, E1, E2 in ((MeshLine1DG, 1, fem.ElementLineP1, fem.ElementLineP2), (MeshTri1DG, 2, fem.ElementTriP1, fem.ElementTriP2),
                           (MeshQuad1DG, 2, fem.ElementQuad1, fem.ElementQuad2), (MeshHex1DG, 3, fem.ElementHex1, fem.ElementHex2)):
        for r in range(0, d + 1):
            for per in itertools.combinations(range(d), r):
                cases += 1
                grids = [np.linspace(0, 1, 4 + i) for i in range(d)]
                label = "%s.init_tensor(periodic=%s)" % (cls.__name__, list(per))
                try:
                    m = cls.init_tensor(*grids, periodic=list(per))
                    exp = int(np.prod([(len(g) - 1) if i in per else len(g) for i, g in enumerate(grids)]))
                    for E in (E1, E2):
                        b = fem.CellBasis(m, E())
                        used = np.unique(b.element_dofs)
                        if not np.array_equal(used, np.arange(b.N)):
                            failures.append(dict(input=label, observed="%s: %d of the numbers 0..N-1 = %d are used by no cell (gap in the numbering)" % (E.__name__, b.N - len(used), b.N - 1)))
                        if E is E1 and b.N != exp:
                            failures.append(dict(input=label, observed="%s: N = %d, the periodic grid has %d distinct vertices" % (E.__name__, b.N, exp)))
                        A = fem.BilinearForm(lambda u, v, w: u * v).assemble(b)
                        if A.shape != (b.N, b.N) or (abs(A).sum(axis=1) == 0).any():
                            failures.append(dict(input=label, observed="%s: mass matrix has shape %s / structurally empty rows" % (E.__name__, A.shape)))
                except Exception as ex:
                    failures.append(dict(input=label, observed="raised %s: %s" % (type(ex).__name__, str(ex)[:120])))
    for f in failures:
        f["replay"] = dict(kind="mesh_case", what="periodic", only=None, seed=0, tier="quick")
    return dict(cases=cases, failures=failures[:20], samples=["MeshHex1DG.init_tensor(periodic=[0, 1, 2])"], nontrivial=cases,
                bound="periodic tensor meshes of segments, triangles, quadrilaterals, hexahedra (4-6 points per direction) for EVERY subset of periodic directions x {P1/Q1, P2/Q2}")


def derived_for_dofs(m, rng):
    """meshes produced by library operations from a mesh whose connectivity caches are warm (simplices: with half of the cells negatively oriented)"""
    kind = type(m).__name__
    t = m.t.copy()
    tf = t.copy()
    if kind.startswith(("MeshTri1", "MeshTet1")):
        flip = rng.rand(t.shape[1]) < .5
        flip[0] = True
        tf[:2, flip] = tf[:2, flip][::-1]
    ops = [("restrict", lambda q: q.restrict(np.arange(max(1, q.t.shape[1] // 2)))), ("refined", lambda q: q.refined(1)),
           ("translated", lambda q: q.translated(tuple([.25] * q.p.shape[0]))), ("with_boundaries", lambda q: q.with_boundaries({"b": q.boundary_facets()[:1]}))]
    if kind.startswith(("MeshTri1", "MeshTet1")):
        ops.insert(0, ("oriented", lambda q: q.oriented()))
    for oname, op in ops:
        try:
            # oriented() is given unsorted cells, half of them negatively oriented (so that it has work to do); the other operations a regular mesh
            q = type(m)(m.p.copy(), tf.copy(), sort_t=False) if oname == "oriented" else type(m)(m.p.copy(), t.copy())
        except Exception:
            continue
        _warm(q)
        try:
            yield oname, op(q)
        except NotImplementedError:
            continue


def run_dofs_derived(payload):
    tier, seed = payload.get("tier", "quick"), int(payload.get("seed", 0))
    rng = np.random.RandomState(seed + 11)
    cases, failures, samples = 0, [], []
    for label, m in Z.zoo(tier, seed, variants=0):
        if payload.get("only") and label != payload["only"]:
            continue
        if m.t.shape[1] > 60:
            continue
        for oname, r in derived_for_dofs(m, rng):
            cases += 1
            try:
                # on the unsorted result of oriented() only elements with at most one DOF per edge / facet apply (several DOFs per entity need sorted cells)
                acc = (lambda e: getattr(e, "facet_dofs", 0) <= 1 and getattr(e, "edge_dofs", 0) <= 1 and not hasattr(e, "elems")) if oname == "oriented" else None
                fl = check_connectivity(label, r)[:1] + check_dofs(label, r, acc)
            except Exception as e:
                import traceback
                fl = ["exception %s: %s | %s" % (type(e).__name__, e, traceback.format_exc()[-300:])]
            if len(samples) < 3:
                samples.append("%s>%s" % (label, oname))
            for f in fl[:2]:
                failures.append(dict(input=dict(mesh=label, operation=oname + " of the mesh with warm connectivity caches"), observed=f,
                                     replay=dict(kind="mesh_case", what="dofs-derived", only=label, seed=seed, tier=tier)))
    return dict(cases=cases, failures=failures[:20], samples=samples, nontrivial=cases,
                bound="every base mesh of the zoo with at most 60 cells (simplices: half of the cells negatively oriented, unsorted), connectivity caches warm, then "
                      "{oriented, restrict, refined, translated, with_boundaries}: DOFS clauses on the result x element list")


def run(payload):
    what = payload.get("what", "connectivity")
    if what == "large":
        return run_large(payload)
    if what == "dofs-derived":
        return run_dofs_derived(payload)
    if what == "periodic":
        return run_periodic(payload)
    if what == "history":
        tier, seed = payload.get("tier", "quick"), int(payload.get("seed", 0))
        rng = np.random.RandomState(seed + 5)
        cases, failures, samples = 0, [], []
        for label, m in Z.zoo(tier, seed, variants=0):
            if payload.get("only") and label != payload["only"]:
                continue
            cases += 1
            try:
                fl = check_history(label, m, rng)
            except Exception as e:
                import traceback
                fl = ["exception %s: %s | %s" % (type(e).__name__, e, traceback.format_exc()[-300:])]
            if len(samples) < 3:
                samples.append(label)
            for f in fl[:4]:
                failures.append(dict(input=dict(mesh=label), observed=f, replay=dict(kind="mesh_case", what="history", only=label, seed=seed, tier=tier)))
        return dict(cases=cases, failures=failures[:20], samples=samples, nontrivial=cases,
                    bound="every base mesh of the zoo (and a cell subset with unused vertices) with warm connectivity caches x {with_boundaries, with_subdomains, translated, "
                          "remove_unused_nodes, remove_duplicate_nodes, restrict, remove_elements, refined, oriented, adaptive refinement}: original and result re-checked")
    tier, seed = payload.get("tier", "quick"), int(payload.get("seed", 0))
    only = payload.get("only")
    cases, failures, samples = 0, [], []
    fn = {"connectivity": check_connectivity, "dofs": check_dofs}[what]
    nb = {}
    for label, m in Z.zoo(tier, seed):
        if only and label != only:
            continue
        cases += 1
        try:
            fl = fn(label, m)
        except Exception as e:
            import traceback
            fl = ["exception %s: %s | %s" % (type(e).__name__, e, traceback.format_exc()[-300:])]
        if what == "connectivity":
            base = label.split("~")[0]
            nb.setdefault(base, set()).add((len(m.boundary_facets()), m.facets.shape[1], len(m.boundary_nodes())))
        if len(samples) < 3:
            samples.append(dict(mesh=label, cells=int(m.t.shape[1]), vertices=int(m.p.shape[1])))
        for f in fl[:3]:
            failures.append(dict(input=dict(mesh=label, p=m.p.tolist() if m.p.size < 80 else "see zoo", t=m.t.tolist() if m.t.size < 200 else "see zoo"),
                                 observed=f, replay=dict(kind="mesh_case", what=what, only=label, seed=seed, tier=tier)))
    for base, s in nb.items():
        if len(s) != 1:
            failures.append(dict(input=dict(mesh=base), observed="boundary/facet counts depend on the numbering: %s" % sorted(s)))
    return dict(cases=cases, failures=failures[:20], samples=samples, nontrivial=cases, bound=Z.describe(tier))


def replay_mesh_case(sp):
    r = run(dict(what=sp["what"], only=sp["only"], seed=sp.get("seed", 0), tier=sp.get("tier", "quick")))
    return dict(confirmed=bool(r["failures"]), observed=[f["observed"] for f in r["failures"]][:3], input=sp["only"])


def replay_ent(sp):
    r = run(dict(what="connectivity", seed=0, tier="quick"))
    f = [x for x in r["failures"]]
    return dict(confirmed=bool(f) if f else None, observed=[x["observed"] for x in f][:3], input=[x["input"]["mesh"] for x in f][:3],
                oracle="ENT/INV clauses evaluated on the real mesh classes over the mesh zoo")


if __name__ == "__main__":
    print("\n@@JSON@@" + json.dumps(run(json.load(sys.stdin)), default=str))
