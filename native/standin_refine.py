"""Bounded stand-ins for C12 (uniform) and C13 (adaptive refinement) on the real mesh classes (run under /venv).

Clauses (all evaluated with the independent geometric oracles of native/geom.py):
  COUNT      uniform: nt' == 2^(d k) nt                     adaptive: every marked cell is subdivided (it is no longer a cell)
  VALID      is_valid(): no duplicate vertices, every vertex used
  OLDVERTS   the original vertices keep index and position
  NONDEGEN   every new cell has positive measure
  PARTITION  every new cell lies inside exactly one old cell (all its vertices and its centroid), per parent the children's
             measures add up to the parent's, total measure preserved
  CONFORM    every facet has at most two neighbours and the single-neighbour facets are exactly the pieces of the old boundary
             (a hanging node produces an interior single-neighbour facet)
  SUBDOMAIN  a new cell is tagged iff its parent was tagged (same covered region)
  BOUNDARY   (segments, triangles, quadrilaterals) a new facet is tagged iff it lies on an old facet carrying that tag
  DROPPED    where propagation is unsupported the names are None and a warning is logged (never stale names)
  HISTORY    the clauses are re-checked after a second (uniform or adaptive) step applied to the result
"""
import itertools
import json
import logging
import sys

import numpy as np

from native import geom as G
from native import zoo as Z

BND_SUPPORTED = ("line", "tri", "quad")


class Capture(logging.Handler):
    def __init__(self):
        super().__init__()
        self.records = []

    def emit(self, r):
        self.records.append(r.getMessage())


def with_tags(m, rng):
    nt, nf = m.t.shape[1], m.facets.shape[1]
    sub = {}
    for name, frac in (("s1", .4), ("s2", .6)):
        ix = np.nonzero(rng.rand(nt) < frac)[0]
        if len(ix) == 0:
            ix = np.array([rng.randint(nt)])
        sub[name] = ix.astype(np.int32)
    bnd = {}
    bf = m.boundary_facets()
    bnd["b-part"] = bf[rng.rand(len(bf)) < .6] if len(bf) > 1 else bf
    if len(bnd["b-part"]) == 0:
        bnd["b-part"] = bf[:1]
    anyf = np.nonzero(rng.rand(nf) < .35)[0]
    bnd["mixed"] = (anyf if len(anyf) else np.array([0])).astype(np.int32)      # interior and boundary facets
    return m.with_subdomains(sub).with_boundaries(bnd)


def check_step(kd, old, new, marked, label, uniform_steps=None):
    """clauses for one refinement step old -> new (marked: None for uniform)."""
    fails = []
    d = old.p.shape[0]
    nto, ntn = old.t.shape[1], new.t.shape[1]
    if uniform_steps is not None and ntn != (2 ** (d * uniform_steps)) * nto:
        fails.append("COUNT: %d cells after %d uniform steps of a %d-cell mesh (expected %d)" % (ntn, uniform_steps, nto, 2 ** (d * uniform_steps) * nto))
    if type(new).__name__.endswith("2"):
        # second-order classes: is_valid() is False for EVERY such mesh (the mid-side nodes are points that no row of t refers to), so the clause is
        # evaluated directly: all point coordinates distinct, every vertex number of t in range
        P = np.round(new.doflocs.T, 12)
        if len(np.unique(P, axis=0)) != len(P) or new.t.max() >= new.doflocs.shape[1] or new.t.min() < 0:
            fails.append("VALID: refined second-order mesh has duplicate points or vertex numbers out of range")
    elif not new.is_valid():
        fails.append("VALID: refined mesh fails is_valid() (duplicate or unused vertices)")
    nvo = old.p.shape[1]
    if new.p.shape[1] < nvo or not np.array_equal(new.p[:, :nvo], old.p):
        fails.append("OLDVERTS: original vertices moved or were renumbered")
    oldP = [G.cell_points(old, k) for k in range(nto)]
    oldV = [G.volume(kd, P) for P in oldP]
    newP = [G.cell_points(new, k) for k in range(ntn)]
    newV = [G.volume(kd, P) for P in newP]
    scale = max(oldV)
    if min(newV) <= 1e-12 * scale:
        fails.append("NONDEGEN: a new cell has measure %.3e" % min(newV))
    parent = np.full(ntn, -1)
    acc = np.zeros(nto)
    for k, P in enumerate(newP):
        c = P.mean(0)
        cand = [j for j in G.parent_of(kd, oldP, c, 1e-9)]
        cand = [j for j in cand if all(G.contains(kd, oldP[j], v, 1e-8) for v in P)]
        if len(cand) != 1:
            fails.append("PARTITION: new cell %d lies in %d old cells" % (k, len(cand)))
            break
        parent[k] = cand[0]
        acc[cand[0]] += newV[k]
    else:
        if not np.allclose(acc, oldV, rtol=1e-10, atol=1e-14):
            j = int(np.argmax(np.abs(acc - np.array(oldV))))
            fails.append("PARTITION: children of old cell %d have total measure %.12g, the cell has %.12g" % (j, acc[j], oldV[j]))
    if marked is not None:
        oldsets = [frozenset(old.t[:, k].tolist()) for k in marked]
        newsets = set(frozenset(new.t[:, k].tolist()) for k in range(ntn))
        still = [int(k) for k, s in zip(marked, oldsets) if s in newsets]
        if still:
            fails.append("COUNT: marked cells %s were not subdivided" % still[:5])
    # CONFORM
    f2t = new.f2t
    cnt = np.zeros(new.facets.shape[1], dtype=int)
    for s in range(new.t2f.shape[0]):
        np.add.at(cnt, new.t2f[s], 1)
    if cnt.max() > 2:
        fails.append("CONFORM: a facet has %d neighbouring cells" % cnt.max())
    oldb = [G.facet_points(old, f) for f in old.boundary_facets()]
    single = np.nonzero(cnt == 1)[0]
    meas_new = 0.0
    for f in single:
        F = G.facet_points(new, f)
        mid = F.mean(0)
        meas_new += G.poly_area(F)
        if not any(G.on_facet(B, mid, 1e-8) and all(G.on_facet(B, v, 1e-8) for v in F) for B in oldb):
            fails.append("CONFORM: facet %d has a single neighbour but does not lie on the old boundary (hanging node / crack)" % f)
            break
    meas_old = sum(G.poly_area(B) for B in oldb)
    if abs(meas_new - meas_old) > 1e-9 * max(1.0, meas_old):
        fails.append("CONFORM: boundary measure changed from %.12g to %.12g" % (meas_old, meas_new))
    # SUBDOMAIN
    if old.subdomains is not None:
        if new.subdomains is None:
            fails.append("SUBDOMAIN: names were dropped")
        elif (parent >= 0).all():
            for name, ix in old.subdomains.items():
                if name not in new.subdomains:
                    fails.append("SUBDOMAIN: name %r missing" % name)
                    continue
                want = sorted(int(k) for k in range(ntn) if parent[k] in set(ix.tolist()))
                got = sorted(set(int(k) for k in new.subdomains[name]))
                if got != want:
                    fails.append("SUBDOMAIN %r: tagged children %s..., children of tagged parents %s..." % (name, got[:8], want[:8]))
    return fails, parent


def check_boundaries(kd, old, new, records, label):
    fails = []
    if old.boundaries is None:
        return fails
    if new.boundaries is None:
        if not any("oundar" in r for r in records):
            fails.append("DROPPED: named boundaries became None without a warning")
        return fails
    if kd not in BND_SUPPORTED:
        # names were kept although propagation is unsupported for this cell type: they must still be right
        pass
    for name, ix in old.boundaries.items():
        if name not in new.boundaries:
            fails.append("BOUNDARY: name %r missing" % name)
            continue
        oldF = [G.facet_points(old, f) for f in np.asarray(ix)]
        got = set(int(f) for f in np.asarray(new.boundaries[name]))
        want = set()
        for f in range(new.facets.shape[1]):
            F = G.facet_points(new, f)
            mid = F.mean(0)
            if any(G.on_facet(B, mid, 1e-8) and all(G.on_facet(B, v, 1e-8) for v in F) for B in oldF):
                want.add(f)
        if got != want:
            fails.append("BOUNDARY %r: tagged facets %s..., facets lying on the old tagged facets %s..." % (name, sorted(got)[:8], sorted(want)[:8]))
    return fails


def refine_logged(m, arg):
    import skfem.mesh.mesh as MM
    h = Capture()
    lg = logging.getLogger("skfem.mesh.mesh")
    lg.addHandler(h)
    old_level = lg.level
    lg.setLevel(logging.WARNING)
    try:
        import warnings
        with warnings.catch_warnings(record=True) as w:
            warnings.simplefilter("always")
            out = m.refined(arg)
        recs = h.records + [str(x.message) for x in w]
    finally:
        lg.removeHandler(h)
        lg.setLevel(old_level)
    return out, recs


def run(payload):
    what = payload.get("what", "uniform")
    tier, seed = payload.get("tier", "quick"), int(payload.get("seed", 0))
    only = payload.get("only")
    rng = np.random.RandomState(seed + (17 if what == "adaptive" else 0))
    cases, failures, samples = 0, [], []
    kinds = None if what == "uniform" else ("line", "tri", "tet")
    def family():
        if what == "uniform":
            # second-order classes with straight facets
            import skfem as fem
            yield "tri2-quadratic", fem.MeshTri2.from_mesh(fem.MeshTri.init_sqsymmetric())
            yield "quad2-quadratic", fem.MeshQuad2.from_mesh(fem.MeshQuad().refined(1))
        for label, m0 in Z.zoo(tier, seed, kinds=kinds, variants=1 if tier == "quick" else 3):
            yield label, m0
            if G.kind_of(m0) in ("tri", "tet") and "~" not in label and hasattr(m0, "oriented"):
                yield label + "~oriented", m0.oriented()              # sort_t=False, positive orientation
                if G.kind_of(m0) == "tri":
                    t = m0.t.copy()
                    for k in range(t.shape[1]):
                        t[:, k] = t[rng.permutation(3), k]
                    yield label + "~unsorted", type(m0)(m0.p.copy(), t, sort_t=False)   # caller switched the sorting off

    for label, m0 in family():
        kd = G.kind_of(m0)
        if kd == "wedge":
            continue
        big3d = kd in ("tet", "hex")
        m = with_tags(m0, rng)
        if what == "uniform":
            plans = [("k1", [1]), ("k2", [2])] if not (big3d and tier == "quick") else [("k1", [1])]
            if tier != "quick" and not big3d:
                plans.append(("k1+k1", [1, 1]))
        else:
            nt = m.t.shape[1]
            subsets = []
            if nt <= 6:
                for r in range(1, nt + 1):
                    subsets += [list(c) for c in itertools.combinations(range(nt), r)]
                if tier == "quick":
                    subsets = subsets[::3] + [subsets[-1]]
            else:
                for _ in range(4 if tier == "quick" else 12):
                    subsets.append(sorted(rng.choice(nt, size=rng.randint(1, max(2, nt // 2)), replace=False).tolist()))
            plans = [("marked=%s" % s, [np.array(s, dtype=np.int64)]) for s in subsets]
            # the marked set is a SET: any order of the index array (descending, shuffled) must give a correct refinement, too
            for s_ in [x for x in subsets if len(x) >= 2][:: max(1, len(subsets) // 6)][:8]:
                plans.append(("marked-descending=%s" % s_[::-1], [np.array(s_[::-1], dtype=np.int64)]))
                sh = list(np.array(s_)[rng.permutation(len(s_))])
                plans.append(("marked-shuffled=%s" % [int(v) for v in sh], [np.array(sh, dtype=np.int64)]))
            plans.append(("marked-then-uniform", [np.array(subsets[0], dtype=np.int64), 1]))
            if not big3d:
                plans.append(("marked-then-uniform-twice-in-one-call", [np.array(subsets[0], dtype=np.int64), 2]))
            plans.append(("marked-then-marked", [np.array(subsets[-1], dtype=np.int64), "again"]))
        for pname, steps in plans:
            clabel = "%s/%s/%s" % (what, label, pname)
            if only and only != clabel:
                continue
            cases += 1
            if len(samples) < 3:
                samples.append(clabel)
            cur = m
            fl = []
            try:
                for st in steps:
                    if isinstance(st, str):
                        ntc = cur.t.shape[1]
                        st = np.unique(rng.choice(ntc, size=max(1, ntc // 3), replace=False))
                    nxt, recs = refine_logged(cur, st)
                    if isinstance(st, (int, np.integer)):
                        f, _ = check_step(kd, cur, nxt, None, clabel, uniform_steps=int(st))
                    else:
                        f, _ = check_step(kd, cur, nxt, st, clabel)
                    fl += f
                    fl += check_boundaries(kd, cur, nxt, recs, clabel)
                    cur = nxt
            except Exception as e:
                import traceback
                fl.append("exception %s: %s | %s" % (type(e).__name__, e, traceback.format_exc()[-300:]))
            for f in fl[:3]:
                failures.append(dict(input=dict(case=clabel, cells=int(m.t.shape[1]), subdomains={k: v.tolist() for k, v in m.subdomains.items()},
                                                boundaries={k: np.asarray(v).tolist() for k, v in m.boundaries.items()}),
                                     observed=f, replay=dict(kind="refine_case", what=what, only=clabel, seed=seed, tier=tier)))
    bound = Z.describe(tier, 1 if tier == "quick" else 3) + "; simplicial base meshes also as .oriented() and (triangles) with random unsorted local order; random subdomain (2) and boundary (2, incl. interior facets) tags per mesh; "
    bound += ("uniform k=1,2 (3-D quick: k=1)" if what == "uniform" else
              "segments/triangles/tetrahedra; all (quick: every third) marked subsets for meshes with <= 6 cells, else 4/12 random subsets; plus two two-step histories")
    return dict(cases=cases, failures=failures[:20], samples=samples, bound=bound)


def replay_refine_case(sp):
    r = run(dict(what=sp["what"], only=sp["only"], seed=sp.get("seed", 0), tier=sp.get("tier", "quick")))
    return dict(confirmed=bool(r["failures"]), observed=[f["observed"] for f in r["failures"]][:3], input=sp["only"])


if __name__ == "__main__":
    print("\n@@JSON@@" + json.dumps(run(json.load(sys.stdin)), default=str))
