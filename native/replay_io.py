"""Replay for refuted codec obligations (C17): concrete round trips of oriented/plain tags on small meshes through the in-memory codec,
to_dict/json and npz, on the real code."""
import io
import itertools
import json

import numpy as np


def replay_io_codec(sp):
    import skfem as fem
    from skfem.generic_utils import OrientedBoundary
    bad = []
    for name, m in (("MeshTri", fem.MeshTri()), ("MeshQuad", fem.MeshQuad.init_tensor(np.array([0., .5, 1.]), np.array([0., 1.]))),
                    ("MeshTet", fem.MeshTet()), ("MeshLine", fem.MeshLine(np.array([0., .4, 1.])))):
        nf = m.facets.shape[1]
        interior = np.nonzero(m.f2t[1] != -1)[0]
        for sub in itertools.combinations(range(nf), 2):
            for flag in (0, 1):
                ori = np.array([flag if f in interior else 0 for f in sub])
                tag = OrientedBoundary(np.array(sub)[::-1], ori[::-1]) if ori.any() else np.array(sub)[::-1]
                mt = m.with_boundaries({"x": tag})
                want = {int(f): int(o) for f, o in zip(sub, ori)}
                for how in ("codec", "dict", "npz"):
                    if how == "codec":
                        got = mt._decode_cell_data(mt._encode_cell_data())[0]["x"]
                    elif how == "dict":
                        got = type(m).from_dict(json.loads(json.dumps(mt.to_dict()))).boundaries["x"]
                    else:
                        buf = io.BytesIO()
                        mt.save_npz(buf)
                        buf.seek(0)
                        got = type(m).load_npz(buf).boundaries["x"]
                    g = {int(f): int(o) for f, o in zip(np.asarray(got).tolist(), getattr(got, "ori", np.zeros(len(got), dtype=int)).tolist())}
                    if g != want:
                        bad.append(dict(mesh=name, facets=list(sub), flags=ori.tolist(), via=how, loaded=g))
    # tag names containing the formats' own key prefixes
    m = fem.MeshTri().refined(1)
    interior = np.nonzero(m.f2t[1] != -1)[0]
    for nb_i, nb_b, ns_s in (("no_slip", "sub_inlet", "glass_pane"), ("o_b_s_", "b_b_", "s_s_o_"), ("wall_o_", "tab_", "gas_")):
        tag = OrientedBoundary(interior[:2], np.ones(2, dtype=int))
        mt = m.with_boundaries({nb_i: tag, nb_b: m.boundary_facets()}).with_subdomains({ns_s: np.array([0])})
        for how in ("dict", "npz"):
            if how == "dict":
                mm = type(m).from_dict(json.loads(json.dumps(mt.to_dict())))
            else:
                buf = io.BytesIO()
                mt.save_npz(buf)
                buf.seek(0)
                mm = type(m).load_npz(buf)
            okn = sorted(mm.boundaries or {}) == sorted([nb_i, nb_b]) and sorted(mm.subdomains or {}) == [ns_s]
            oko = okn and getattr(mm.boundaries[nb_i], "ori", np.zeros(2)).tolist() == [1, 1]
            if not (okn and oko):
                bad.append(dict(mesh="MeshTri().refined(1)", names=[nb_i, nb_b, ns_s], via=how, loaded=dict(boundaries=sorted(mm.boundaries or {}), subdomains=sorted(mm.subdomains or {}),
                                                                                                       ori=getattr((mm.boundaries or {}).get(nb_i), "ori", None))))
    return dict(confirmed=bool(bad), observed=bad[:3], required="same tag names, same facets with the same orientation flags", input=[b["mesh"] for b in bad[:3]])
