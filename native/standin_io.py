"""Bounded stand-in for C17 (run under /venv): saving a mesh with its tags and loading it back gives the same mesh.
For every mesh of the family x tag set x format variant the original is exported and re-imported, and then
  CLASS   the loaded object has the class of the original;
  P       the node coordinates are the same (bijection of nodes through coordinates; exact for binary / npz / json);
  T       the cells, written in the original's node numbers, are the same set of cells (local order kept where the class keeps it);
  NAMES   subdomain / boundary tag names are the same;
  SUBS    every subdomain names the same set of cells;   FACETS  every named boundary names the same set of facets (as vertex sets);
  ORI     every (facet, flag) pair of a named boundary refers to the same neighbouring cell (an unoriented tag means flag 0);
  DATA    user point_data / cell_data handed to save() come back from load(out=...) unchanged (through the node / cell bijection);
  FRAME   exporting leaves doflocs, t and all tag arrays (incl. flags) of the original bit-identical.
The expectation is recomputed from the original mesh object alone; the file formats are external (meshio, numpy, json)."""
import contextlib
import io
import json
import os
import sys
import tempfile
from dataclasses import replace

import numpy as np

from native import zoo as Z

# name, kind, suffix, keyword arguments of Mesh.save, relative tolerance on floats (0 = exact; ascii: what the written digits allow), tiers
VARIANTS = [
    ("msh22", "meshio", ".msh", dict(file_format="gmsh22"), 0., "qt"),
    ("msh41", "meshio", ".msh", dict(file_format="gmsh"), 0., "qt"),
    ("vtk", "meshio", ".vtk", {}, 0., "qt"),
    ("vtu", "meshio", ".vtu", {}, 0., "qt"),
    ("meshio-memory", "memory", "", {}, 0., "qt"),
    ("npz", "npz", ".npz", {}, 0., "qt"),
    ("json", "json", ".json", {}, 0., "qt"),
    ("dict", "dict", "", {}, 0., "qt"),
    ("msh-default", "meshio", ".msh", {}, 0., "t"),
    ("vtk-ascii", "meshio", ".vtk", dict(binary=False), 1e-15, "t"),
    ("vtu-ascii", "meshio", ".vtu", dict(binary=False), 1e-11, "t"),     # meshio writes "{:.11e}"
    ("msh22-ascii", "meshio", ".msh", dict(file_format="gmsh22", binary=False), 1e-15, "t"),
    ("msh41-ascii", "meshio", ".msh", dict(file_format="gmsh", binary=False), 1e-15, "t"),
    ("xdmf", "meshio", ".xdmf", {}, 0., "t"),
]


def usable_variants(tier, d):
    """drop the meshio variants that meshio itself (without scikit-fem) cannot write and read back with data in this environment."""
    import meshio
    ok, skipped = [], []
    for v in VARIANTS:
        if tier[0] not in v[5]:
            continue
        if v[1] == "meshio":
            fn = os.path.join(d, "probe" + v[2])
            kw = dict(v[3]) if v[3] or v[2] != ".msh" else dict(file_format="gmsh")
            try:
                u, c = np.array([.1, .2, .3]), np.array([.5])
                meshio.write(fn, meshio.Mesh(np.array([[0., 0, 0], [1, 0, 0], [0, 1, 0]]), {"triangle": np.array([[0, 1, 2]])},
                                             point_data={"u": u}, cell_data={"c": [c]}), **kw)
                r = meshio.read(fn)
                assert np.array_equal(r.point_data["u"], u) and np.array_equal(r.cell_data["c"][0], c)
            except Exception as e:
                skipped.append("%s (%s)" % (v[0], type(e).__name__))
                continue
        ok.append(v)
    return ok, skipped


def meshes(tier, seed, rng):
    """first-order zoo meshes (tri/quad/tet/hex) and their second-order versions with randomly displaced higher-order nodes."""
    import skfem as fem
    second = dict(MeshTri1=fem.MeshTri2, MeshQuad1=fem.MeshQuad2, MeshTet1=fem.MeshTet2, MeshHex1=fem.MeshHex2)
    for label, m in Z.zoo(tier, seed, kinds=("tri", "quad", "tet", "hex")):
        yield label + "/P1", m
        m2 = second[type(m).__name__].from_mesh(m)
        X, nv = m2.doflocs.copy(), m.p.shape[1]
        X[:, nv:] += .02 * float(np.min(m.params())) * rng.uniform(-1, 1, X[:, nv:].shape)
        yield label + "/P2", replace(m2, doflocs=X)


def subset(rng, ix, lo=1):
    ix = np.asarray(ix)
    k = rng.randint(min(lo, len(ix)), len(ix) + 1)
    return rng.permutation(ix)[:k].astype(np.int32)


def admissible(m, b):
    """keep the (facet, flag) pairs that refer to an existing cell."""
    from skfem.generic_utils import OrientedBoundary
    keep = m.f2t[b.ori, np.asarray(b)] != -1
    return OrientedBoundary(np.asarray(b)[keep], b.ori[keep])


def tagsets(m, rng, ndraws):
    """(name, boundaries, subdomains): no tags / unoriented tags / the same plus oriented interfaces, `ndraws` random draws."""
    from skfem.generic_utils import OrientedBoundary
    yield "none", None, None
    nt, nf = m.t.shape[1], m.facets.shape[1]
    inner, outer = np.nonzero(m.f2t[1] != -1)[0], np.nonzero(m.f2t[1] == -1)[0]
    V = m.p[:, :int(m.t.max()) + 1]
    for draw in range(ndraws):
        some = np.sort(subset(rng, np.arange(nt)))
        subs = {"all": np.arange(nt, dtype=np.int32), "some": some, "other": subset(rng, np.arange(nt)), "void": np.zeros(0, dtype=np.int32)}
        left = np.array([f for f in outer if (V[0, m.facets[:, f]] == V[0].min()).all()], dtype=np.int32)
        bnds = {"left": left, "b-some": np.sort(subset(rng, outer)), "i_some": subset(rng, inner, 0), "mixed": subset(rng, np.arange(nf)),
                "nothing": np.zeros(0, dtype=np.int32)}
        yield "plain%d" % draw, dict(bnds), dict(subs)
        arb = subset(rng, np.arange(nf), 2)
        flags = rng.randint(0, 2, len(arb)) * (m.f2t[1, arb] != -1)
        ii = np.nonzero(m.f2t[1, arb] != -1)[0]
        if len(ii) >= 2:                                   # both flag values present
            flags[ii[0]], flags[ii[1]] = 1, 0
        bnds["arb"] = OrientedBoundary(arb, flags)
        bnds["around"] = m.facets_around(some)
        bnds["around-flip"] = admissible(m, m.facets_around(subs["other"], flip=True))
        c = V[0, m.facets[:, rng.choice(inner)]].mean() if len(inner) else .5
        nrm = np.zeros(m.p.shape[0])
        nrm[0] = rng.choice([-1., 1.])
        bnds["normal"] = admissible(m, m.facets_satisfying(lambda x: np.isclose(x[0], c), normal=nrm))
        yield "oriented%d" % draw, bnds, subs


def snapshot(m):
    """FRAME: every array of the mesh with dtype, shape and bytes."""
    def one(a):
        a = np.asarray(a)
        return (str(a.dtype), a.shape, a.tobytes())
    out = [(k, one(getattr(m, k))) for k in ("doflocs", "t", "facets", "t2f", "f2t")]
    for kind, tags in (("b", m.boundaries), ("s", m.subdomains)):
        for k, v in ([] if tags is None else tags.items()):
            out.append((kind + k, one(v), None if getattr(v, "ori", None) is None else one(v.ori)))
    return out


def roundtrip(m, v, d, pd, cd):
    """export + import through variant v; returns (loaded mesh, returned point_data, returned cell_data) (data None if no such API)."""
    import skfem as fem
    name, kind, suffix, kw = v[:4]
    fn = os.path.join(d, "mesh" + suffix)
    upd, ucd = {k: a.copy() for k, a in pd.items()}, {k: [a.copy()] for k, a in cd.items()}
    if kind == "meshio":
        m.save(fn, point_data=upd, cell_data=ucd, **kw)
        out = ["point_data", "cell_data"]
        return fem.Mesh.load(fn, out=out), out[0], out[1]
    if kind == "memory":
        from skfem.io.meshio import from_meshio, to_meshio
        out = ["point_data", "cell_data"]
        return from_meshio(to_meshio(m, upd, ucd), out=out), out[0], out[1]
    if kind == "npz":
        m.save_npz(fn)
        return type(m).load_npz(fn), None, None
    if kind == "json":
        from skfem.io.json import from_file, to_file
        to_file(m, fn)
        return from_file(fn), None, None
    return type(m).from_dict(json.loads(json.dumps(m.to_dict()))), None, None


def node_map(m, ml, tol):
    """P: bijection loaded node -> original node with equal coordinates."""
    P, Q = m.p, ml.p
    if P.shape != Q.shape:
        return None, "P: coordinate array has shape %s, original %s" % (Q.shape, P.shape)
    D = np.abs(Q[:, :, None] - P[:, None, :]).max(axis=0)
    pi = D.argmin(axis=1)
    err = D[np.arange(len(pi)), pi]
    if err.max() > tol * (1 + np.abs(P).max()) or len(set(pi.tolist())) != len(pi):
        i = int(err.argmax())
        return None, "P: loaded node %d at %s matches no original node (distance %.3e, tolerance %.1e)" % (i, Q[:, i].tolist(), err[i], tol)
    return pi, None


def cell_keys(M, vmap):
    """T: every cell written in reference node numbers; unordered where the class sorts the local vertex order itself."""
    rows = M.t if type(M).__name__.endswith("1") else M.dofs.element_dofs
    wrap = frozenset if M.sort_t else tuple
    return [wrap(int(x) for x in vmap[rows[:, k]]) for k in range(rows.shape[1])]


def cell_map(m, ml, pi):
    k0, k1 = cell_keys(m, np.arange(m.p.shape[1])), cell_keys(ml, pi)
    index = {k: i for i, k in enumerate(k0)}
    if len(k1) != len(k0) or len(set(k1)) != len(k1) or any(k not in index for k in k1):
        bad = [k for k in k1 if k not in index][:1]
        return None, "T: %d loaded cells vs %d; e.g. loaded cell %s is no original cell" % (len(k1), len(k0), [sorted(b) if isinstance(b, frozenset) else b for b in bad])
    return np.array([index[k] for k in k1]), None


def tagged_facets(M, b, vmap):
    """[(vertex set of the facet, vertex set of the cell that the facet's flag refers to)]; no flags means flag 0."""
    ix = np.asarray(b).astype(np.int64)
    ori = getattr(b, "ori", None)
    ori = np.zeros(len(ix), dtype=np.int64) if ori is None else np.asarray(ori).astype(np.int64)
    out = []
    for f, o in zip(ix, ori):
        c = int(M.f2t[o, f])
        out.append((frozenset(vmap[M.facets[:, f]].tolist()), frozenset(vmap[M.t[:, c]].tolist()) if c >= 0 else "no cell"))
    return out


def clause_tags(m, ml, pi, sigma):
    """NAMES, SUBS, FACETS, ORI."""
    msgs = []
    ident = np.arange(m.p.shape[1])
    s0, s1, b0, b1 = m.subdomains or {}, ml.subdomains or {}, m.boundaries or {}, ml.boundaries or {}
    if set(s0) != set(s1):
        msgs.append("NAMES: subdomain names %s, original %s" % (sorted(s1), sorted(s0)))
    if set(b0) != set(b1):
        msgs.append("NAMES: boundary names %s, original %s" % (sorted(b1), sorted(b0)))
    for k in sorted(set(s0) & set(s1)):
        got, want = sorted(int(sigma[int(c)]) for c in s1[k]), sorted(int(c) for c in s0[k])
        if got != want:
            msgs.append("SUBS: subdomain '%s' names original cells %s, expected %s" % (k, got[:8], want[:8]))
    for k in sorted(set(b0) & set(b1)):
        got, want = tagged_facets(ml, b1[k], pi), tagged_facets(m, b0[k], ident)
        if len(got) != len(want) or set(g[0] for g in got) != set(w[0] for w in want):
            msgs.append("FACETS: boundary '%s' has %d facets %s..., original %d facets %s..." % (
                k, len(got), sorted(sorted(g[0]) for g in got)[:4], len(want), sorted(sorted(w[0]) for w in want)[:4]))
        elif dict(got) != dict(want):
            wrong = [f for f, c in dict(got).items() if dict(want)[f] != c]
            msgs.append("ORI: boundary '%s': %d of %d facets refer to the other neighbouring cell (original flags %s, loaded flags %s; e.g. facet with vertices %s)" % (
                k, len(wrong), len(want), np.asarray(getattr(b0[k], "ori", "none")).tolist(), np.asarray(getattr(b1[k], "ori", "none")).tolist(), sorted(wrong[0])))
    return msgs


def clause_data(pd, cd, opd, ocd, pi, sigma, tol):
    """DATA: loaded value at a node / cell = value handed to save() at the corresponding original node / cell."""
    msgs = []
    for what, given, back, perm in (("point_data", pd, opd, pi), ("cell_data", cd, ocd, sigma)):
        for k, a in given.items():
            if not isinstance(back, dict) or k not in back:
                msgs.append("DATA: %s '%s' is not returned" % (what, k))
                continue
            got = back[k]
            if what == "cell_data":
                if len(got) != 1:
                    msgs.append("DATA: cell_data '%s' comes back in %d blocks" % (k, len(got)))
                    continue
                got = got[0]
            got, want = np.asarray(got), a[perm]
            if got.shape != want.shape or np.abs(got - want).max() > tol * (1 + np.abs(want).max()):
                msgs.append("DATA: %s '%s' differs (shape %s vs %s)" % (what, k, got.shape, want.shape))
    return msgs


def check_case(m, v, d, pd, cd):
    tol = v[4]
    before = snapshot(m)
    try:
        ml, opd, ocd = roundtrip(m, v, d, pd, cd)
    except Exception as e:
        return ["export/import raised %s: %s" % (type(e).__name__, str(e)[:200])]
    msgs = []
    if snapshot(m) != before:
        after = snapshot(m)
        msgs.append("FRAME: exporting changed the original mesh: %s" % [a[0] for a, b in zip(after, before) if a != b])
    if type(ml) is not type(m):
        return msgs + ["CLASS: loaded %s, original %s" % (type(ml).__name__, type(m).__name__)]
    pi, err = node_map(m, ml, tol)
    if err:
        return msgs + [err]
    sigma, err = cell_map(m, ml, pi)
    if err:
        return msgs + [err]
    msgs += clause_tags(m, ml, pi, sigma)
    if opd is not None:
        msgs += clause_data(pd, cd, opd, ocd, pi, sigma, tol)
    return msgs


def run(payload):
    with contextlib.redirect_stdout(io.StringIO()), contextlib.redirect_stderr(io.StringIO()):       # meshio's console warnings
        return _run(payload)


def _run(payload):
    tier, seed, only = payload.get("tier", "quick"), int(payload.get("seed", 0)), payload.get("only")
    rng = np.random.RandomState(seed)
    cases, nfailed, failures, samples, per_variant, shown = 0, 0, [], [], {}, set()
    with tempfile.TemporaryDirectory() as d:
        variants, skipped = usable_variants(tier, d)
        ndraws = 2 if tier == "quick" else 4
        for mlabel, m0 in meshes(tier, seed, rng):
            for tname, bnds, subs in tagsets(m0, rng, ndraws):
                m = replace(m0, _boundaries=bnds, _subdomains=subs)
                nn, nt = m.p.shape[1], m.t.shape[1]
                pd = {"u": rng.uniform(-1, 1, nn), "vec": rng.uniform(-1, 1, (nn, 3))}
                cd = {"c": rng.uniform(-1, 1, nt), "rank": rng.permutation(nt).astype(np.float64)}
                for v in variants:
                    if v[1] in ("json", "dict") and not mlabel.endswith("/P1"):
                        continue                                     # dictionary / JSON form: first-order meshes only
                    label = "%s/%s/%s" % (mlabel, tname, v[0])
                    if only and only != label:
                        continue
                    cases += 1
                    if len(samples) < 3 and cases % 7 == 1:
                        samples.append(label)
                    try:
                        msgs = check_case(m, v, d, pd, cd)
                    except Exception as e:
                        import traceback
                        msgs = ["checker exception %s: %s | %s" % (type(e).__name__, e, traceback.format_exc()[-300:])]
                    if msgs:
                        nfailed += 1
                        per_variant[v[0]] = per_variant.get(v[0], 0) + 1
                        if (v[0], tname[:5]) not in shown:            # keep the (at most 20) reported failures spread over variants and tag kinds
                            shown.add((v[0], tname[:5]))
                            failures.append(dict(
                                input=dict(case=label, mesh_class=type(m).__name__, nodes=nn, cells=nt,
                                           boundaries={k: dict(facets=np.asarray(b).tolist()[:12], ori=np.asarray(getattr(b, "ori", "none")).tolist()[:12])
                                                       for k, b in (bnds or {}).items()} if nn < 40 else "see tagsets()"),
                                observed="; ".join(msgs[:3]), replay=dict(kind="io_case", only=label, tier=tier, seed=seed)))
    bound = ("%s, tri/quad/tet/hex only, each as first-order mesh and as second-order mesh (MeshTri2/Quad2/Tet2/Hex2.from_mesh, higher-order nodes randomly "
             "displaced) x tag sets {none; plain: 4 subdomains (all, 2 random overlapping, empty) + 5 unoriented boundaries (geometric left side, random boundary "
             "facets, random interior facets, random mixed unsorted, empty); oriented: plain + 4 oriented interfaces (random facets with arbitrary admissible flags "
             "incl. both values, facets_around, facets_around(flip=True), facets_satisfying(normal=+-e_x))} with %d random draw(s) x variants [%s] "
             "(json/dict on first-order meshes only) + random float point_data (scalar, 3-vector) and cell_data (2 scalars) through Mesh.save/load(out=...); "
             "floats compared exactly except vtk-ascii (1e-15 relative) and vtu-ascii (1e-11: meshio writes 12 significant digits); "
             "variants not writable/readable by meshio alone in this environment and therefore skipped: [%s]; seed %d"
             % (Z.describe(tier), ndraws, ", ".join(v[0] for v in variants), ", ".join(skipped) or "none", seed))
    return dict(cases=cases, failures=failures[:20], samples=samples, bound=bound, failed_cases=nfailed, failed_by_variant=per_variant)


def replay_io_case(sp):
    r = run(dict(only=sp["only"], tier=sp.get("tier", "quick"), seed=sp.get("seed", 0)))
    return dict(confirmed=bool(r["failures"]), observed=[f["observed"] for f in r["failures"]][:3], input=sp["only"])


if __name__ == "__main__":
    print("\n@@JSON@@" + json.dumps(run(json.load(sys.stdin)), default=str))
