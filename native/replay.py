"""Replays a solver counterexample on the REAL code under /venv.
stdin: JSON spec; stdout: ... @@JSON@@{confirmed, observed, required}"""
import json
import sys

import numpy as np


def out(d):
    print("\n@@JSON@@" + json.dumps(d, default=str))
    sys.exit(0)


def make_element(label):
    import skfem.element as E
    if "(" in label:
        n, a = label[:-1].split("(")
        return getattr(E, n)(*[int(x) for x in a.split(",") if x])
    return getattr(E, label)()


def lbasis_at(e, pt, i):
    X = np.array([[v] for v in pt], dtype=float)
    r = e.lbasis(X, i)
    return r


def replay_lbasis(sp):
    e = make_element(sp["element"])
    d = e.refdom.dim()
    names = "xyz"[:d]
    pt = sp.get("point") or {}
    p0 = np.array([float(pt.get(n, 0.3 + 0.1 * k)) for k, n in enumerate(names)])
    if not np.all(np.isfinite(p0)) or np.max(np.abs(p0)) > 1e3:
        p0 = np.array([0.3 + 0.1 * k for k in range(d)])
    i = sp["i"]
    cl = sp["clause"]
    pts = [p0] + [np.array([0.21 + 0.13 * k + 0.07 * m for k in range(d)]) for m in range(3)]
    h = 1e-5
    worst = None
    for p in pts:
        phi, dphi = lbasis_at(e, p, i)[:2]

        def val(q, comp=None):
            v = np.asarray(lbasis_at(e, q, i)[0], dtype=float)
            return v.reshape(-1)[0] if comp is None else v.reshape(d, -1)[comp, 0]

        def dnum(k, comp=None):
            ek = np.zeros(d)
            ek[k] = h
            return (val(p + ek, comp) - val(p - ek, comp)) / (2 * h)
        if cl == "deriv":
            k = sp["k"]
            got = float(np.asarray(dphi, dtype=float).reshape(d, -1)[k, 0])
            req = dnum(k)
        elif cl == "div":
            got = float(np.asarray(dphi, dtype=float).reshape(-1)[0])
            req = sum(dnum(k, k) for k in range(d))
        elif cl == "curl":
            if d == 2:
                got = float(np.asarray(dphi, dtype=float).reshape(-1)[0])
                req = dnum(0, 1) - dnum(1, 0)
            else:
                k = sp["k"]
                got = float(np.asarray(dphi, dtype=float).reshape(3, -1)[k, 0])
                a, b = [(1, 2), (2, 0), (0, 1)][k]
                req = dnum(a, b) - dnum(b, a)
        elif cl == "history":
            e1, e2 = make_element(sp["element"]), make_element(sp["element"])
            q = p + 0.17 * (1 + np.arange(d)) / (1 + d)
            for m in range(int(e1._bfun_counts().sum())):
                lbasis_at(e1, p, m)
            a, b = lbasis_at(e1, q, i), lbasis_at(e2, q, i)
            got = float(np.asarray(a[0], dtype=float).reshape(-1)[0])
            req = float(np.asarray(b[0], dtype=float).reshape(-1)[0])
            got += float(np.abs(np.asarray(a[1], dtype=float) - np.asarray(b[1], dtype=float)).max())
        elif cl == "alias":
            e1 = make_element(sp["element"])
            q = p + 0.17 * (1 + np.arange(d)) / (1 + d)
            Xa = np.array([[v, v + .01] for v in p], dtype=float)
            Xb = np.array([[v, v + .02] for v in q], dtype=float)
            r1 = e1.lbasis(Xa, i)
            keep = [np.array(u, dtype=float).copy() for u in r1[:2]]
            e1.lbasis(Xb, i)
            e1.lbasis(Xb, (i + 1) % int(e1._bfun_counts().sum()))
            got = float(sum(np.abs(np.asarray(u, dtype=float) - c).max() for u, c in zip(r1[:2], keep)))
            req = 0.0
        elif cl == "kron":
            j = sp["j"]
            loc = np.asarray(e.doflocs, dtype=float)[j]
            got = float(np.asarray(lbasis_at(e, loc, i)[0], dtype=float).reshape(-1)[0])
            req = 1.0 if i == j else 0.0
        elif cl == "pou":
            got = sum(float(np.asarray(lbasis_at(e, p, m)[0], dtype=float).reshape(-1)[0]) for m in sp["idx"])
            req = 1.0
        else:
            out(dict(confirmed=None, note="clause %s has no point replay" % cl))
        err = abs(got - req)
        if worst is None or err > worst[0]:
            worst = (err, p.tolist(), got, req)
    tol = 1e-6 * max(1.0, abs(worst[3]))
    out(dict(confirmed=bool(worst[0] > tol), observed=worst[2], required=worst[3], point=worst[1],
             oracle="clause '%s' evaluated on the real lbasis (derivatives by central differences, h=1e-5)" % cl))


def main():
    sp = json.load(sys.stdin)
    kind = sp.get("kind")
    fn = globals().get("replay_" + kind)
    if fn is None:
        import importlib
        import os
        here = os.path.dirname(os.path.abspath(__file__))
        mods = sorted(f[:-3] for f in os.listdir(here) if f.endswith(".py") and f.startswith(("replay_", "standin_")))
        for modname in mods:
            try:
                m = importlib.import_module("native." + modname)
            except ImportError:
                continue
            fn = getattr(m, "replay_" + kind, None)
            if fn:
                break
    if fn is None:
        out(dict(confirmed=None, note="no replay handler for kind %s" % kind))
    r = fn(sp)
    if r is not None:
        out(r)


if __name__ == "__main__":
    main()
