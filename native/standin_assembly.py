"""Bounded stand-in for C01 (and replay handler for COO obligations), run under /venv on the real code.

For a stated family of small bases it evaluates, concretely, the same contract clauses the engine proves
symbolically (COO-B/L/F with the real gbasis/quadrature) and the property statement itself:
   v^T A u == J(a(u_h, v_h)),  b.v == J(l(v_h)),  s == J   with u_h, v_h from Basis.interpolate.
"""
import itertools
import json
import sys

import numpy as np


def meshes():
    import skfem as fem
    out = {}
    m = fem.MeshTri.init_sqsymmetric().with_subdomains({"left": lambda x: x[0] < .5})
    out["tri"] = m
    out["quad"] = fem.MeshQuad.init_tensor(np.array([0., .4, 1.]), np.array([0., .7, 1.])).with_subdomains({"left": lambda x: x[0] < .4})
    out["tet"] = fem.MeshTet.init_tensor(np.array([0., .6, 1.]), np.array([0., 1.]), np.array([0., 1.])).with_subdomains({"left": lambda x: x[0] < .6})
    out["hex"] = fem.MeshHex.init_tensor(np.array([0., .6, 1.]), np.array([0., 1.]), np.array([0., .5, 1.])).with_subdomains({"left": lambda x: x[0] < .6})
    return out


def element_pairs(kind):
    import skfem as fem
    return {"tri": [(fem.ElementTriP2(), fem.ElementTriP1()), (fem.ElementTriP1(), fem.ElementTriP1()), (fem.ElementVector(fem.ElementTriP1()), fem.ElementTriP2())],
            "quad": [(fem.ElementQuad2(), fem.ElementQuad1())],
            "tet": [(fem.ElementTetP2(), fem.ElementTetP1())],
            "hex": [(fem.ElementHex1(), fem.ElementHex1())]}[kind]


def bases(kind, m, eu, ev):
    import skfem as fem
    out = {}
    out["cell"] = (fem.CellBasis(m, eu, intorder=4), fem.CellBasis(m, ev, intorder=4))
    sub = m.subdomains["left"][::-1].copy()     # reversed order: a genuine subset in non-ascending order
    out["cell-subset"] = (fem.CellBasis(m, eu, intorder=4, elements=sub), fem.CellBasis(m, ev, intorder=4, elements=sub))
    out["boundary"] = (fem.FacetBasis(m, eu, intorder=4), fem.FacetBasis(m, ev, intorder=4))
    bf = m.boundary_facets()[::2]
    out["boundary-part"] = (fem.FacetBasis(m, eu, intorder=4, facets=bf), fem.FacetBasis(m, ev, intorder=4, facets=bf))
    for side in (0, 1):
        out["interior-side%d" % side] = (fem.InteriorFacetBasis(m, eu, intorder=4, side=side), fem.InteriorFacetBasis(m, ev, intorder=4, side=side))
    return out


def scal(f):
    """reduce a field (scalar or vector valued) to a scalar-valued expression."""
    a = np.asarray(f)
    return a if a.ndim == 2 else a.reshape((-1,) + a.shape[-2:]).sum(0) * 1.0


def g1(f):
    g = f.grad
    return g.reshape((-1,) + g.shape[-2:])[0]


INTEGRANDS = {
    "mass": (lambda u, v, w: scal(u) * scal(v), lambda v, w: scal(v), None),
    "nonsym-grad": (lambda u, v, w: g1(u) * scal(v), lambda v, w: g1(v), None),
    "weighted-x": (lambda u, v, w: w.x[0] * scal(u) * scal(v) + 2. * w.x[1] * g1(u) * g1(v), lambda v, w: w.x[0] * scal(v), None),
    "with-h": (lambda u, v, w: w.h * scal(u) * scal(v), lambda v, w: w.h * scal(v), None),
    "coefficient": (lambda u, v, w: scal(w["c"]) * scal(u) * g1(v), lambda v, w: scal(w["c"]) * g1(v), "dofvector"),
    "prefield": (lambda u, v, w: scal(w["c"]) * scal(u) * scal(v), lambda v, w: scal(w["c"]) ** 2 * scal(v), "field"),
    "scalar-param": (lambda u, v, w: w["c"] * scal(u) * scal(v), lambda v, w: w["c"] * scal(v), "scalar"),
}


def run_case(kind, m, eu, ev, bname, ub, vb, iname, rng):
    import skfem as fem
    bil, lin, extra = INTEGRANDS[iname]
    fails = []
    kw_u = {}
    if extra == "dofvector":
        kw_u = {"c": rng.uniform(-1, 1, ub.N)}
    elif extra == "field":
        kw_u = {"c": ub.interpolate(rng.uniform(-1, 1, ub.N))}
        if isinstance(kw_u["c"], tuple):
            kw_u = {"c": kw_u["c"][0]}
    elif extra == "scalar":
        kw_u = {"c": 1.7}
    if "n" in INTEGRANDS[iname].__repr__():
        pass
    A = fem.BilinearForm(bil).assemble(ub, vb, **kw_u)
    u, v = rng.uniform(-1, 1, ub.N), rng.uniform(-1, 1, vb.N)
    uh, vh = ub.interpolate(u), vb.interpolate(v)

    def wrap(x):
        return x if isinstance(x, tuple) else (x,)
    uh, vh = wrap(uh), wrap(vh)
    J = fem.Functional(lambda w: bil(w["uh"], w["vh"], w)).assemble(ub, uh=uh[0], vh=vh[0], **kw_u) if (len(uh) == 1 and len(vh) == 1) else None
    if A.shape != (vb.N, ub.N):
        fails.append("matrix shape %s != (N_test, N_trial) = %s" % (A.shape, (vb.N, ub.N)))
    elif J is not None:
        lhs = float(v @ (A @ u))
        if abs(lhs - J) > 1e-10 * max(1.0, abs(J)):
            fails.append("v^T A u = %.12g but a(u_h, v_h) = %.12g" % (lhs, J))
    if extra == "dofvector":
        # a coefficient vector enters by its CURRENT values: after an in-place update of the same array object (the usual pattern inside a nonlinear or
        # time-stepping loop) the assembled matrix / vector are those of the updated vector
        k = kw_u["c"]
        k *= -0.5
        k += 0.25
        A2 = fem.BilinearForm(bil).assemble(ub, vb, c=k)
        A3 = fem.BilinearForm(bil).assemble(ub, vb, c=k.copy())
        if abs(A2 - A3).max() > 0:
            fails.append("STALE-COEFFICIENT: after updating the coefficient vector in place the matrix differs from the one assembled with a fresh copy of it by %.3e" % abs(A2 - A3).max())
        b2, b3 = fem.LinearForm(lin).assemble(ub, c=k), fem.LinearForm(lin).assemble(ub, c=k.copy())
        if np.abs(b2 - b3).max() > 0:
            fails.append("STALE-COEFFICIENT: linear form after an in-place update of the coefficient vector differs from a fresh copy by %.3e" % np.abs(b2 - b3).max())
    if iname == "scalar-param" and J is not None and A.shape == (vb.N, ub.N):
        # the represented form is linear in a scalar parameter at EVERY magnitude (metre vs. micrometre units, tiny material constants): the matrix with
        # c = 1e-18 is 1e-18/1.7 times the matrix with c = 1.7, entry by entry up to rounding -- no absolute threshold may enter the assembled numbers
        for cs in (1e-18, 1e-30, 1e+20):
            As = fem.BilinearForm(bil).assemble(ub, vb, c=cs)
            ref = A * (cs / 1.7)
            dmax = abs(As - ref).max() if As.nnz or ref.nnz else 0.0
            if dmax > 1e-12 * abs(ref).max():
                fails.append("SCALE: with the scalar parameter c = %.0e the assembled matrix is not c/1.7 times the matrix for c = 1.7 (max entry difference %.3e, max entry %.3e)" % (cs, dmax, abs(ref).max()))
    # linear form / functional consistency on the test basis
    kw_v = {}
    if extra == "dofvector":
        kw_v = {"c": rng.uniform(-1, 1, vb.N)}
    elif extra == "field":
        c = vb.interpolate(rng.uniform(-1, 1, vb.N))
        kw_v = {"c": c[0] if isinstance(c, tuple) else c}
    elif extra == "scalar":
        kw_v = {"c": 1.7}
    b = fem.LinearForm(lin).assemble(vb, **kw_v)
    if b.shape != (vb.N,):
        fails.append("vector shape %s" % (b.shape,))
    elif len(vh) == 1:
        Jl = fem.Functional(lambda w: lin(w["vh"], w)).assemble(vb, vh=vh[0], **kw_v)
        if abs(float(b @ v) - Jl) > 1e-10 * max(1.0, abs(Jl)):
            fails.append("b.v = %.12g but l(v_h) = %.12g" % (float(b @ v), Jl))
    # COO-B clause on the real triplets (rows = test dofs, cols = trial dofs, data = local integrals)
    coo = fem.BilinearForm(bil).elemental(ub, vb, **kw_u)
    nt = ub.nelems
    idx, dat = coo.indices, coo.data
    if idx.shape != (2, ub.Nbfun * vb.Nbfun * nt):
        fails.append("COO indices shape %s" % (idx.shape,))
    else:
        wd = {**ub.default_parameters(), **fem.BilinearForm._normalize_asm_kwargs(dict(kw_u), ub)}
        from skfem.assembly.form.form import FormExtraParams
        wd = FormExtraParams(wd)
        for j in range(ub.Nbfun):
            for i in range(vb.Nbfun):
                sl = slice((j * vb.Nbfun + i) * nt, (j * vb.Nbfun + i + 1) * nt)
                if not np.array_equal(idx[0, sl], vb.element_dofs[i]):
                    fails.append("COO rows of local pair (j=%d,i=%d) are not the test dofs" % (j, i))
                    break
                if not np.array_equal(idx[1, sl], ub.element_dofs[j]):
                    fails.append("COO cols of local pair (j=%d,i=%d) are not the trial dofs" % (j, i))
                    break
                want = np.sum(bil(*ub.basis[j], *vb.basis[i], wd) * ub.dx, axis=1)
                if not np.allclose(dat[sl], want, rtol=1e-12, atol=1e-14):
                    fails.append("COO data of local pair (j=%d,i=%d) is not the local integral" % (j, i))
                    break
            else:
                continue
            break
    return fails


def run(payload):
    import skfem as fem
    seed = int(payload.get("seed", 0))
    tier = payload.get("tier", "quick")
    only = payload.get("only")
    rng = np.random.RandomState(seed)
    cases, failures, samples = 0, [], []
    ms = meshes()
    for kind, m in ms.items():
        pairs = element_pairs(kind)
        if tier == "quick":
            pairs = pairs[:2] if kind == "tri" else pairs[:1]
        for eu, ev in pairs:
            for bname, (ub, vb) in bases(kind, m, eu, ev).items():
                names = list(INTEGRANDS)
                if tier == "quick" and kind in ("tet", "hex"):
                    names = ["nonsym-grad", "coefficient", "with-h"]
                for iname in names:
                    label = "%s/%s x %s/%s/%s" % (kind, type(eu).__name__, type(ev).__name__, bname, iname)
                    if only and only not in label:
                        continue
                    cases += 1
                    try:
                        fl = run_case(kind, m, eu, ev, bname, ub, vb, iname, rng)
                    except Exception as e:
                        fl = ["exception %s: %s" % (type(e).__name__, e)]
                    if len(samples) < 3:
                        samples.append(label)
                    for f in fl:
                        failures.append(dict(input=label, observed=f, replay=dict(kind="assembly_case", only=label, seed=seed)))
    return dict(cases=cases, failures=failures[:20], samples=samples,
                bound="4 meshes (4-16 cells) x up to 3 (trial,test) element pairs x {cell, reversed cell subset, boundary, boundary part, interior side 0/1} x 7 integrands")


def replay_assembly_case(sp):
    r = run(dict(seed=sp.get("seed", 0), tier="thorough", only=sp["only"]))
    return dict(confirmed=bool(r["failures"]), observed=[f["observed"] for f in r["failures"]][:3], input=sp["only"])


def replay_coo(sp):
    """A refuted COO obligation is replayed by running the concrete clause over the stand-in family."""
    r = run(dict(seed=0, tier="quick"))
    f = [x for x in r["failures"] if "COO" in x["observed"] or "shape" in x["observed"] or "but" in x["observed"]]
    return dict(confirmed=bool(f) if f else None, observed=[x["observed"] for x in f][:3], input=[x["input"] for x in f][:3],
                oracle="COO-B/L clauses and v^T A u = a(u_h,v_h) evaluated on the real assemblers over the stand-in family")


if __name__ == "__main__":
    res = run(json.load(sys.stdin))
    print("\n@@JSON@@" + json.dumps(res, default=str))
