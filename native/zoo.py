"""Enumerated family of small meshes used by the bounded stand-ins ("the mesh zoo").

Every base mesh is offered (a) as built, (b) under seeded random vertex renumberings and cell permutations and, for
quadrilaterals / hexahedra / wedges (classes that do not sort the local vertex order), (c) under admissible local rotations.
The bound is therefore a stated, enumerated set; `describe()` returns it for the evidence file."""
import numpy as np


def base_meshes(tier="quick"):
    import skfem as fem
    out = []
    out.append(("line4", fem.MeshLine(np.array([0., .2, .55, 1.]))))
    out.append(("tri2", fem.MeshTri()))
    out.append(("tri-sym4", fem.MeshTri.init_sqsymmetric()))
    out.append(("tri-tensor12", fem.MeshTri.init_tensor(np.array([0., .3, 1.]), np.array([0., .4, .7, 1.]))))
    out.append(("tri-L6", fem.MeshTri.init_lshaped()))
    out.append(("quad1", fem.MeshQuad()))
    out.append(("quad-tensor6", fem.MeshQuad.init_tensor(np.array([0., .3, 1.]), np.array([0., .4, .7, 1.]))))
    out.append(("tet-default", fem.MeshTet()))
    out.append(("tet-tensor", fem.MeshTet.init_tensor(np.array([0., .6, 1.]), np.array([0., 1.]), np.array([0., .5, 1.]))))
    A3 = np.array([[1., .45, .2], [.1, .8, -.35], [-.25, .3, 1.3]])
    mt = fem.MeshTet.init_tensor(np.array([0., .5, 1.]), np.array([0., .6, 1.]), np.array([0., 1.]))
    out.append(("tet-sheared", fem.MeshTet(A3 @ mt.p, mt.t)))            # cells of all three inner-diagonal cases
    out.append(("hex1", fem.MeshHex()))
    out.append(("hex-tensor4", fem.MeshHex.init_tensor(np.array([0., .6, 1.]), np.array([0., .3, 1.]), np.array([0., 1.]))))
    out.append(("wedge-default", fem.MeshWedge1()))
    if tier != "quick":
        out.append(("tri-refined8", fem.MeshTri().refined(1)))
        out.append(("quad-refined4", fem.MeshQuad().refined(1)))
        out.append(("tet-refined", fem.MeshTet().refined(1)))
        out.append(("hex-refined8", fem.MeshHex().refined(1)))
        out.append(("wedge-extruded", fem.MeshTri.init_sqsymmetric() * fem.MeshLine(np.array([0., .4, 1.]))))
    return out


QUAD_ROT = [[0, 1, 2, 3], [1, 2, 3, 0], [2, 3, 0, 1], [3, 0, 1, 2], [3, 2, 1, 0], [0, 3, 2, 1]]
# rotations of the reference hexahedron expressed as permutations of skfem's local vertex order
HEX_P = np.array([[1., 1., 1.], [1., 1., 0.], [1., 0., 1.], [0., 1., 1.], [1., 0., 0.], [0., 1., 0.], [0., 0., 1.], [0., 0., 0.]])


def hex_rotations():
    rots = []
    import itertools
    for perm in itertools.permutations(range(3)):
        for signs in itertools.product((1, -1), repeat=3):
            R = np.zeros((3, 3))
            for i in range(3):
                R[i, perm[i]] = signs[i]
            if np.linalg.det(R) < 0:
                continue
            q = (HEX_P - .5) @ R.T + .5
            idx = [int(np.argmin(np.sum((HEX_P - row) ** 2, axis=1))) for row in q]
            rots.append(idx)
    return rots


WEDGE_ROT = [[0, 1, 2, 3, 4, 5], [1, 2, 0, 4, 5, 3], [2, 0, 1, 5, 3, 4]]


def renumbered(m, rng, local=True):
    """same geometric mesh, different vertex numbers / cell order / admissible local vertex order."""
    import skfem as fem
    nv = m.p.shape[1]
    perm = rng.permutation(nv)                # old vertex v gets new number perm[v]
    p = np.empty_like(m.p)
    p[:, perm] = m.p
    t = perm[m.t]
    t = t[:, rng.permutation(t.shape[1])]
    name = type(m).__name__
    if local and t.shape[1] > 0:
        if name.startswith("MeshQuad"):
            for k in range(t.shape[1]):
                t[:, k] = t[QUAD_ROT[rng.randint(4)], k]          # orientation-preserving rotations
        elif name.startswith("MeshHex"):
            R = hex_rotations()
            for k in range(t.shape[1]):
                t[:, k] = t[R[rng.randint(len(R))], k]
        elif name.startswith("MeshWedge"):
            # the prism's triangular facet slots are padded ([0,1,2,0]); two cells sharing a triangle must list it from the same first
            # vertex, which the library's own constructors (extrusion) guarantee -> rotate all cells of a mesh by the same rotation
            r = WEDGE_ROT[rng.randint(3)]
            t[:] = t[r]
        elif name.startswith(("MeshTri", "MeshTet", "MeshLine")):
            for k in range(t.shape[1]):
                t[:, k] = t[rng.permutation(t.shape[0]), k]       # the constructor sorts anyway
    return type(m)(p, t), perm


def zoo(tier="quick", seed=0, kinds=None, variants=None):
    rng = np.random.RandomState(1000 + seed)
    nvar = variants if variants is not None else (2 if tier == "quick" else 6)
    for label, m in base_meshes(tier):
        if kinds and not any(label.startswith(k) for k in kinds):
            continue
        yield label, m
        for v in range(nvar):
            m2, _ = renumbered(m, rng)
            yield "%s~r%d" % (label, v), m2


def describe(tier="quick", variants=None):
    nvar = variants if variants is not None else (2 if tier == "quick" else 6)
    names = [l for l, _ in base_meshes(tier)]
    return "mesh zoo: %s; each also under %d seeded random vertex renumberings + cell permutations + admissible local vertex rotations" % (", ".join(names), nvar)


def cells_of(m):
    return [frozenset(m.t[:, k].tolist()) for k in range(m.t.shape[1])]
