"""Bounded stand-in for C16 with real threads (schedules left to the OS)."""
import json
import sys

import numpy as np


def run(payload):
    import skfem as fem
    from skfem.helpers import dot, grad
    tier = payload.get("tier", "quick")
    reps = 3 if tier == "quick" else 12
    m = fem.MeshTri.init_sqsymmetric().refined(1)
    mq = fem.MeshQuad().refined(2)
    pairs = [(fem.CellBasis(m, fem.ElementTriP2()), fem.CellBasis(m, fem.ElementTriP1(), intorder=4)),
             (fem.CellBasis(m, fem.ElementTriP1()), None),
             (fem.CellBasis(mq, fem.ElementQuad2()), fem.CellBasis(mq, fem.ElementQuad1(), intorder=8)),
             (fem.FacetBasis(m, fem.ElementTriP2()), None)]
    cases, failures, samples = 0, [], []

    def form(u, v, w):
        return dot(grad(u), grad(v)) + w.x[0] * u * v + u.grad[0] * v

    for bi, (ub, vb) in enumerate(pairs):
        args = (ub,) if vb is None else (ub, vb)
        ref = fem.BilinearForm(form).elemental(*args)
        A0 = fem.BilinearForm(form).assemble(*args)
        npairs = ub.Nbfun * (vb or ub).Nbfun
        ns = sorted(set([1, 2, 3, 7, npairs - 1, npairs, npairs + 1, npairs + 2]))
        for n in ns:
            if n < 1:
                continue
            for r in range(reps):
                cases += 1
                got = fem.BilinearForm(form, nthreads=n).elemental(*args)
                ok = np.array_equal(got.indices, ref.indices) and np.array_equal(got.data, ref.data)
                A = fem.BilinearForm(form, nthreads=n).assemble(*args)
                ok = ok and (A != A0).nnz == 0
                if len(samples) < 3:
                    samples.append(dict(basis=bi, nthreads=n, pairs=npairs))
                if not ok:
                    failures.append(dict(input=dict(basis=bi, nthreads=n, pairs=npairs, repetition=r),
                                         observed="threaded triplets differ from serial (max |diff| %.3e)" % float(np.max(np.abs(got.data - ref.data)))))
    return dict(cases=cases, failures=failures[:10], samples=samples,
                bound="4 (trial,test) bases x nthreads in {1,2,3,7,P-1,P,P+1,P+2} (P = local pairs) x %d repetitions, OS schedules" % reps)


if __name__ == "__main__":
    print("\n@@JSON@@" + json.dumps(run(json.load(sys.stdin)), default=str))
