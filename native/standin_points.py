"""Bounded stand-in for C14 (run under /venv): point location and point evaluation of discrete functions are exact.
Oracle, independent of the finder / probes code: every generated cell is convex with planar faces, hence equal to the convex hull of
its vertices; its supporting half-spaces are found by brute force over all d-subsets of the cell's vertices (no reference-cell tables).
Containment uses those half-spaces (relative tolerance 1e-9 = barycentric coordinates for simplices); whether a point on the rim of the
domain belongs to the closed domain is decided in exact rational arithmetic.  Expected point values are the local expansion
sum_i y[dofs[i,k]] phi_i(x) evaluated cell by cell with element.gbasis(mapping, mapping.invF(x, tind=[k]), i, tind=[k])."""
import itertools
import json
import sys
from fractions import Fraction

import numpy as np

from native import zoo as Z

TOL = 1e-9        # containment tolerance (relative to the cell's extent across the face = barycentric coordinate for simplices)
VTOL = 1e-10      # relative tolerance on evaluated values


def normal(a):
    """normal of the hyperplane through the d points a[0..d-1] of R^d (works for floats, arrays over cells and Fractions)."""
    d = len(a)
    if d == 1:
        return [1 + 0 * a[0][0]]
    u = [a[1][i] - a[0][i] for i in range(d)]
    if d == 2:
        return [-u[1], u[0]]
    v = [a[2][i] - a[0][i] for i in range(d)]
    return [u[1] * v[2] - u[2] * v[1], u[2] * v[0] - u[0] * v[2], u[0] * v[1] - u[1] * v[0]]


class Hull:
    """supporting half-spaces n.(x - v) >= 0 of every cell (convex hull of its vertices), vectorised over the cells."""

    def __init__(self, m):
        P = m.p[:, m.t].astype(float)                           # (d, nv, nc)
        d, nv, nc = P.shape
        diam = np.max(P.max(1) - P.min(1), axis=0)              # (nc,)
        n_, v_, h_, on_ = [], [], [], []
        for S in itertools.combinations(range(nv), d):
            n = np.array(normal([P[:, s, :] for s in S]))       # (d, nc)
            ln = np.sqrt((n ** 2).sum(0))
            good = ln > 1e-13 * diam ** (d - 1)
            n = n / np.where(good, ln, 1.0)
            s = np.einsum("dc,dvc->vc", n, P - P[:, [S[0]], :])  # signed distance of the cell's own vertices
            sign = np.where((s >= -1e-12 * diam).all(0), 1.0, np.where((s <= 1e-12 * diam).all(0), -1.0, 0.0)) * good
            n_.append(n * sign), v_.append(P[:, S[0], :]), h_.append((s * sign).max(0)), on_.append((np.abs(s) <= 1e-12 * diam) & (sign != 0))
        self.n, self.v, self.h, self.on = np.array(n_), np.array(v_), np.array(h_), np.array(on_)   # (f,d,nc) (f,d,nc) (f,nc) (f,nv,nc)
        self.P = P

    def inward(self, x):
        """x (d,n) -> (dist, rel), both (nc,n): min over the cell's faces of the inward distance, absolute and relative to the cell's extent."""
        D = np.einsum("fdc,dj->fcj", self.n, x) - np.einsum("fdc,fdc->fc", self.n, self.v)[:, :, None]
        valid = (self.h > 0)[:, :, None]
        return np.where(valid, D, np.inf).min(0), np.where(valid, D / np.where(self.h > 0, self.h, 1.0)[:, :, None], np.inf).min(0)

    def faces(self, c):
        """vertex index sets of the faces of cell c."""
        return sorted({tuple(np.nonzero(o)[0]) for o in self.on[:, :, c] if o.any()})


def exact_inside(Pc, x):
    """exact rational arithmetic: x in the convex hull of the rows of Pc?  None if a face is planar only up to rounding (hull != cell)."""
    V = [[Fraction(float(t)) for t in row] for row in Pc]
    X = [Fraction(float(t)) for t in x]
    d = len(X)
    for S in itertools.combinations(range(len(V)), d):
        n = normal([V[s] for s in S])
        if not any(n):
            continue
        s = [sum(n[i] * (v[i] - V[S[0]][i]) for i in range(d)) for v in V]
        sx = sum(n[i] * (X[i] - V[S[0]][i]) for i in range(d))
        if min(s) >= 0 or max(s) <= 0:
            if (sx < 0 and min(s) >= 0) or (sx > 0 and max(s) <= 0):
                return False
        elif min(float(max(s)), float(-min(s))) < 1e-9 * float(max(abs(t) for t in s)):
            return None
    return True


def in_domain(hull, x, rel):
    """True where the point certainly belongs to the closed meshed domain: well inside a cell, or exactly inside one (rational test)."""
    must = rel.max(0) >= 1e-6
    for j in np.nonzero(~must)[0]:
        must[j] = any(exact_inside(hull.P[:, :, c].T, x[:, j]) is True for c in np.nonzero(rel[:, j] >= -TOL)[0])
    return must


def make_points(m, hull, rng, n_int, n_vert, n_fac):
    """interior points (all convex weights >= .02), mesh vertices, points on faces / edges / face diagonals (convex combinations)."""
    P = hull.P
    d, nv, nc = P.shape
    pts, kinds = [], []
    for _ in range(n_int):
        w = .02 + rng.dirichlet(np.ones(nv)) * (1 - .02 * nv)
        pts.append(P[:, :, rng.randint(nc)] @ w), kinds.append("interior")
    used = np.unique(m.t)
    for v in rng.permutation(used)[:n_vert]:
        pts.append(m.p[:, v].astype(float)), kinds.append("vertex")
    for i in range(n_fac):
        c = rng.randint(nc)
        F = hull.faces(c)
        f = np.array(F[rng.randint(len(F))])
        if i % 3 == 1 and len(f) > 1:
            f = rng.permutation(f)[:2]
        w = np.ones(len(f)) / len(f) if i % 3 == 0 else rng.dirichlet(np.ones(len(f)))
        pts.append(P[:, f, c] @ w), kinds.append("face" if i % 3 != 1 else "edge/diagonal")
    return np.array(pts).T, kinds


def outside_points(hull, rng, n):
    """points whose distance to every cell exceeds 0.1 (outward distance to one supporting plane > 0.1), incl. notches / holes; plus far points."""
    lo, hi = hull.P.min((1, 2)), hull.P.max((1, 2))
    x = lo[:, None] - .6 + rng.rand(len(lo), 40 * n) * (hi - lo + 1.2)[:, None]
    x = np.hstack([x, (hi + 100.)[:, None], (lo - 1e6)[:, None]])
    dist, _ = hull.inward(x)
    x = x[:, (dist < -0.1).all(0)]
    inner = ((x > lo[:, None]) & (x < hi[:, None])).all(0)          # prefer points inside the bounding box (notches, holes)
    return x[:, np.argsort(~inner, kind="stable")[:n]][:, ::-1]


# ---------- clauses on the element finder ----------
def clause_contains(finder, x, rel, what):
    """FIND-CONTAINS: for points of the domain the finder returns, per point and in order, a cell containing it."""
    try:
        r = np.asarray(finder(*x))
    except Exception as e:
        return ["%s: finder raised %s (%s) for a query of %d point(s) of the closed meshed domain (first: %s)"
                % (what, type(e).__name__, e, x.shape[1], x[:, 0].tolist())]
    if r.shape != (x.shape[1],) or r.dtype.kind not in "iu" or (r < 0).any() or (r >= rel.shape[0]).any():
        return ["%s: finder returned shape %s dtype %s range [%s,%s] for %d points" % (what, r.shape, r.dtype, r.min(), r.max(), x.shape[1])]
    bad = np.nonzero(rel[r, np.arange(len(r))] < -TOL)[0]
    return ["%s: point %s located in cell %d which does not contain it (relative inward distance %.3e)"
            % (what, x[:, j].tolist(), r[j], rel[r[j], j]) for j in bad[:2]]


def clause_outside(finder, x, what):
    """FIND-OUTSIDE: for a query containing a point farther than 0.1 from the mesh the finder raises and returns no cell."""
    try:
        r = finder(*x)
    except Exception:
        return []
    return ["%s: finder returned %s instead of raising; query %s contains a point at distance > 0.1 from every cell"
            % (what, np.asarray(r).tolist()[:6], x.T.tolist()[:3])]


def check_finder(m, rng, tier):
    import skfem as fem
    big = tier != "quick"
    hull = Hull(m)
    x, kinds = make_points(m, hull, rng, 60 if big else 25, 40 if big else 15, 90 if big else 36)
    _, rel = hull.inward(x)
    must = in_domain(hull, x, rel)
    out = outside_points(hull, rng, 30 if big else 10)
    fails = []
    explicit = fem.MappingAffine(m) if m.affine else fem.MappingIsoparametric(m, m.elem(), m.bndelem)
    for vname, kw in (("element_finder()", {}), ("element_finder(mapping=)", dict(mapping=explicit))):
        finder = m.element_finder(**kw)
        found = must.copy()
        for j in range(x.shape[1]):                                                             # one point per call; rim points may raise
            if must[j] or j % 2 == 0:
                f = clause_contains(finder, x[:, [j]], rel[:, [j]], "%s single %s point" % (vname, kinds[j]))
                fails += f if must[j] else [t for t in f if "does not contain" in t]
                found[j] &= not f
        idx = np.nonzero(found)[0]                                                              # batch: any order, with repetitions
        idx = rng.permutation(np.concatenate([idx, idx[rng.randint(len(idx), size=8)]]))
        fails += clause_contains(finder, x[:, idx], rel[:, idx], vname + " batch")
        fails += clause_contains(finder, x[:, idx[[0, 0]]], rel[:, idx[[0, 0]]], vname + " same point twice")
        for o in range(out.shape[1]):
            fails += clause_outside(finder, out[:, [o]], vname + " single outside point")
        if out.shape[1]:
            mixed = np.hstack([x[:, idx[:5]], out[:, :1], x[:, idx[5:9]]])
            fails += clause_outside(finder, mixed, vname + " outside point among inside points")
            fails += clause_outside(m.element_finder(**kw), out[:, ::-1], vname + " only outside points")
    return fails, dict(points=int(x.shape[1]), certain=int(must.sum()), outside=int(out.shape[1]))


# ---------- clauses on probes / interpolator / point_source ----------
def local_expansions(basis, x, cand):
    """for point j and every cell k containing it: the (components x N) matrix taking y to sum_i y[dofs[i,k]] phi_i(x_j), cell by cell."""
    E = {}
    for k in np.nonzero(cand.any(1))[0]:
        J = np.nonzero(cand[k])[0]
        Xl = basis.mapping.invF(x[:, None, J], tind=np.array([k]))
        R = None
        for i in range(basis.Nbfun):
            phi = np.asarray(basis.elem.gbasis(basis.mapping, Xl, i, tind=np.array([k]))[0].value)
            cshape = phi.shape[:-2]
            phi = phi.reshape(-1, len(J))
            if R is None:
                R = np.zeros((len(J), phi.shape[0], basis.N))
            R[:, :, basis.element_dofs[i, k]] += phi.T
        for jj, j in enumerate(J):
            E.setdefault(int(j), []).append(R[jj])
    return E, cshape


def close(a, b):
    return a.shape == b.shape and np.abs(a - b).max() <= VTOL * max(1.0, np.abs(b).max())


def clause_values(got, E, idx, what, y=None):
    """EVAL-EXACT: the rows for point j (component-major layout) equal the local expansion of some cell containing x_j."""
    n = len(idx)
    got = np.asarray(got)
    fails = []
    for jj, j in enumerate(idx):
        g = got[jj::n] if y is None else got.reshape(-1, n)[:, jj]
        if not any(close(g, e if y is None else e @ y) for e in E[j]):
            fails.append("%s: values for point #%d differ from the local expansion of every cell containing it (max diff %.3e)"
                         % (what, jj, min(np.abs(g - (e if y is None else e @ y)).max() for e in E[j])))
            if len(fails) == 2:
                break
    return fails


def check_element(m, make_elem, rng, tier):
    import skfem as fem
    big = tier != "quick"
    hull = Hull(m)
    x, kinds = make_points(m, hull, rng, 24 if big else 10, 16 if big else 8, 30 if big else 12)
    _, rel = hull.inward(x)
    x = x[:, in_domain(hull, x, rel)]
    x = x[:, rng.permutation(x.shape[1])]
    _, rel = hull.inward(x)
    basis = fem.CellBasis(m, make_elem())
    N = basis.N
    y = rng.uniform(-1, 1, N)
    E, cshape = local_expansions(basis, x, rel >= -TOL)
    comp = int(np.prod(cshape))
    h = x.shape[1] // 2
    # two point sets of equal size, any order, with repetitions
    i1 = rng.permutation(np.concatenate([np.arange(h), rng.randint(h, size=5)]))
    i2 = rng.permutation(np.concatenate([np.arange(h, 2 * h), h + rng.randint(h, size=5)]))
    fails = []
    res = {}
    for name, idx in (("first set", i1), ("second set on the same basis", i2), ("single point", i1[:1]), ("same point twice", i2[[0, 0]])):
        try:
            P = basis.probes(x[:, idx])
        except Exception as e:
            fails.append("probes(%s) raised %s (%s) for points of the closed meshed domain, first: %s" % (name, type(e).__name__, e, x[:, idx[0]].tolist()))
            continue
        if P.shape != (comp * len(idx), N):
            fails.append("probes(%s): shape %s, expected (%d components * %d points, N=%d)" % (name, P.shape, comp, len(idx), N))
            continue
        res[name] = P.toarray()
        fails += clause_values(res[name], E, idx, "probes(%s) matrix" % name)
        I = basis.interpolator(y)(x[:, idx])
        if I.shape != tuple(cshape) + (len(idx),):
            fails.append("interpolator(y)(%s): shape %s, expected %s" % (name, I.shape, tuple(cshape) + (len(idx),)))
            continue
        res[name + "/I"] = I
        fails += clause_values(I, E, idx, "interpolator(y)(%s)" % name, y)
    # EVAL-FRESH: the second evaluation on a used basis equals the evaluation on a fresh mesh + basis
    fresh = fem.CellBasis(type(m)(m.p.copy(), m.t.copy()), make_elem())
    if "second set on the same basis" in res and not np.array_equal(res["second set on the same basis"], fresh.probes(x[:, i2]).toarray()):
        fails.append("probes: second point set on a used basis differs from the result of a fresh basis")
    if "second set on the same basis/I" in res and not np.array_equal(res["second set on the same basis/I"], fresh.interpolator(y)(x[:, i2])):
        fails.append("interpolator: second point set on a used basis differs from the result of a fresh basis")
    # POINT-SOURCE (scalar elements): the vector is the probing row of the point
    if comp == 1 and not cshape:
        for j in i1[:4]:
            b = np.asarray(basis.point_source(x[:, j]))
            if b.shape != (N,) or not any(close(b, e[0]) for e in E[j]):
                fails.append("point_source(%s): shape %s / entries differ from phi_i(x) of the containing cell" % (x[:, j].tolist(), b.shape))
    # QUAD-POINTS: at the global quadrature points the interpolator agrees with basis.interpolate(y)
    xq = basis.mapping.F(basis.X)                                   # (d, ncells, nqp)
    want = np.asarray(basis.interpolate(y).value)
    got = basis.interpolator(y)(xq.reshape(xq.shape[0], -1))
    if got.size != want.size or not close(np.asarray(got).reshape(want.shape), want):
        fails.append("interpolator(y) at the quadrature points differs from basis.interpolate(y) (max diff %s)"
                     % (np.abs(np.asarray(got).reshape(want.shape) - want).max() if got.size == want.size else "shape %s" % (got.shape,)))
    if not cshape:
        got3 = basis.interpolator(y)(xq)                            # trailing-axes form (scalar elements)
        if got3.shape != want.shape or not close(got3, want):
            fails.append("interpolator(y)(x of shape (d, cells, qp)) differs from basis.interpolate(y)")
    return fails, dict(points=int(x.shape[1]), N=int(N), components=comp)


# ---------- the enumerated family ----------
def extra_meshes(tier):
    """graded / anisotropic / sheared / tapered cells and non-convex domains (hole, L); all coordinates dyadic -> faces exactly planar."""
    import skfem as fem
    g = np.array([0., 1 / 64, 1 / 8, 1.])
    u = np.array([0., .25, .75, 1.])
    out = [("line-graded", fem.MeshLine(np.array([0., 1 / 64, 1 / 8, .5, 2.])))]

    def shear(m, f):
        return type(m)(f(m.p.copy()), m.t.copy())

    def drop(m, pred):
        return m.remove_elements(np.nonzero(pred(m.p[:, m.t].mean(1)))[0])
    centre = lambda c: (abs(c[0] - .5) < .25) & (abs(c[1] - .5) < .25)      # noqa: E731
    corner = lambda c: (c[0] > .5) & (c[1] > .5)                            # noqa: E731
    tri = fem.MeshTri.init_tensor(g, np.array([0., .5, 1.]))
    out.append(("tri-graded-aniso", tri))
    out.append(("tri-graded-sheared", shear(tri, lambda p: np.array([p[0] + .5 * p[1], p[1]]))))
    out.append(("tri-hole", drop(fem.MeshTri.init_tensor(u, u), centre)))
    quad = fem.MeshQuad.init_tensor(np.array([0., 1 / 16, .5, 1.]), np.array([0., .5, 1.]))
    out.append(("quad-trapezoids", shear(quad, lambda p: np.array([p[0] * (1 - .5 * p[1]), p[1] + .25 * p[0]]))))
    out.append(("quad-hole", drop(fem.MeshQuad.init_tensor(u, u), centre)))
    h = np.array([0., .5, 1.])
    out.append(("tet-graded-sheared", shear(fem.MeshTet.init_tensor(np.array([0., 1 / 16, 1.]), h, np.array([0., 1.])),
                                            lambda p: np.array([p[0] + .5 * p[2], p[1], p[2]]))))
    out.append(("tet-L", drop(fem.MeshTet.init_tensor(h, h, np.array([0., 1.])), corner)))
    taper = lambda p: np.array([.5 + (p[0] - .5) * (1 - .5 * p[2]), .5 + (p[1] - .5) * (1 - .5 * p[2]), p[2]])   # noqa: E731
    out.append(("hex-frusta-L", shear(drop(fem.MeshHex.init_tensor(h, h, h), corner), taper)))
    out.append(("wedge-graded-sheared", shear(fem.MeshTri.init_tensor(np.array([0., 1 / 8, 1.]), h) * fem.MeshLine(np.array([0., 1 / 8, 1.])),
                                              lambda p: np.array([p[0] + .5 * p[2], p[1], p[2]]))))
    return out


def elements_for(m):
    import skfem as fem
    n = type(m).__name__
    if n.startswith("MeshLine"):
        return [("LineP1", fem.ElementLineP1), ("LineP2", fem.ElementLineP2)]
    if n.startswith("MeshTri"):
        return [("TriP1", fem.ElementTriP1), ("TriP2", fem.ElementTriP2), ("Vector(TriP2)", lambda: fem.ElementVector(fem.ElementTriP2())),
                ("TriRT1", fem.ElementTriRT1), ("TriN1", fem.ElementTriN1),
                ("Vector(Vector(TriP1))", lambda: fem.ElementVector(fem.ElementVector(fem.ElementTriP1())))]
    if n.startswith("MeshQuad"):
        return [("Quad1", fem.ElementQuad1), ("Quad2", fem.ElementQuad2)]
    if n.startswith("MeshTet"):
        return [("TetP1", fem.ElementTetP1), ("TetP2", fem.ElementTetP2)]
    if n.startswith("MeshHex"):
        return [("Hex1", fem.ElementHex1)]
    return [("Wedge1", fem.ElementWedge1)]


def all_meshes(tier, seed):
    yield from Z.zoo(tier, seed)
    rng = np.random.RandomState(2000 + seed)
    for label, m in extra_meshes(tier):
        yield label, m
        for v in range(1 if tier == "quick" else 3):
            yield "%s~r%d" % (label, v), Z.renumbered(m, rng)[0]


def run(payload):
    tier, seed, only = payload.get("tier", "quick"), int(payload.get("seed", 0)), payload.get("only")
    master = np.random.RandomState(seed)
    cases, failures, samples = 0, [], []
    for mlabel, m in all_meshes(tier, seed):
        for ename, make in [("finder", None)] + elements_for(m):
            label = "%s|%s" % (mlabel, ename)
            sub = master.randint(2 ** 31 - 1)                  # one sub-seed per case, drawn in enumeration order -> replayable with "only"
            if only and only != label:
                continue
            cases += 1
            rng = np.random.RandomState(sub)
            try:
                fl, info = check_finder(m, rng, tier) if make is None else check_element(m, make, rng, tier)
            except Exception as e:
                import traceback
                fl, info = ["exception %s: %s | %s" % (type(e).__name__, e, traceback.format_exc()[-400:])], {}
            if len(samples) < 3:
                samples.append(dict(case=label, cells=int(m.t.shape[1]), **info))
            for f in fl[:3]:
                failures.append(dict(input=dict(case=label, p=m.p.tolist() if m.p.size < 80 else "see zoo/extra_meshes", t=m.t.tolist() if m.t.size < 120 else "see zoo/extra_meshes"),
                                     observed=f, replay=dict(kind="points_case", only=label, tier=tier, seed=seed)))
    q = tier == "quick"
    bound = (Z.describe(tier) + "; plus graded/anisotropic/sheared/tapered and non-convex (hole, L) meshes %s, each also under %d renumberings. "
             "Per mesh one finder case (with and without mapping=): %d interior + up to %d vertex + %d face/edge/diagonal points queried as a shuffled batch with "
             "repetitions, one by one and twice, and up to %d points farther than 0.1 from every cell (bounding box +0.6 incl. holes/notches, far points) "
             "alone and mixed into batches; and one case per element (%s): probes / interpolator / point_source on two equal-size shuffled point sets with "
             "repetitions (%d+%d+%d generated points), a single point, a point twice, a fresh-basis comparison, and all quadrature points vs interpolate(); "
             "random coefficient vector (probes matrix itself is compared, i.e. all coefficient vectors)."
             % ([l for l, _ in extra_meshes(tier)], 1 if q else 3, 25 if q else 60, 15 if q else 40, 36 if q else 90, 10 if q else 30,
                "Line P1 P2; Tri P1 P2 Vector(P2) RT1 N1 Vector(Vector(P1)); Quad 1 2; Tet P1 P2; Hex1; Wedge1", 10 if q else 24, 8 if q else 16, 12 if q else 30))
    return dict(cases=cases, failures=failures[:20], samples=samples, nontrivial=cases, bound=bound)


def replay_points_case(sp):
    r = run(dict(only=sp["only"], tier=sp.get("tier", "quick"), seed=sp.get("seed", 0)))
    return dict(confirmed=bool(r["failures"]), observed=[f["observed"] for f in r["failures"]][:3], input=sp["only"])


if __name__ == "__main__":
    print("\n@@JSON@@" + json.dumps(run(json.load(sys.stdin)), default=str))
