"""Bounded stand-in for C14 (run under /venv): point location and point evaluation of discrete functions are exact.
Oracle, independent of the finder / probes code: every generated cell is convex with planar faces, hence equal to the convex hull of
its vertices; its supporting half-spaces are found by brute force over all d-subsets of the cell's vertices (no reference-cell tables).
Containment uses those half-spaces (relative tolerance 1e-9 = barycentric coordinates for simplices); whether a point on the rim of a
cell belongs to the closed domain is decided in exact rational arithmetic.  Expected point values are the local expansion
sum_i y[dofs[i,k]] phi_i(x), evaluated cell by cell with element.gbasis(mapping, mapping.invF(x, tind=[k]), i, tind=[k])."""
import itertools
import json
import sys
from fractions import Fraction

import numpy as np

from native import zoo as Z

TOL = 1e-9        # containment tolerance (relative to the cell's extent across the face = barycentric coordinate for simplices)
VTOL = 1e-10      # relative tolerance on evaluated values


def normal(a):
    """normal of the hyperplane through the d points a[0..d-1] of R^d (works for floats, arrays over cells and Fractions)."""
    d = len(a)
    if d == 1:
        return [1 + 0 * a[0][0]]
    u = [a[1][i] - a[0][i] for i in range(d)]
    if d == 2:
        return [-u[1], u[0]]
    v = [a[2][i] - a[0][i] for i in range(d)]
    return [u[1] * v[2] - u[2] * v[1], u[2] * v[0] - u[0] * v[2], u[0] * v[1] - u[1] * v[0]]


class Hull:
    """supporting half-spaces n.(x - v) >= 0 of every cell (= convex hull of its vertices), vectorised over the cells."""

    def __init__(self, m):
        P = self.P = m.p[:, m.t].astype(float)                   # (d, nv, nc)
        d, nv, nc = P.shape
        diam = np.max(P.max(1) - P.min(1), axis=0)               # (nc,)
        n_, v_, h_, on_ = [], [], [], []
        for S in itertools.combinations(range(nv), d):
            n = np.array(normal([P[:, s, :] for s in S]))        # (d, nc)
            ln = np.sqrt((n ** 2).sum(0))
            good = ln > 1e-13 * diam ** (d - 1)
            n = n / np.where(good, ln, 1.0)
            s = np.einsum("dc,dvc->vc", n, P - P[:, [S[0]], :])   # signed distances of the cell's own vertices
            sign = np.where((s >= -1e-12 * diam).all(0), 1.0, np.where((s <= 1e-12 * diam).all(0), -1.0, 0.0)) * good
            n_.append(n * sign), v_.append(P[:, S[0], :]), h_.append((s * sign).max(0)), on_.append((np.abs(s) <= 1e-12 * diam) & (sign != 0))
        self.n, self.v, self.h, self.on = np.array(n_), np.array(v_), np.array(h_), np.array(on_)   # (f,d,nc) (f,d,nc) (f,nc) (f,nv,nc)
        self._exact = {}

    def inward(self, x):
        """x (d,n) -> (dist, rel), both (nc,n): min over the cell's faces of the inward distance, absolute / relative to the cell's extent."""
        D = np.einsum("fdc,dj->fcj", self.n, x) - np.einsum("fdc,fdc->fc", self.n, self.v)[:, :, None]
        valid = (self.h > 0)[:, :, None]
        return np.where(valid, D, np.inf).min(0), np.where(valid, D / np.where(self.h > 0, self.h, 1.0)[:, :, None], np.inf).min(0)

    def faces(self, c):
        """vertex index sets of the faces of cell c."""
        return sorted({tuple(np.nonzero(o)[0]) for o in self.on[:, :, c] if o.any()})

    def exactly_inside(self, c, x):
        """exact rational arithmetic: x in cell c?  (None if some face of the cell is planar only up to rounding, i.e. hull != cell)"""
        if c not in self._exact:
            V = [[Fraction(float(t)) for t in row] for row in self.P[:, :, c].T]
            d, planes = len(V[0]), []
            for S in itertools.combinations(range(len(V)), d):
                n = normal([V[s] for s in S])
                s = [sum(n[i] * (v[i] - V[S[0]][i]) for i in range(d)) for v in V]
                if any(n) and (min(s) >= 0 or max(s) <= 0):
                    planes.append((n, V[S[0]], 1 if min(s) >= 0 else -1))
                elif any(n) and min(float(max(s)), float(-min(s))) < 1e-9 * float(max(abs(t) for t in s)):
                    planes = None
                    break
            self._exact[c] = planes
        X, pl = [Fraction(float(t)) for t in x], self._exact[c]
        return None if pl is None else all(sg * sum(n[i] * (X[i] - v[i]) for i in range(len(X))) >= 0 for n, v, sg in pl)


def in_domain(hull, x, rel):
    """True where the point certainly belongs to the closed meshed domain: well inside a cell, or exactly inside one (rational test)."""
    must = rel.max(0) >= 1e-6
    for j in np.nonzero(~must)[0]:
        must[j] = any(hull.exactly_inside(c, x[:, j]) is True for c in np.nonzero(rel[:, j] >= -TOL)[0])
    return must


def make_points(m, hull, rng, n_int, n_vert, n_fac):
    """interior points (all convex weights >= .02), mesh vertices, points on faces / edges / face diagonals (convex combinations)."""
    P = hull.P
    d, nv, nc = P.shape
    pts, kinds = [], []
    for _ in range(n_int):
        w = .02 + rng.dirichlet(np.ones(nv)) * (1 - .02 * nv)
        pts.append(P[:, :, rng.randint(nc)] @ w), kinds.append("interior")
    for v in rng.permutation(np.unique(m.t))[:n_vert]:
        pts.append(m.p[:, v].astype(float)), kinds.append("vertex")
    for i in range(n_fac):
        c = rng.randint(nc)
        F = hull.faces(c)
        f = np.array(F[rng.randint(len(F))])
        if i % 3 == 1 and len(f) > 1:
            f = rng.permutation(f)[:2]
        w = np.ones(len(f)) / len(f) if i % 3 == 0 else rng.dirichlet(np.ones(len(f)))
        pts.append(P[:, f, c] @ w), kinds.append("face" if i % 3 != 1 else "edge/diagonal")
    return np.array(pts).T, kinds


def outside_points(hull, rng, n):
    """points farther than 0.1 from every cell (outward distance to a supporting plane > 0.1): holes / notches first, then around, then far."""
    lo, hi = hull.P.min((1, 2)), hull.P.max((1, 2))
    x = lo[:, None] - .6 + rng.rand(len(lo), 40 * n) * (hi - lo + 1.2)[:, None]
    x = np.hstack([x, (hi + 100.)[:, None], (lo - 1e6)[:, None]])
    x = x[:, (hull.inward(x)[0] < -0.1).all(0)]
    inner = ((x > lo[:, None]) & (x < hi[:, None])).all(0)
    a, b = x[:, inner][:, :n // 2], x[:, ~inner]
    return np.hstack([a, b[:, :n - a.shape[1] - 2], b[:, -2:]])


# ---------- clauses on the element finder ----------
def clause_contains(finder, x, rel, what):
    """FIND-CONTAINS: for points of the closed domain the finder returns, per point and in order, a cell that contains the point."""
    try:
        r = np.asarray(finder(*x))
    except Exception as e:
        return ["[FIND-CONTAINS] %s: finder raised %s (%s) for a query of %d point(s) of the closed meshed domain (first: %s)"
                % (what, type(e).__name__, e, x.shape[1], x[:, 0].tolist())]
    if r.shape != (x.shape[1],) or r.dtype.kind not in "iu" or (r < 0).any() or (r >= rel.shape[0]).any():
        return ["[FIND-CONTAINS] %s: finder returned %s (dtype %s) for %d points, %d cells" % (what, r.tolist()[:8], r.dtype, x.shape[1], rel.shape[0])]
    bad = np.nonzero(rel[r, np.arange(len(r))] < -TOL)[0]
    return ["[FIND-CONTAINS] %s: point %s located in cell %d which does not contain it (relative inward distance %.3e)"
            % (what, x[:, j].tolist(), r[j], rel[r[j], j]) for j in bad[:2]]


def clause_outside(finder, x, what):
    """FIND-OUTSIDE: for a query containing a point farther than 0.1 from the mesh the finder raises and returns no cell."""
    try:
        r = finder(*x)
    except Exception:
        return []
    return ["[FIND-OUTSIDE] %s: finder returned %s instead of raising; the query %s contains a point at distance > 0.1 from every cell"
            % (what, np.asarray(r).tolist()[:6], x.T.tolist()[:3])]


def check_finder(m, rng, tier):
    import skfem as fem
    hull = Hull(m)
    x, kinds = make_points(m, hull, rng, *((40, 20, 60) if tier == "quick" else (100, 50, 150)))
    rel = hull.inward(x)[1]
    must = in_domain(hull, x, rel)
    out = outside_points(hull, rng, 10 if tier == "quick" else 30)
    fails = []
    explicit = fem.MappingAffine(m) if m.affine else fem.MappingIsoparametric(m, m.elem(), m.bndelem)
    for vname, kw in (("element_finder()", {}), ("element_finder(mapping=)", dict(mapping=explicit))):
        finder = m.element_finder(**kw)
        found = must.copy()
        for j in range(x.shape[1]):                 # one point per call; points that are on the rim only up to rounding may raise
            if must[j] or j % 2 == 0:
                f = clause_contains(finder, x[:, [j]], rel[:, [j]], "%s single %s point" % (vname, kinds[j]))
                fails += f if must[j] else [t for t in f if "does not contain" in t]
                found[j] &= not f
        idx = np.nonzero(found)[0]                  # batch of the points located one by one: any order, with repetitions
        if len(idx) == 0:
            continue
        idx = rng.permutation(np.concatenate([idx, idx[rng.randint(len(idx), size=8)]]))
        fails += clause_contains(finder, x[:, idx], rel[:, idx], vname + " batch of points that are each located when queried alone")
        fails += clause_contains(finder, x[:, idx[[0, 0]]], rel[:, idx[[0, 0]]], vname + " same point twice")
        for o in range(out.shape[1]):
            fails += clause_outside(finder, out[:, [o]], vname + " single outside point")
        mixed = np.hstack([x[:, idx[:5]], out[:, :1], x[:, idx[5:9]]])
        fails += clause_outside(finder, mixed, vname + " outside point among inside points")
        fails += clause_outside(m.element_finder(**kw), out[:, ::-1], vname + " only outside points")
    # DERIVED: meshes derived from a mesh whose finder HAS BEEN USED (refined, translated, scaled) locate points in their own cells
    d = m.p.shape[0]
    derived = [("translated", lambda q: q.translated((.37,) * d)), ("scaled", lambda q: q.scaled((1.5,) + (.75,) * (d - 1)))]
    if hasattr(m, "refined") and type(m).__name__ != "MeshWedge1" and m.t.shape[1] <= 64:
        derived.append(("refined", lambda q: q.refined(1)))
    for dname, mk in derived:
        try:
            md = mk(m)
            hd = Hull(md)
            xd, kd_ = make_points(md, hd, rng, 12, 0, 0)
            reld = hd.inward(xd)[1]
            fails += clause_contains(md.element_finder(), xd, reld, "finder of m.%s() after m's own finder was used" % dname)
        except NotImplementedError:
            pass
    return fails, dict(points=int(x.shape[1]), certainly_in_domain=int(must.sum()), outside=int(out.shape[1]))


# ---------- clauses on probes / interpolator / point_source ----------
def local_expansions(basis, x, cand):
    """for point j and every cell k containing it: the (components x N) matrix taking y to sum_i y[dofs[i,k]] phi_i(x_j), cell by cell."""
    E = {}
    for k in np.nonzero(cand.any(1))[0]:
        J, tk = np.nonzero(cand[k])[0], np.array([k])
        Xl = basis.mapping.invF(x[:, None, J], tind=tk)
        R = None
        for i in range(basis.Nbfun):
            phi = np.asarray(basis.elem.gbasis(basis.mapping, Xl, i, tind=tk)[0].value)
            cshape = phi.shape[:-2]
            phi = phi.reshape(-1, len(J))
            R = np.zeros((len(J), phi.shape[0], basis.N)) if R is None else R
            R[:, :, basis.element_dofs[i, k]] += phi.T
        for jj, j in enumerate(J):
            E.setdefault(int(j), []).append(R[jj])
    return E, tuple(cshape)


def close(a, b):
    return a.shape == b.shape and np.abs(a - b).max() <= VTOL * max(1.0, np.abs(b).max())


def clause_values(got, E, idx, what, y=None):
    """EVAL-EXACT: the rows / values for point j (component-major layout) equal the local expansion of some cell containing x_j."""
    n, fails = len(idx), []
    for jj, j in enumerate(idx):
        g = got[jj::n] if y is None else got.reshape(-1, n)[:, jj]
        want = [e if y is None else e @ y for e in E[j]]
        if not any(close(g, w) for w in want):
            fails.append("[EVAL-EXACT] %s: result for point #%d differs from the local expansion of every cell containing it (max diff %.3e)"
                         % (what, jj, min(np.abs(g - w).max() for w in want)))
    return fails[:2]


def check_element(m, make_elem, rng, tier):
    import skfem as fem
    hull = Hull(m)
    x, _ = make_points(m, hull, rng, *((12, 8, 16) if tier == "quick" else (40, 24, 60)))
    rel = hull.inward(x)[1]
    keep = rng.permutation(np.nonzero(in_domain(hull, x, rel))[0])
    x, rel = x[:, keep], rel[:, keep]
    basis = fem.CellBasis(m, make_elem())
    N, y = basis.N, rng.uniform(-1, 1, basis.N)
    E, cshape = local_expansions(basis, x, rel >= -TOL)
    comp, fails = int(np.prod(cshape)), []

    def evaluate(b, idx, what, both=True):
        """probes(x).toarray() and interpolator(y)(x) on the points idx, checked for shape and EVAL-EXACT (None where unusable)."""
        res = []
        for kind, fn, shape in (("probes", lambda: b.probes(x[:, idx]).toarray(), (comp * len(idx), N)),
                                ("interpolator(y)", lambda: np.asarray(b.interpolator(y)(x[:, idx])), cshape + (len(idx),)))[:1 + both]:
            try:
                r = fn()
                if r.shape != shape:
                    fails.append("[EVAL-SHAPE] %s(%s) has shape %s, expected %s (%d components, %d points, N=%d)" % (kind, what, r.shape, shape, comp, len(idx), N))
                    r = None
            except Exception as e:
                fails.append("[FIND-CONTAINS] %s(%s) raised %s (%s) for %d point(s) of the closed meshed domain (first: %s)"
                             % (kind, what, type(e).__name__, e, len(idx), x[:, idx[0]].tolist()))
                r = None
            if r is not None:
                fails.extend(clause_values(r, E, idx, "%s(%s)" % (kind, what), None if kind == "probes" else y))
            res.append(r)
        return res
    # any number: every point on its own (interpolator: the first 4); the sets below use the points that can be located alone
    ok = np.array([j for j in range(x.shape[1]) if evaluate(basis, np.array([j]), "single point", j < 4)[0] is not None], dtype=int)
    h = len(ok) // 2
    if h == 0:
        return fails + ["[FIND-CONTAINS] fewer than two of the %d points of the closed domain could be evaluated alone" % x.shape[1]], {}
    i1 = rng.permutation(np.concatenate([ok[:h], ok[rng.randint(h, size=5)]]))              # any order, with repetitions
    i2 = rng.permutation(np.concatenate([ok[h:2 * h], ok[h + rng.randint(h, size=5)]]))     # a different set of the same size
    evaluate(basis, i1, "first set")
    evaluate(basis, i1[[0, 0]], "same point twice")
    # EVAL-FRESH: the second set evaluated on the used basis equals its evaluation on a fresh mesh + basis (rim points: any containing cell)
    second = evaluate(basis, i2, "second set on the used basis")
    fresh = evaluate(fem.CellBasis(type(m)(m.p.copy(), m.t.copy()), make_elem()), i2, "second set on a fresh basis")
    for a, b, kind in zip(second, fresh, ("probes", "interpolator")):
        if a is not None and b is not None:
            diff = np.abs(a - b).reshape(comp, len(i2), -1).max((0, 2))
            if any(dj > VTOL * max(1.0, np.abs(b).max()) and len(E[j]) == 1 for dj, j in zip(diff, i2)):
                fails.append("[EVAL-FRESH] %s: second point set on a used basis differs from a fresh basis (max diff %.3e)" % (kind, diff.max()))
    try:
        # POINT-SOURCE (scalar elements): the vector of a point holds phi_i(x) of a containing cell at dofs[i,k] and zero elsewhere
        for j in (ok[:6] if cshape == () else []):
            b = np.asarray(basis.point_source(x[:, j]))
            if b.shape != (N,) or not any(close(b, e[0]) for e in E[j]):
                fails.append("[POINT-SOURCE] point_source(%s): shape %s / entries differ from phi_i(x) of every containing cell" % (x[:, j].tolist(), b.shape))
        # QUAD-POINTS: at the global quadrature points of every cell the interpolator agrees with basis.interpolate(y)
        xq = basis.mapping.F(basis.X)                                   # (d, ncells, nqp)
        want = np.asarray(basis.interpolate(y).value)
        # the arrangement of the query points in memory is irrelevant: C-contiguous, Fortran-contiguous and strided views of the same (d, ncells, nqp) array
        layouts = [xq.reshape(xq.shape[0], -1)]
        if cshape == ():
            layouts += [xq, np.asfortranarray(xq), np.ascontiguousarray(xq.transpose(0, 2, 1)).transpose(0, 2, 1), np.repeat(xq, 2, axis=2)[:, :, ::2]]
        for xx in layouts:
            got = np.asarray(basis.interpolator(y)(xx))
            if got.size != want.size or not close(got.reshape(want.shape), want):
                fails.append("[QUAD-POINTS] interpolator(y)(x of shape %s) differs from basis.interpolate(y): shape %s, max diff %s"
                             % (xx.shape, got.shape, np.abs(got.reshape(want.shape) - want).max() if got.size == want.size else "n/a"))
    except Exception as e:
        fails.append("[POINT-SOURCE/QUAD-POINTS] point_source / interpolator at located or quadrature points raised %s: %s" % (type(e).__name__, e))
    return fails, dict(points=int(x.shape[1]), N=int(N), components=comp)


# ---------- the enumerated family ----------
def extra_meshes():
    """graded / anisotropic / sheared / tapered cells and non-convex domains (hole, L); all coordinates dyadic -> faces exactly planar."""
    import skfem as fem
    A = np.array
    u, h, g = A([0., .25, .75, 1.]), A([0., .5, 1.]), A([0., 1 / 64, 1 / 8, 1.])
    warp = lambda m, f: type(m)(f(m.p.copy()), m.t.copy())                                          # noqa: E731
    drop = lambda m, pred: m.remove_elements(np.nonzero(pred(m.p[:, m.t].mean(1)))[0])              # noqa: E731
    centre = lambda c: (abs(c[0] - .5) < .25) & (abs(c[1] - .5) < .25)                              # noqa: E731
    corner = lambda c: (c[0] > .5) & (c[1] > .5)                                                    # noqa: E731
    tri = fem.MeshTri.init_tensor(g, h)
    # boundary layer: two huge cells next to a band of > 150 tiny ones (more cells than any fixed-size neighbour search looks at)
    bl = np.concatenate([[0.], .875 + np.arange(81) / 640.])
    return [("line-graded", fem.MeshLine(A([0., 1 / 64, 1 / 8, .5, 2.]))),
            ("tri-boundary-layer", fem.MeshTri.init_tensor(bl, A([0., 1.]))),
            ("quad-boundary-layer", fem.MeshQuad.init_tensor(bl, A([0., 1.]))),
            ("tri-graded-aniso", tri),
            ("tri-graded-sheared", warp(tri, lambda p: A([p[0] + .5 * p[1], p[1]]))),
            ("tri-hole", drop(fem.MeshTri.init_tensor(u, u), centre)),
            ("quad-trapezoids", warp(fem.MeshQuad.init_tensor(A([0., 1 / 16, .5, 1.]), h), lambda p: A([p[0] * (1 - .5 * p[1]), p[1] + .25 * p[0]]))),
            ("quad-hole", drop(fem.MeshQuad.init_tensor(u, u), centre)),
            ("tet-graded-sheared", warp(fem.MeshTet.init_tensor(A([0., 1 / 16, 1.]), h, A([0., 1.])), lambda p: A([p[0] + .5 * p[2], p[1], p[2]]))),
            ("tet-L", drop(fem.MeshTet.init_tensor(h, h, A([0., 1.])), corner)),
            ("hex-frusta-L", warp(drop(fem.MeshHex.init_tensor(h, h, h), corner),
                                  lambda p: A([.5 + (p[0] - .5) * (1 - .5 * p[2]), .5 + (p[1] - .5) * (1 - .5 * p[2]), p[2]]))),
            ("wedge-graded-sheared", warp(fem.MeshTri.init_tensor(A([0., 1 / 8, 1.]), h) * fem.MeshLine(A([0., 1 / 8, 1.])),
                                          lambda p: A([p[0] + .5 * p[2], p[1], p[2]])))]


def elements_for(m):
    import skfem as fem
    n = type(m).__name__
    if n.startswith("MeshTri"):
        return [("TriP1", fem.ElementTriP1), ("TriP2", fem.ElementTriP2), ("Vector(TriP2)", lambda: fem.ElementVector(fem.ElementTriP2())),
                ("TriRT1", fem.ElementTriRT1), ("TriN1", fem.ElementTriN1),
                ("Vector(Vector(TriP1))", lambda: fem.ElementVector(fem.ElementVector(fem.ElementTriP1())))]
    return {"MeshLine1": [("LineP1", fem.ElementLineP1), ("LineP2", fem.ElementLineP2)],
            "MeshQuad1": [("Quad1", fem.ElementQuad1), ("Quad2", fem.ElementQuad2)],
            "MeshTet1": [("TetP1", fem.ElementTetP1), ("TetP2", fem.ElementTetP2)],
            "MeshHex1": [("Hex1", fem.ElementHex1)], "MeshWedge1": [("Wedge1", fem.ElementWedge1)]}[n]


def all_meshes(tier, seed):
    yield from Z.zoo(tier, seed)
    rng = np.random.RandomState(2000 + seed)
    for label, m in extra_meshes():
        yield label, m
        for v in range(1 if tier == "quick" else 3):
            yield "%s~r%d" % (label, v), Z.renumbered(m, rng)[0]


def round_robin(fails, n):
    """at most n failure records, taking turns between the clauses (the text up to ']') so that no clause hides another."""
    groups = {}
    for f in fails:
        groups.setdefault((f if isinstance(f, str) else f["observed"]).split("]")[0], []).append(f)
    return [f for row in itertools.zip_longest(*groups.values()) for f in row if f is not None][:n]


def run(payload):
    tier, seed, only = payload.get("tier", "quick"), int(payload.get("seed", 0)), payload.get("only")
    master = np.random.RandomState(seed)
    cases, failures, samples = 0, [], []
    for mlabel, m in all_meshes(tier, seed):
        for ename, make in [("finder", None)] + elements_for(m):
            label = "%s|%s" % (mlabel, ename)
            rng = np.random.RandomState(master.randint(2 ** 31 - 1))   # one sub-seed per case, drawn in enumeration order -> replayable with "only"
            if only and only != label:
                continue
            cases += 1
            try:
                fl, info = check_finder(m, rng, tier) if make is None else check_element(m, make, rng, tier)
            except Exception as e:
                import traceback
                fl, info = ["[EXCEPTION] %s: %s | %s" % (type(e).__name__, e, traceback.format_exc()[-400:])], {}
            if len(samples) < 3:
                samples.append(dict(case=label, cells=int(m.t.shape[1]), **info))
            small = m.p.size < 80 and m.t.size < 120
            inp = dict(case=label, p=m.p.tolist() if small else "see zoo / extra_meshes", t=m.t.tolist() if small else "see zoo / extra_meshes")
            failures += [dict(input=inp, observed=f, replay=dict(kind="points_case", only=label, tier=tier, seed=seed)) for f in round_robin(fl, 3)]
    q = tier == "quick"
    bound = (Z.describe(tier) + "; plus graded / anisotropic / sheared / tapered meshes and non-convex domains (hole, L) %s, each also under %d renumbering(s). "
             "Per mesh a finder case (element_finder() and element_finder(mapping=)): %s interior / vertex / face-edge-diagonal points of the closed domain queried one by "
             "one, as a shuffled batch with repetitions and twice; %d points farther than 0.1 from every cell (holes, notches, bounding box +0.6, far) alone and in batches. "
             "Per mesh and element (Line P1 P2; Tri P1 P2 Vector(P2) RT1 N1 Vector(Vector(P1)); Quad 1 2; Tet P1 P2; Hex1; Wedge1) a case: probes (whole matrix = all "
             "coefficient vectors) / interpolator (one random vector) on %s such points one by one, as two equal-size shuffled sets with repetitions, a point twice, "
             "used-vs-fresh basis, point_source at 6 points, all quadrature points vs interpolate()."
             % ([name for name, _ in extra_meshes()], 1 if q else 3, "40/20/60" if q else "100/50/150", 10 if q else 30, "12/8/16" if q else "40/24/60"))
    return dict(cases=cases, failures=round_robin(failures, 20), nfailures=len(failures), samples=samples, nontrivial=cases, bound=bound)


def replay_points_case(sp):
    r = run(dict(only=sp["only"], tier=sp.get("tier", "quick"), seed=sp.get("seed", 0)))
    return dict(confirmed=bool(r["failures"]), observed=[f["observed"] for f in r["failures"]][:3], input=sp["only"])


if __name__ == "__main__":
    print("\n@@JSON@@" + json.dumps(run(json.load(sys.stdin)), default=str))
