"""Independent geometric oracles for straight-sided meshes (no use of skfem mappings).
Cells: line(2), tri(3), quad(4, cyclic), tet(4), hex(8, skfem order), wedge(6). All functions take vertex coordinate arrays."""
import itertools

import numpy as np

HEX_FACES = [[0, 1, 4, 2], [0, 2, 6, 3], [0, 3, 5, 1], [2, 4, 7, 6], [1, 5, 7, 4], [3, 6, 7, 5]]
WEDGE_FACES = [[0, 1, 4, 3], [1, 2, 5, 4], [0, 2, 5, 3], [0, 1, 2], [3, 4, 5]]
TET_FACES = [[0, 1, 2], [0, 1, 3], [0, 2, 3], [1, 2, 3]]


def kind_of(m):
    n = type(m).__name__
    for k, v in (("MeshLine", "line"), ("MeshTri", "tri"), ("MeshQuad", "quad"), ("MeshTet", "tet"), ("MeshHex", "hex"), ("MeshWedge", "wedge")):
        if n.startswith(k):
            return v
    raise ValueError(n)


def faces_of(kind, P):
    """list of faces (each an (nv, dim) array of vertex coordinates, cyclic order) of one cell with vertices P (nv, dim)."""
    if kind == "line":
        return [P[[0]], P[[1]]]
    if kind == "tri":
        return [P[[0, 1]], P[[1, 2]], P[[0, 2]]]
    if kind == "quad":
        return [P[[0, 1]], P[[1, 2]], P[[2, 3]], P[[3, 0]]]
    tab = {"tet": TET_FACES, "hex": HEX_FACES, "wedge": WEDGE_FACES}[kind]
    return [P[f] for f in tab]


def poly_area(F):
    """measure of a facet given by its vertices (point: 1, segment: length, planar polygon: area)."""
    if len(F) == 1:
        return 1.0
    if len(F) == 2:
        return float(np.linalg.norm(F[1] - F[0]))
    c = F.mean(0)
    a = 0.0
    for i in range(len(F)):
        u, v = F[i] - c, F[(i + 1) % len(F)] - c
        a += 0.5 * np.linalg.norm(np.cross(u, v))
    return float(a)


def volume(kind, P):
    """absolute measure of a cell (faces assumed planar)."""
    P = np.asarray(P, dtype=float)
    if kind == "line":
        return abs(float(P[1, 0] - P[0, 0]))
    if kind == "tri":
        return abs(float(np.linalg.det(np.array([P[1] - P[0], P[2] - P[0]])))) / 2
    if kind == "quad":
        return abs(_shoelace(P))
    if kind == "tet":
        return abs(float(np.linalg.det(np.array([P[1] - P[0], P[2] - P[0], P[3] - P[0]])))) / 6
    c = P.mean(0)
    vol = 0.0
    for F in faces_of(kind, P):
        fc = F.mean(0)
        for i in range(len(F)):
            vol += abs(np.linalg.det(np.array([F[i] - c, F[(i + 1) % len(F)] - c, fc - c]))) / 6
    return float(vol)


def _shoelace(P):
    x, y = P[:, 0], P[:, 1]
    return 0.5 * float(np.dot(x, np.roll(y, -1)) - np.dot(y, np.roll(x, -1)))


def signed_simplex(P):
    P = np.asarray(P, dtype=float)
    return float(np.linalg.det(P[1:] - P[0]))


def contains(kind, P, x, tol=1e-9):
    """is point x in the closed convex cell with vertices P?"""
    P = np.asarray(P, dtype=float)
    x = np.asarray(x, dtype=float)
    if kind == "line":
        lo, hi = min(P[:, 0]), max(P[:, 0])
        return lo - tol <= x[0] <= hi + tol
    if kind in ("tri", "tet"):
        A = (P[1:] - P[0]).T
        lam = np.linalg.solve(A, x - P[0])
        return bool(lam.min() >= -tol and lam.sum() <= 1 + tol)
    c = P.mean(0)
    scale = max(np.ptp(P, axis=0).max(), 1e-30)
    for F in faces_of(kind, P):
        if len(F) == 2:
            t = F[1] - F[0]
            n = np.array([t[1], -t[0]])
        else:
            n = np.cross(F[1] - F[0], F[2] - F[0])
            if np.linalg.norm(n) < 1e-14 * scale ** 2 and len(F) > 3:
                n = np.cross(F[2] - F[1], F[3] - F[1])
        n = n / np.linalg.norm(n)
        if np.dot(n, c - F[0]) > 0:
            n = -n
        if np.dot(n, x - F[0]) > tol * scale:
            return False
    return True


def on_facet(F, x, tol=1e-9):
    """does point x lie on the closed facet F (vertices, cyclic)?"""
    F = np.asarray(F, dtype=float)
    x = np.asarray(x, dtype=float)
    if len(F) == 1:
        return bool(np.linalg.norm(x - F[0]) <= tol)
    scale = max(np.ptp(F, axis=0).max(), 1e-30)
    if len(F) == 2:
        t = F[1] - F[0]
        s = np.dot(x - F[0], t) / np.dot(t, t)
        return bool(-tol <= s <= 1 + tol and np.linalg.norm(F[0] + s * t - x) <= tol * scale)
    n = np.cross(F[1] - F[0], F[2] - F[0])
    n = n / np.linalg.norm(n)
    if abs(np.dot(n, x - F[0])) > tol * scale:
        return False
    c = F.mean(0)
    for i in range(len(F)):
        a, b = F[i], F[(i + 1) % len(F)]
        e = np.cross(n, b - a)
        if np.dot(e, c - a) < 0:
            e = -e
        if np.dot(e, x - a) < -tol * scale * np.linalg.norm(e):
            return False
    return True


def cell_points(m, k):
    return m.p[:, m.t[:, k]].T.copy()


def mesh_measure(m):
    kd = kind_of(m)
    return sum(volume(kd, cell_points(m, k)) for k in range(m.t.shape[1]))


def facet_points(m, f):
    """vertex coordinates of facet f in a cyclic order (recovered from an owning cell, not from the stored facet order)."""
    kd = kind_of(m)
    k = int(m.f2t[0, f])
    s = int(np.nonzero(m.t2f[:, k] == f)[0][0])
    P = cell_points(m, k)
    return faces_of(kd, P)[s]


def parent_of(kind, parents_pts, x, tol=1e-9):
    """indices of the parent cells containing x."""
    return [k for k, P in enumerate(parents_pts) if contains(kind, P, x, tol)]
