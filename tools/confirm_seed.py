#!/usr/bin/env python3
"""Confirm a candidate property-breaking change in a scratch worktree:
   demo fails with the change, passes without, baseline suite still passes.
   usage: confirm_seed.py <candidate_dir> [--no-suite]  (candidate_dir has patch.diff, demo.py)"""
import json, os, subprocess, sys, shutil, tempfile
cand = os.path.abspath(sys.argv[1])
wt = tempfile.mkdtemp(prefix="wtc-", dir="/tmp")
os.rmdir(wt)
def sh(cmd, **kw):
    return subprocess.run(cmd, shell=True, capture_output=True, text=True, **kw)
res = {}
try:
    r = sh("git -C /repo worktree add --detach %s HEAD" % wt)
    assert r.returncode == 0, r.stderr
    env = dict(os.environ, JAX_PLATFORMS="cpu")
    # unchanged reference: the clean worktree of HEAD itself, before the patch goes on (never /repo's working tree, which seed runs patch temporarily)
    r0 = sh("PYTHONPATH=%s /venv/bin/python %s/demo.py" % (wt, cand), env=env, cwd="/tmp")
    r = sh("git -C %s apply %s/patch.diff" % (wt, cand))
    res["applies"] = r.returncode == 0
    if not res["applies"]:
        res["apply_err"] = r.stderr[-500:]
    else:
        r1 = sh("PYTHONPATH=%s /venv/bin/python %s/demo.py" % (wt, cand), env=env, cwd="/tmp")
        res["demo_with_change_exit"] = r1.returncode
        res["demo_unchanged_exit"] = r0.returncode
        res["demo_with_change_tail"] = (r1.stdout + r1.stderr)[-400:]
        if "--no-suite" not in sys.argv:
            r = sh("python3 /verif/tools/baseline_check.py %s" % wt)
            res["suite_ok"] = r.returncode == 0
            res["suite_tail"] = r.stdout[-300:]
finally:
    sh("git -C /repo worktree remove --force %s" % wt)
    shutil.rmtree(wt, ignore_errors=True)
res["repo_head"] = sh("git -C /repo rev-parse --short HEAD").stdout.strip()
json.dump(res, open(os.path.join(cand, "confirm.json"), "w"), indent=1)
ok = res.get("applies") and res.get("demo_with_change_exit", 0) != 0 and res.get("demo_unchanged_exit", 1) == 0 and res.get("suite_ok", True)
print(os.path.basename(cand), "CONFIRMED" if ok else "NOT-CONFIRMED", json.dumps({k: v for k, v in res.items() if "tail" not in k}))
