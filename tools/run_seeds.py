#!/usr/bin/env python3
"""run_seeds.py [name-substr ...] : apply each seeded patch to /repo, run the property's quick check, restore, record detection."""
import json, os, subprocess, sys, time
root = "/verif/seeded"
names = sorted(os.listdir(root))
if len(sys.argv) > 1:
    names = [n for n in names if any(s in n for s in sys.argv[1:])]
assert subprocess.run("git -C /repo status --porcelain", shell=True, capture_output=True, text=True).stdout.strip() == "", "repo dirty"
for n in names:
    d = os.path.join(root, n)
    meta = json.load(open(os.path.join(d, "meta.json")))
    props = meta.get("check_props") or [meta["property"]]
    rev = "--reverse" if False else ""
    r = subprocess.run("git -C /repo apply %s/patch.diff" % d, shell=True, capture_output=True, text=True)
    if r.returncode != 0:
        print(n, "PATCH-DOES-NOT-APPLY", r.stderr[:200]); continue
    res = {}
    try:
        for p in props:
            if not os.path.exists("/verif/props/%s.py" % p):
                res[p] = "no-check"; continue
            t0 = time.time()
            q = subprocess.run("cd /verif && ./check %s" % p, shell=True, capture_output=True, text=True)
            viol = [l for l in q.stdout.splitlines() if l.startswith("VIOLATION")]
            res[p] = dict(exit=q.returncode, violations=len(viol), first=(viol[0][:200] if viol else q.stdout.strip().splitlines()[-1][:200] if q.stdout.strip() else q.stderr[-200:]), s=round(time.time()-t0,1))
    finally:
        subprocess.run("git -C /repo checkout -- .", shell=True)
    det = any(isinstance(v, dict) and v["exit"] == 1 and v["violations"] for v in res.values())
    meta["detected"] = det; meta["last_run"] = res
    json.dump(meta, open(os.path.join(d, "meta.json"), "w"), indent=1)
    print(n, "DETECTED" if det else "MISSED", json.dumps(res)[:400])
