#!/bin/bash
# run_all.sh [quick|thorough] : run every registered check on the current tree, print one line each, exit non-zero if any is not 0
tier=${1:-quick}; rc=0
cd /verif
for p in C01 C02 C03 C04 C05 C06 C07 C08 C09 C10 C11 C12 C13 C14 C15 C16 C17 C18 C19 C20; do
  out=$(./check $p --tier $tier 2>&1); e=$?
  echo "exit=$e $(echo "$out" | grep "tier=$tier" | tail -1)"
  [ $e -ne 0 ] && rc=1
done
exit $rc
