#!/usr/bin/env python3
"""Run the repository's pinned test suite on a tree and compare with BASELINE.json stable_pass.
usage: baseline_check.py [repo_dir]   (exit 0 iff every stable_pass test passes)"""
import json, subprocess, sys, tempfile, os, xml.etree.ElementTree as ET
repo = sys.argv[1] if len(sys.argv) > 1 else "/repo"
base = json.load(open("/root/.vp/BASELINE.json"))
with tempfile.TemporaryDirectory() as d:
    x = os.path.join(d, "j.xml")
    env = dict(os.environ); env.pop("SKFEM_VERIF", None)
    p = subprocess.run(["/venv/bin/python", "-m", "pytest", "-q", "-p", "no:cacheprovider", "--timeout=900",
                        "--continue-on-collection-errors", "-n", os.environ.get("NPROC", "12"), "--junitxml=" + x],
                       cwd=repo, env=env, stdout=subprocess.PIPE, stderr=subprocess.STDOUT, text=True)
    print(p.stdout[-1500:])
    passed = set()
    for tc in ET.parse(x).getroot().iter("testcase"):
        if not any(c.tag in ("failure", "error", "skipped") for c in tc):
            passed.add(tc.get("classname") + "::" + tc.get("name"))
want = set(base["stable_pass"])
missing = sorted(want - passed)
print("stable_pass:", len(want), "passed now:", len(passed), "missing:", len(missing))
for m in missing[:40]:
    print("  MISSING", m)
sys.exit(1 if missing else 0)
