#!/bin/bash
# usage: run_harmless.sh <name>...   (patches in /verif/harmless/<name>/patch.diff) ; runs all quick checks against an export of HEAD + patch
for n in "$@"; do
  d=/tmp/hh/$n; rm -rf $d; mkdir -p $d; git -C /repo archive HEAD | tar -x -C $d
  (cd $d && git init -q . 2>/dev/null && git apply /verif/harmless/$n/patch.diff) || { echo "$n PATCH-FAILS"; continue; }
  rm -rf $d/.git
  out=$(cd /verif && SKFEM_REPO=$d tools/run_all.sh quick 2>&1 | grep -v "exit=0" | grep -v "^WARNING")
  echo "== $n: ${out:-all-exit-0}"
  rm -rf $d
done
