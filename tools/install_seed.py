#!/usr/bin/env python3
"""install_seed.py <candidate_dir> : copy a CONFIRMED candidate into /verif/seeded/<name>/ with meta.json"""
import json, os, shutil, sys
cand = os.path.abspath(sys.argv[1]); name = os.path.basename(cand)
conf = json.load(open(os.path.join(cand, "confirm.json")))
assert conf["applies"] and conf["demo_with_change_exit"] != 0 and conf["demo_unchanged_exit"] == 0 and conf.get("suite_ok", False), conf
dst = os.path.join("/verif/seeded", name); os.makedirs(dst, exist_ok=True)
for f in ("patch.diff", "demo.py", "notes.md"):
    if os.path.exists(os.path.join(cand, f)): shutil.copy(os.path.join(cand, f), dst)
notes = open(os.path.join(cand, "notes.md")).read() if os.path.exists(os.path.join(cand, "notes.md")) else ""
meta = dict(property=name.split("-")[0], origin="independent sub-agent given only the property text and a scratch worktree",
            needs=notes[:1200], confirmed=dict(repo_head=conf["repo_head"], demo_with_change_exit=conf["demo_with_change_exit"],
            demo_unchanged_exit=conf["demo_unchanged_exit"], baseline_suite_passes_with_change=conf["suite_ok"],
            how="tools/confirm_seed.py: scratch worktree of /repo HEAD, git apply patch.diff, demo.py with PYTHONPATH=<worktree> (must fail) and PYTHONPATH=/repo (must pass), tools/baseline_check.py <worktree> (536 stable tests)"),
            detected_by=None)
json.dump(meta, open(os.path.join(dst, "meta.json"), "w"), indent=1)
print("installed", dst)
