import json,sys
# usage: slow.py <prop> -- needs SKV_DUMP=1 run; else reads evidence units only
ev=json.load(open('/verif/evidence/%s.json'%sys.argv[1]))
for u in sorted(ev['coverage']['units'],key=lambda u:-u['wall_s'])[:15]: print(u)
