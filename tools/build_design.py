#!/usr/bin/env python3
"""build_design.py : splice docs/PART_A.md (tables filled from evidence/, seeded/, KNOWN_FINDINGS.jsonl) into DESIGN.md between the PART-A markers"""
import glob, json, os, re
root = "/verif"

def evidence():
    out = ["| id | tier | level | functions under contract | obligations | discharged | back ends | stand-in cases | undecided | open findings | wall s |", "|---|---|---|---|---|---|---|---|---|---|---|"]
    for f in sorted(glob.glob(root + "/evidence/C*.json")):
        e = json.load(open(f)); c = e["coverage"]
        bb = c.get("by_backend", {}); be = ", ".join("%s:%s" % (a, b) for a, b in (bb.items() if isinstance(bb, dict) else bb))
        st = sum(s.get("cases", 0) for s in c.get("bounded_standins", []))
        out.append("| %s | %s | %s | %d | %d | %d | %s | %d | %d | %d | %.0f |" % (e["property_id"], e["tier"], e["level"], len(c.get("functions_under_contract", [])), c["obligations"], c["discharged"], be, st,
                   len(c.get("undecided", [])), len(c.get("open_known_findings", [])), e.get("wall_s", 0)))
    return "\n".join(out)

def seeds():
    out = ["| seed | origin | what it changes / needs | detected | first violated obligation |", "|---|---|---|---|---|"]
    for d in sorted(glob.glob(root + "/seeded/*")):
        m = json.load(open(d + "/meta.json"))
        needs = " ".join((m.get("needs") or "").split())
        needs = re.sub(r"^#\s*\S+\s*[:—-]+\s*", "", needs)
        first = ""
        for p, r in (m.get("last_run") or {}).items():
            if isinstance(r, dict) and r.get("violations"):
                first = "%s: %s" % (p, r["first"].split("replay=replays/")[-1].split(".json")[0].split(" ")[0][:64])
        det = m.get("detected")
        out.append("| %s | %s | %s | %s | %s |" % (os.path.basename(d), "agent" if "agent" in m.get("origin", "") else "reverse of a fix", needs[:150].replace("|", "/"), "yes" if det else ("NO" if det is False else "not run"), first))
    return "\n".join(out)

def findings():
    out = []
    for l in open(root + "/KNOWN_FINDINGS.jsonl"):
        l = l.strip()
        if not l.startswith("{"): continue
        k = json.loads(l)
        out.append("- **%s** %s %s — %s  \n  obligation: `%s`" % (k.get("status"), k.get("property"), ("`%s`" % k["commit"]) if k.get("commit") else "(open)", k.get("what", ""), k.get("obligation", "")))
    return "\n".join(out)

part = open(root + "/docs/PART_A.md").read().replace("@@FINDINGS@@", findings()).replace("@@SEEDS@@", seeds()).replace("@@EVIDENCE@@", evidence())
d = open(root + "/DESIGN.md").read()
B, E = "<!-- PART-A-BEGIN -->", "<!-- PART-A-END -->"
if B in d:
    d = d[:d.index(B)] + B + "\n" + part + "\n" + d[d.index(E):]
else:
    i = d.index("## 1. What \"the verifier\" is here")
    d = d[:i] + B + "\n" + part + "\n" + E + "\n\n" + d[i:]
open(root + "/DESIGN.md", "w").write(d)
print("DESIGN.md: %d lines" % d.count("\n"))
