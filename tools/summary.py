#!/usr/bin/env python3
"""summary.py : markdown tables for DESIGN.md from evidence/*.json, seeded/*/meta.json, KNOWN_FINDINGS.jsonl"""
import glob, json, os
root = "/verif"
print("### evidence (last run of each check)\n")
print("| id | tier | level | functions | obligations | discharged | back ends | stand-in cases | undecided | open findings | wall s |")
print("|---|---|---|---|---|---|---|---|---|---|---|")
for f in sorted(glob.glob(root + "/evidence/C*.json")):
    e = json.load(open(f)); c = e["coverage"]
    bb = c.get("by_backend", {}); be = ", ".join("%s:%s" % (a, b) for a, b in (bb.items() if isinstance(bb, dict) else bb))
    st = sum(s.get("cases", 0) for s in c.get("bounded_standins", []))
    print("| %s | %s | %s | %d | %d | %d | %s | %d | %d | %d | %.0f |" % (e["property_id"], e["tier"], e["level"], len(c.get("functions_under_contract", [])), c["obligations"], c["discharged"], be, st,
          len(c.get("undecided", [])), len(c.get("open_known_findings", [])), e.get("wall_s", 0)))
print("\n### seeded changes\n")
print("| seed | property | origin | what it needs | detected | by (first violated obligation) |")
print("|---|---|---|---|---|---|")
for d in sorted(glob.glob(root + "/seeded/*")):
    m = json.load(open(d + "/meta.json"))
    needs = " ".join((m.get("needs") or "").split())
    first = ""
    for p, r in (m.get("last_run") or {}).items():
        if isinstance(r, dict) and r.get("violations"):
            first = "%s: %s" % (p, r["first"].split("replay=replays/")[-1].split(".json")[0][:70])
    print("| %s | %s | %s | %s | %s | %s |" % (os.path.basename(d), m["property"], "agent" if "agent" in m.get("origin", "") else "reverse fix", needs[:110].replace("|", "/"), m.get("detected"), first))
print("\n### findings\n")
for l in open(root + "/KNOWN_FINDINGS.jsonl"):
    l = l.strip()
    if not l or not l.startswith("{"): continue
    k = json.loads(l)
    print("- %s %s %s: %s" % (k.get("status"), k.get("property"), k.get("commit", ""), k.get("what", "")[:220]))
