"""Mode I: symbolic arrays with symbolic shapes.

An SArr is (shape, get, sort): shape entries are ints or Int terms, get maps a
tuple of index terms to an element term.  NumPy operators are index
transformers; order/set operators (unique, sort, nonzero, setdiff1d, ...) are
assumed contracts (axioms) over fresh uninterpreted functions.  Real repository
code is executed on SArr operands (module global `np` rebound to NPModel,
`range` rebound for generic iterations of loops with symbolic trip count).
"""
from __future__ import annotations

import builtins
import contextlib
import itertools
import sys
from fractions import Fraction

import numpy as np

from . import term as tm
from .term import BOOL, INT, REAL, S, T, Unsupported

_uid = itertools.count()


def _t(v) -> T:
    if isinstance(v, S):
        return v.t
    if isinstance(v, T):
        return v
    if isinstance(v, (bool, np.bool_)):
        return tm.const(bool(v))
    if isinstance(v, (int, np.integer)):
        return tm.const(int(v))
    if isinstance(v, (float, np.floating, Fraction)):
        return tm.const(v if isinstance(v, Fraction) else float(v))
    raise Unsupported("not a scalar: %r" % (type(v),))


def _dim(v):
    """normalise a shape entry: python int when concrete, else Int term."""
    if isinstance(v, S):
        v = v.t
    if isinstance(v, T):
        if v.is_const:
            return int(v.value)
        return v
    return int(v)


def _sdim(v):
    """shape entry as seen by executed code: int or S."""
    return v if isinstance(v, int) else S(v)


def is_conc(v):
    return isinstance(v, (int, np.integer))


class IC:
    """Index context of the running unit: hypotheses, candidates for ground
    instantiation, active generic loops, recorded instance requests."""
    cur = None

    def __init__(self):
        self.hyps = []            # ground facts / quantified axioms (terms)
        self.skolems = []         # Int skolem constants usable as instantiation candidates
        self.loops = []           # active generic loops: list of (var term, bound term)
        self.inst = []            # deferred instance generators: callables(cands) -> [terms]
        self.notes = []
        self.axioms_used = set()
        self.lemmas = []          # (name, hyps, goal): lemma obligations to be discharged by the unit
        self.nz_cache = {}        # np.nonzero is a function of the mask: equal mask terms share one enumeration (key: mask term at a canonical index)

    def add(self, h):
        if h is not tm.TRUE:
            self.hyps.append(h)

    def skolem(self, name, lo=None, hi=None, sort=INT):
        v = tm.var("%s" % name, sort)
        if lo is not None:
            self.add(tm.le(_t(lo), v))
        if hi is not None:
            self.add(tm.lt(v, _t(hi)))
        if sort == INT:
            self.skolems.append(v)
        return S(v)

    def size(self, name, lo=0):
        v = tm.var(name, INT)
        self.add(tm.le(tm.const(lo), v))
        return S(v)

    def all_hyps(self, extra_cands=()):
        cands = list(dict.fromkeys(list(self.skolems) + [_t(c) for c in extra_cands]))
        out = list(self.hyps)
        for g in self.inst:
            out.extend(g(cands))
        return out

    def axiom(self, name):
        self.axioms_used.add(name)


@contextlib.contextmanager
def index_context():
    old = IC.cur
    IC.cur = IC()
    try:
        yield IC.cur
    finally:
        IC.cur = old


def ic() -> IC:
    if IC.cur is None:
        raise RuntimeError("no index context")
    return IC.cur


# ---------------------------------------------------------------- mixed radix

BOUND_PREFIXES = {"uq", "nz", "sd", "ph", "mx", "sc", "g", "i", "fv"}


def enc(dims, idx):
    """C-order linear index of idx in an array of the given dims."""
    p = _t(idx[0])
    for d, i in zip(dims[1:], idx[1:]):
        p = tm.add(tm.mul(p, _t(d)), _t(i))
    return p


def dec(dims, p, order="C"):
    """Decode linear index p -> index tuple (terms).  Concrete dims use div/mod;
    symbolic dims use uninterpreted decode functions with instance facts
    (mixed-radix lemma, proved separately in unit lemmas/mixed-radix)."""
    dims = [_dim(d) for d in dims]
    p = _t(p)
    if order == "F":
        r = dec(dims[::-1], p, "C")
        return r[::-1]
    n = len(dims)
    if n == 1:
        return [p]
    if all(is_conc(d) for d in dims[1:]):
        out = []
        rest = p
        for d in reversed(dims[1:]):
            out.append(tm.mod(rest, tm.const(d)))
            rest = tm.idiv(rest, tm.const(d))
        out.append(rest)
        return out[::-1]
    if p.is_const and all(is_conc(d) for d in dims):
        return [tm.const(int(v)) for v in np.unravel_index(int(p.value), dims)]
    if all(is_conc(d) for d in dims[:-1]) and int(np.prod(dims[:-1])) <= 64:
        # leading extents concrete, last one symbolic: block b = p div n by an ite chain over the (few) blocks, exact, no div/mod
        B = int(np.prod(dims[:-1]))
        nlast = _t(dims[-1])
        lead = [np.unravel_index(b, dims[:-1]) for b in range(B)]
        out = []
        for k in range(n - 1):
            e = tm.const(int(lead[B - 1][k]))
            for b in reversed(range(B - 1)):
                e = tm.ite(tm.lt(p, tm.mul(tm.const(b + 1), nlast)), tm.const(int(lead[b][k])), e)
            out.append(e)
        # offset of the block as an ite chain of LINEAR terms b*nlast (not (ite ..)*nlast, which would be a nonlinear product for the solvers)
        off = tm.mul(tm.const(B - 1), nlast)
        for b in reversed(range(B - 1)):
            off = tm.ite(tm.lt(p, tm.mul(tm.const(b + 1), nlast)), tm.mul(tm.const(b), nlast), off)
        out.append(tm.sub(p, off))
        return out
    c = ic()
    c.axiom("mixed-radix decode (lemma lemmas/mixed-radix)")
    dargs = [_t(d) for d in dims[1:]]
    ds = [tm.app("dec%d_%d" % (n, k), INT, *dargs, p) for k in range(n)]
    size = _t(dims[0])
    for d in dims[1:]:
        size = tm.mul(size, _t(d))
    inr = tm.and_(tm.le(tm.const(0), p), tm.lt(p, size))
    facts = [tm.eq(enc(dims, ds), p)]
    for k in range(n):
        facts.append(tm.le(tm.const(0), ds[k]))
        facts.append(tm.lt(ds[k], _t(dims[k])))
    bound = [v for v in tm.subterms(p) if v.op == "var" and "!" in v.args[0] and v.args[0].split("!")[0] in BOUND_PREFIXES]
    if bound:
        c.add(tm.forall(bound, tm.implies(inr, tm.and_(*facts)), patterns=[[ds[0]]]))
    else:
        c.add(tm.implies(inr, tm.and_(*facts)))
    return ds


def hint_radix(dims, idx):
    """Lemma instance: for in-range idx, dec(dims, enc(dims, idx)) == idx."""
    dims = [_dim(d) for d in dims]
    c = ic()
    n = len(dims)
    if all(is_conc(d) for d in dims[1:]):
        return
    p = enc(dims, idx)
    dargs = [_t(d) for d in dims[1:]]
    inr = tm.and_(*[tm.and_(tm.le(tm.const(0), _t(i)), tm.lt(_t(i), _t(d))) for i, d in zip(idx, dims)])
    c.add(tm.implies(inr, tm.and_(*[tm.eq(tm.app("dec%d_%d" % (n, k), INT, *dargs, p), _t(idx[k])) for k in range(n)])))
    c.axiom("mixed-radix decode (lemma lemmas/mixed-radix)")


# ---------------------------------------------------------------- SArr

class SArr:
    __array_priority__ = 2000
    __array_ufunc__ = None

    def __init__(self, shape, get, sort=INT, name=None):
        self._shape = tuple(_dim(d) for d in shape)
        self._get = get
        self.sort = sort
        self.name = name or "arr%d" % next(_uid)
        self.writes = 0

    # -- basic protocol
    @property
    def shape(self):
        return tuple(_sdim(d) for d in self._shape)

    @property
    def ndim(self):
        return len(self._shape)

    @property
    def dtype(self):
        return {INT: np.dtype("int64"), REAL: np.dtype("float64"), BOOL: np.dtype("bool")}[self.sort]

    @property
    def size(self):
        r = 1
        for d in self._shape:
            r = r * _sdim(d)
        return r

    def __len__(self):
        d = self._shape[0]
        if is_conc(d):
            return d
        raise Unsupported("len() of an array with symbolic leading dimension (use .shape[0])")

    def get(self, idx):
        if not isinstance(idx, (tuple, list)):
            idx = (idx,)
        if len(idx) != self.ndim:
            raise Unsupported("get with %d indices on %d-d array" % (len(idx), self.ndim))
        return self._get(tuple(_t(i) for i in idx))

    def at(self, *idx):
        return S(self.get(idx))

    def in_bounds(self, idx):
        return tm.and_(*[tm.and_(tm.le(tm.const(0), _t(i)), tm.lt(_t(i), _t(d))) for i, d in zip(idx, self._shape)])

    # -- construction helpers
    @staticmethod
    def input(name, shape, sort=INT, lo=None, hi=None):
        shape = tuple(_dim(d) for d in shape)
        arr = SArr(shape, lambda idx, name=name, sort=sort: tm.app(name, sort, *idx), sort, name)
        if lo is not None or hi is not None:
            c = ic()
            vs = [tm.var("%s!i%d" % (name, k), INT) for k in range(len(shape))]
            e = tm.app(name, sort, *vs)
            rng = []
            if lo is not None:
                rng.append(tm.le(_t(lo), e))
            if hi is not None:
                rng.append(tm.lt(e, _t(hi)))
            c.add(tm.forall(vs, tm.implies(arr.in_bounds(vs), tm.and_(*rng)), patterns=[[e]]))
        return arr

    @staticmethod
    def full(shape, value, sort=None):
        v = _t(value)
        return SArr(shape, lambda idx, v=v: v, sort or v.sort)

    @staticmethod
    def from_numpy(a):
        a = np.asarray(a)
        if a.dtype == object:
            sort = REAL
        else:
            sort = BOOL if a.dtype == bool else (INT if np.issubdtype(a.dtype, np.integer) else REAL)

        def get(idx, a=a, sort=sort):
            if all(i.is_const for i in idx):
                return tm.to_real(_t(a[tuple(int(i.value) for i in idx)])) if sort == REAL else _t(a[tuple(int(i.value) for i in idx)])
            # symbolic index into a concrete table: ite chain (tables are small)
            if a.size > 64:
                raise Unsupported("symbolic index into a concrete array of size %d" % a.size)
            out = None
            for pos in np.ndindex(*a.shape):
                cond = tm.and_(*[tm.eq(i, tm.const(int(q))) for i, q in zip(idx, pos)])
                val = _t(a[pos])
                out = val if out is None else tm.ite(cond, val, out)
            return out
        return SArr(a.shape, get, sort)

    # -- views / reshapes
    @property
    def T(self):
        if self.ndim == 1:
            return self
        n = self.ndim
        return SArr(self._shape[::-1], lambda idx, s=self: s._get(idx[::-1]), self.sort)

    def transpose(self, *axes):
        if not axes or axes == (None,):
            return self.T
        if len(axes) == 1 and isinstance(axes[0], (tuple, list)):
            axes = tuple(axes[0])
        axes = tuple(int(a) % self.ndim for a in axes)
        if sorted(axes) != list(range(self.ndim)):
            raise Unsupported("transpose axes %r" % (axes,))
        shp = tuple(self._shape[a] for a in axes)

        def get(idx, s=self, axes=axes):
            src = [None] * len(axes)
            for o, a in enumerate(axes):
                src[a] = idx[o]
            return s._get(tuple(src))
        return SArr(shp, get, self.sort)

    def copy(self):
        return SArr(self._shape, self._get, self.sort)

    def round(self, decimals=0):
        """elementwise rounding as an uninterpreted function of the element (idempotent-by-name)."""
        return SArr(self._shape, lambda idx, s=self, d=decimals: tm.app("round%d" % int(d), REAL, tm.to_real(s._get(idx))), REAL)

    def astype(self, dtype, **kw):
        return self

    def flatten(self, order="C"):
        if self.ndim == 1:
            return self.copy()
        dims = self._shape
        size = dims[0]
        for d in dims[1:]:
            size = _dim(S(_t(size)) * S(_t(d)))
        return SArr((size,), lambda idx, s=self, dims=dims, order=order: s._get(tuple(dec(dims, idx[0], order))), self.sort)

    def ravel(self, order="C"):
        return self.flatten(order)

    def reshape(self, *shape, order="C"):
        if len(shape) == 1 and isinstance(shape[0], (tuple, list)):
            shape = tuple(shape[0])
        shape = [_dim(d) if not (is_conc(d) and d == -1) else -1 for d in shape]
        if -1 in shape:
            known = [d for d in shape if not (is_conc(d) and d == -1)]
            tot = self.size
            if all(is_conc(d) for d in known) and isinstance(tot, int):
                shape[shape.index(-1)] = tot // int(np.prod(known)) if known else tot
            else:
                # symbolic: the missing extent q satisfies q * prod(known) = size
                q = tm.fresh("extent", INT)
                pk = tm.const(1)
                for d in known:
                    pk = tm.mul(pk, _t(d))
                ic().add(tm.and_(tm.le(tm.const(0), q), tm.eq(tm.mul(q, pk), _t(tot))))
                shape[shape.index(-1)] = q
        src = self if self.ndim == 1 else self.flatten(order)
        if len(shape) == 1:
            return src
        shp = tuple(shape)
        if order == "C":
            return SArr(shp, lambda idx, s=src, shp=shp: s._get((enc(shp, idx),)), self.sort)
        return SArr(shp, lambda idx, s=src, shp=shp: s._get((enc(shp[::-1], idx[::-1]),)), self.sort)

    # -- indexing
    def __getitem__(self, key):
        return _getitem(self, key)

    def __setitem__(self, key, value):
        _setitem(self, key, value)

    def __iter__(self):
        d = self._shape[0]
        if not is_conc(d):
            raise Unsupported("iteration over symbolic axis")
        return (self[i] for i in range(d))

    # -- arithmetic (elementwise, shapes equal or broadcast against scalars / trailing singleton patterns)
    def _bin(self, o, f, sort=None, rev=False):
        a, b = (o, self) if rev else (self, o)
        shp, ga, gb, sa, sb = _broadcast(a, b)
        if f is tm.mul and sa == BOOL and sb == BOOL:
            f = tm.and_                                     # product of boolean arrays is their conjunction (NumPy: logical_and)
        so = sort
        if so is None:
            so = REAL if REAL in (sa, sb) else (INT if INT in (sa, sb) else BOOL)
        return SArr(shp, lambda idx, ga=ga, gb=gb, f=f: f(ga(idx), gb(idx)), so)

    def __add__(self, o): return self._bin(o, tm.add)
    def __radd__(self, o): return self._bin(o, tm.add, rev=True)
    def __sub__(self, o): return self._bin(o, tm.sub)
    def __rsub__(self, o): return self._bin(o, tm.sub, rev=True)
    def __mul__(self, o): return self._bin(o, tm.mul)
    def __rmul__(self, o): return self._bin(o, tm.mul, rev=True)
    def __truediv__(self, o): return self._bin(o, tm.div, REAL)
    def __rtruediv__(self, o): return self._bin(o, tm.div, REAL, rev=True)
    def __floordiv__(self, o): return self._bin(o, tm.idiv, INT)
    def __mod__(self, o): return self._bin(o, tm.mod, INT)
    def __pow__(self, n):
        if not (isinstance(n, (int, np.integer)) and 1 <= int(n) <= 4):
            raise Unsupported("power %r of a symbolic array" % (n,))
        out = self
        for _ in range(int(n) - 1):
            out = out * self
        return out

    def __neg__(self): return SArr(self._shape, lambda idx, s=self: tm.neg(s._get(idx)), self.sort)
    def __abs__(self): return SArr(self._shape, lambda idx, s=self: tm.absv(s._get(idx)), self.sort)
    def __eq__(self, o): return self._bin(o, tm.eq, BOOL)
    def __ne__(self, o): return self._bin(o, tm.ne, BOOL)
    def __lt__(self, o): return self._bin(o, tm.lt, BOOL)
    def __le__(self, o): return self._bin(o, tm.le, BOOL)
    def __gt__(self, o): return self._bin(o, tm.gt, BOOL)
    def __ge__(self, o): return self._bin(o, tm.ge, BOOL)
    def __and__(self, o): return self._bin(o, tm.and_, BOOL)
    def __or__(self, o): return self._bin(o, tm.or_, BOOL)
    def __invert__(self): return SArr(self._shape, lambda idx, s=self: tm.not_(s._get(idx)), BOOL)
    __hash__ = None

    def __iadd__(self, o):
        old = SArr(self._shape, self._get, self.sort)       # the value before the update (the new getter must not refer to itself)
        r = old + o
        self._get, self.sort = r._get, r.sort
        self.inplace_writes = getattr(self, "inplace_writes", 0) + 1
        return self

    def __isub__(self, o):
        old = SArr(self._shape, self._get, self.sort)       # the value before the update (the new getter must not refer to itself)
        r = old - o
        self._get, self.sort = r._get, r.sort
        self.inplace_writes = getattr(self, "inplace_writes", 0) + 1
        return self

    def __imul__(self, o):
        old = SArr(self._shape, self._get, self.sort)       # the value before the update (the new getter must not refer to itself)
        r = old * o
        self._get, self.sort = r._get, r.sort
        self.inplace_writes = getattr(self, "inplace_writes", 0) + 1
        return self

    def __bool__(self):
        raise Unsupported("truth value of a symbolic array")

    # -- reductions
    def sum(self, axis=None, **kw):
        return np_sum(self, axis)

    def mean(self, axis=None, **kw):
        """mean over a CONCRETE axis: sum / extent (exact over the reals)"""
        if axis is None:
            raise Unsupported("mean over all axes")
        n = self._shape[axis % self.ndim]
        if not is_conc(n):
            raise Unsupported("mean over a symbolic axis")
        s_ = np_sum(self, axis=axis)
        return s_ / int(n)

    def max(self, axis=None):
        return np_max(self, axis)

    def __repr__(self):
        return "SArr(%s, %s)" % (self.name, "x".join(str(d) if is_conc(d) else tm.show(d, 20) for d in self._shape))


def as_sarr(v):
    if isinstance(v, SArr):
        return v
    if isinstance(v, (S, T, int, float, bool, np.integer, np.floating, Fraction)):
        return SArr((), lambda idx, t=_t(v): t, _t(v).sort)
    return SArr.from_numpy(v)


def _broadcast(a, b):
    A, B = as_sarr(a), as_sarr(b)
    na, nb = A.ndim, B.ndim
    n = max(na, nb)
    sa = (1,) * (n - na) + A._shape
    sb = (1,) * (n - nb) + B._shape
    shp, ma, mb = [], [], []
    for da, db in zip(sa, sb):
        if is_conc(da) and da == 1 and not (is_conc(db) and db == 1):
            shp.append(db); ma.append(False); mb.append(True)
        elif is_conc(db) and db == 1:
            shp.append(da); ma.append(not (is_conc(da) and da == 1)); mb.append(False)
        else:
            if is_conc(da) and is_conc(db) and da != db:
                raise Unsupported("shape mismatch %s vs %s" % (A._shape, B._shape))
            shp.append(da); ma.append(True); mb.append(True)

    def mk(X, nx, m):
        off = n - nx
        zero = tm.const(0)
        return lambda idx: X._get(tuple(idx[off + k] if m[off + k] else zero for k in range(nx)))
    return tuple(shp), mk(A, na, ma), mk(B, nb, mb), A.sort, B.sort


def _norm_slice(sl, d):
    """slice -> (start, step, length) as terms/ints; only the forms used in the library."""
    st, sp, se = sl.start, sl.stop, sl.step
    if isinstance(st, S):
        st = _dim(st)
    if isinstance(sp, S):
        sp = _dim(sp)
    if isinstance(se, S):
        se = _dim(se)
    if se is None or (is_conc(se) and se == 1):
        a = 0 if st is None else st
        b = d if sp is None else sp
        if is_conc(a) and a < 0:
            a = _dim(S(_t(d)) + a)
        if is_conc(b) and b < 0:
            b = _dim(S(_t(d)) + b)
        ln = _dim(S(_t(b)) - S(_t(a)))
        return a, 1, ln
    if is_conc(se) and se == -1 and st is None and sp is None:
        return _dim(S(_t(d)) - 1), -1, d
    if is_conc(se) and se > 1 and sp is None:
        a = 0 if st is None else st
        if is_conc(d) and is_conc(a):
            return a, se, len(range(a, d, se))
        q = tm.fresh("len", INT)
        # length of range(a, d, se): smallest q with a + q*se >= d
        ic().add(tm.and_(tm.le(tm.const(0), q), tm.ge(tm.add(_t(a), tm.mul(q, tm.const(se))), _t(d)),
                         tm.lt(tm.add(_t(a), tm.mul(tm.sub(q, tm.const(1)), tm.const(se))), _t(d))))
        return a, se, q
    raise Unsupported("slice form %r" % (sl,))


def _getitem(A, key):
    if not isinstance(key, tuple):
        key = (key,)
    if any(k is Ellipsis for k in key):
        i = [k is Ellipsis for k in key].index(True)
        nreal = sum(1 for k in key if k is not None and k is not Ellipsis)
        key = key[:i] + (slice(None),) * (A.ndim - nreal) + key[i + 1:]
    nreal = sum(1 for k in key if k is not None)
    if nreal > A.ndim:
        raise Unsupported("too many indices")
    key = key + (slice(None),) * (A.ndim - nreal)
    plan = []        # per source axis: ('int', term) | ('slice', start, step, outaxis) | ('arr', SArr)
    out = []         # output axes: ('new',) | ('slice', length) | ('arr', k)  (k-th dim of the index arrays)
    arrs = []
    src = 0
    arr_pos = None
    for k in key:
        if k is None:
            out.append(("new", 1))
            continue
        d = A._shape[src]
        if isinstance(k, slice):
            a, stp, ln = _norm_slice(k, d)
            plan.append(("slice", a, stp, len(out)))
            out.append(("slice", ln))
        elif isinstance(k, (int, np.integer, S, T)):
            t = _t(k)
            if t.is_const and t.value < 0:
                t = tm.add(_t(d), t)
            plan.append(("int", t))
        else:
            if isinstance(k, (list, tuple, np.ndarray)):
                k = SArr.from_numpy(np.asarray(k))
            if not isinstance(k, SArr):
                raise Unsupported("index of type %s" % type(k))
            if k.sort == BOOL:
                if k.ndim != 1:
                    raise Unsupported("boolean mask of rank %d" % k.ndim)
                k = np_nonzero(k)[0]
            if arrs and k.ndim != arrs[0].ndim:
                raise Unsupported("index arrays of different rank")
            if not arrs:
                arr_pos = len(out)
                for q in range(k.ndim):
                    out.append(("arr", q, k._shape[q]))
            plan.append(("arr", k))
            arrs.append(k)
        src += 1
    shape = tuple(o[-1] if o[0] != "arr" else o[2] for o in out)
    nad = arrs[0].ndim if arrs else 0

    def get(idx, A=A, plan=plan, arr_pos=arr_pos, nad=nad):
        aidx = tuple(idx[arr_pos:arr_pos + nad]) if nad else ()
        srcidx = []
        for p in plan:
            if p[0] == "int":
                srcidx.append(p[1])
            elif p[0] == "slice":
                i = idx[p[3]]
                if is_conc(p[2]) and p[2] == 1:
                    srcidx.append(tm.add(_t(p[1]), i))
                else:
                    srcidx.append(tm.add(_t(p[1]), tm.mul(tm.const(p[2]), i)))
            else:
                srcidx.append(p[1]._get(aidx))
        return A._get(tuple(srcidx))
    return SArr(shape, get, A.sort)


def _unsupported(msg):
    raise Unsupported(msg)


class Loop:
    def __init__(self, var, bound):
        self.var, self.bound = var, bound


def _setitem(A, key, value):
    """In-place store, modelled as a functional update of A._get.  Inside a
    generic loop iteration the store is quantified over the loop variables
    (last writer wins)."""
    if not isinstance(key, tuple):
        key = (key,)
    key = key + (slice(None),) * (A.ndim - len(key))
    if len(key) != A.ndim:
        raise Unsupported("store with None/Ellipsis")
    old = A._get
    V = as_sarr(value)
    conds = []   # per axis: callable(i) -> (condition term, value-index term or None)
    vdims = []
    scatter = None
    for ax, k in enumerate(key):
        d = A._shape[ax]
        if isinstance(k, slice):
            a, stp, ln = _norm_slice(k, d)
            if not (is_conc(stp) and stp == 1):
                raise Unsupported("strided store")
            conds.append(("slice", _t(a), _t(ln)))
            vdims.append(ln)
        elif isinstance(k, (int, np.integer, S, T)):
            t = _t(k)
            if t.is_const and t.value < 0:
                t = tm.add(_t(d), t)
            conds.append(("int", t))
        else:
            if isinstance(k, (list, np.ndarray)):
                k = SArr.from_numpy(np.asarray(k))
            if isinstance(k, SArr) and k.sort == BOOL and k.ndim == 1:
                conds.append(("mask", k))
                vdims.append(None)
                continue
            if not isinstance(k, SArr) or k.ndim != 1 or scatter is not None:
                raise Unsupported("store index of type %s" % type(k))
            scatter = (ax, k)
            conds.append(("scatter", k))
            vdims.append(k._shape[0])
    c = ic()
    loops = list(c.loops)
    A.writes += 1
    tag = "%s!w%d!%d" % (A.name, A.writes, next(_uid))

    if V.ndim > len(vdims):
        raise Unsupported("value rank exceeds the store region rank")
    voff = len(vdims) - V.ndim

    def region_and_vidx(idx, sub=None):
        """(condition that idx lies in the written region, index into the value) for given loop-var substitution."""
        cs, vidx = [], []
        for ax, cnd in enumerate(conds):
            i = idx[ax]
            if cnd[0] == "int":
                t = cnd[1] if sub is None else tm.substitute(cnd[1], sub)
                cs.append(tm.eq(i, t))
            elif cnd[0] == "slice":
                a = cnd[1] if sub is None else tm.substitute(cnd[1], sub)
                ln = cnd[2] if sub is None else tm.substitute(cnd[2], sub)
                cs.append(tm.and_(tm.le(a, i), tm.lt(i, tm.add(a, ln))))
                vidx.append(tm.sub(i, a))
            elif cnd[0] == "mask":
                m = cnd[1]._get((i,))
                cs.append(m if sub is None else tm.substitute(m, sub))
                vidx.append(None)
            else:
                raise Unsupported("scatter inside region helper")
        return tm.and_(*cs), vidx

    def value_at(vidx, sub=None):
        vi = vidx[voff:]
        # broadcast singleton value dims
        vi2 = []
        for k, i in enumerate(vi):
            dd = V._shape[k]
            vi2.append(tm.const(0) if (is_conc(dd) and dd == 1 and not (is_conc(vdims[voff + k]) and vdims[voff + k] == 1)) else i)
        v = V._get(tuple(vi2))
        if sub is not None:
            v = tm.substitute(v, sub)
        return v

    if scatter is not None:
        if loops:
            raise Unsupported("scatter store inside a generic loop")
        sax, K = scatter
        J = K._shape[0]
        # witness: w(rest-of-index..., m) = last j with K[j] == m
        c.axiom("scatter store: last write wins (witness function)")

        def get(idx, old=old):
            others = [idx[a] for a in range(len(idx)) if a != sax and conds[a][0] != "int"]
            w = tm.app("wit!" + tag, INT, idx[sax])
            inr = tm.and_(tm.le(tm.const(0), w), tm.lt(w, _t(J)))
            hit = tm.and_(inr, tm.eq(K._get((w,)), idx[sax]))
            cs, vidx = [], []
            for ax, cnd in enumerate(conds):
                if cnd[0] == "int":
                    cs.append(tm.eq(idx[ax], cnd[1]))
                elif cnd[0] == "slice":
                    cs.append(tm.and_(tm.le(cnd[1], idx[ax]), tm.lt(idx[ax], tm.add(cnd[1], cnd[2]))))
                    vidx.append(tm.sub(idx[ax], cnd[1]))
                elif cnd[0] == "scatter":
                    vidx.append(w)
            del others
            return tm.ite(tm.and_(hit, *cs), value_at(vidx), old(idx))

        # witness axiom instances: for candidate j: K[j] = m  =>  hit(m) and j <= w(m)
        def inst(cands, K=K, J=J, tag=tag):
            out = []
            for j in cands:
                m = K._get((j,))
                w = tm.app("wit!" + tag, INT, m)
                inr = tm.and_(tm.le(tm.const(0), j), tm.lt(j, _t(J)))
                out.append(tm.implies(inr, tm.and_(tm.le(tm.const(0), w), tm.lt(w, _t(J)), tm.eq(K._get((w,)), m), tm.le(j, w))))
            return out
        c.inst.append(inst)
        jv = tm.var("sc!j", INT)
        mterm = K._get((jv,))
        wq = tm.app("wit!" + tag, INT, mterm)
        c.add(tm.forall([jv], tm.implies(tm.and_(tm.le(tm.const(0), jv), tm.lt(jv, _t(J))),
                                         tm.and_(tm.le(tm.const(0), wq), tm.lt(wq, _t(J)), tm.eq(K._get((wq,)), mterm), tm.le(jv, wq))),
                        patterns=[[mterm]]))
        A._get = get
        if V.sort == REAL and A.sort != REAL:
            A.sort = REAL
        return

    if any(cnd[0] == "mask" for cnd in conds) and not loops and V.ndim == 1 and sum(1 for cnd in conds if cnd[0] != "int") == 1:
        # A[..ints.., mask] = vector: position i (mask true) receives V[rank of i among the true positions]
        (mk,) = [cnd[1] for cnd in conds if cnd[0] == "mask"]
        max_ = [ax for ax, cnd in enumerate(conds) if cnd[0] == "mask"][0]
        rk = np_nonzero(mk)[0].nonzero_of[1]

        def get(idx, old=old, mk=mk, max_=max_, rk=rk):
            cs = [tm.eq(idx[ax], cnd[1]) for ax, cnd in enumerate(conds) if cnd[0] == "int"]
            return tm.ite(tm.and_(mk._get((idx[max_],)), *cs), V._get((tm.app(rk, INT, idx[max_]),)), old(idx))
        A._get = get
        if V.sort == REAL and A.sort != REAL:
            A.sort = REAL
        return

    if any(cnd[0] == "mask" for cnd in conds):
        if loops or V.ndim != 0:
            raise Unsupported("masked store of a non-scalar / inside generic loop")

        def get(idx, old=old):
            cond, _ = region_and_vidx(idx)
            return tm.ite(cond, V._get(()), old(idx))
        A._get = get
        return

    if not loops:
        def get(idx, old=old):
            cond, vidx = region_and_vidx(idx)
            if cond is tm.FALSE:
                return old(idx)
            return tm.ite(cond, value_at(vidx), old(idx))
        A._get = get
    else:
        lvars = [l.var for l in loops]
        c.axiom("generic loop iteration: stores quantified over the loop variables, last writer wins (witness functions)")

        def wit(idx):
            return [tm.app("lw!%s!%d" % (tag, k), INT, *idx) for k in range(len(lvars))]

        def get(idx, old=old):
            W = wit(idx)
            sub = dict(zip(lvars, W))
            inr = tm.and_(*[tm.and_(tm.le(tm.const(0), w), tm.lt(w, l.bound)) for w, l in zip(W, loops)])
            cond, vidx = region_and_vidx(idx, sub)
            # register the read index so the witness axiom gets instantiated for it
            reads.append(idx)
            return tm.ite(tm.and_(inr, cond), value_at(vidx, sub), old(idx))
        reads = []

        def inst(cands, reads=reads):
            out = []
            seen = set()
            for idx in list(reads):
                if idx in seen:
                    continue
                seen.add(idx)
                W = wit(idx)
                subw = dict(zip(lvars, W))
                inrw = tm.and_(*[tm.and_(tm.le(tm.const(0), w), tm.lt(w, l.bound)) for w, l in zip(W, loops)])
                condw, _ = region_and_vidx(idx, subw)
                for combo in itertools.product(cands, repeat=len(lvars)):
                    sub = dict(zip(lvars, combo))
                    inr = tm.and_(*[tm.and_(tm.le(tm.const(0), v), tm.lt(v, l.bound)) for v, l in zip(combo, loops)])
                    cond, _ = region_and_vidx(idx, sub)
                    # lexicographic (combo) <= (W)
                    lex = tm.FALSE
                    for k in reversed(range(len(lvars))):
                        lex = tm.or_(tm.lt(combo[k], W[k]), tm.and_(tm.eq(combo[k], W[k]), lex if k < len(lvars) - 1 else tm.TRUE))
                    out.append(tm.implies(tm.and_(inr, cond), tm.and_(inrw, condw, lex)))
            return out
        c.inst.append(inst)
        A._get = get
    if V.sort == REAL and A.sort != REAL:
        A.sort = REAL


# ---------------------------------------------------------------- generic loops

class SRange:
    """range(n) with symbolic n: ONE generic iteration with a fresh loop
    variable; stores in the body become quantified over it."""

    def __init__(self, n):
        self.n = _t(n)

    def __iter__(self):
        c = ic()
        v = tm.var("it!%d" % next(_uid), INT)
        c.add(tm.and_(tm.le(tm.const(0), v), tm.lt(v, self.n)))
        lp = Loop(v, self.n)
        c.loops.append(lp)
        c.axiom("loop with symbolic trip count executed once for a generic index (sound for write-only bodies; reads of "
                "arrays written in the loop are rejected)")
        try:
            yield S(v)
        finally:
            c.loops.remove(lp)

    def __len__(self):
        raise Unsupported("len(range(symbolic))")


class SProduct:
    """itertools.product over ranges of which at least one has a symbolic length: nested generic iterations (first factor outermost, as in itertools)."""

    def __init__(self, its):
        self.its = its

    def __iter__(self):
        def rec(k, acc):
            if k == len(self.its):
                yield tuple(acc)
                return
            for v in self.its[k]:
                yield from rec(k + 1, acc + [v])
        return rec(0, [])


def sproduct(*its, **kw):
    import itertools
    if kw or not any(isinstance(i, SRange) for i in its):
        return itertools.product(*its, **kw)
    if not all(isinstance(i, (SRange, range)) for i in its):
        raise Unsupported("product over symbolic ranges mixed with other iterables")
    return SProduct(list(its))


def senumerate(it, start=0):
    """enumerate(product(range(a), range(b), ..)): the counter of the generic iteration is the mixed-radix number of the loop indices"""
    if not isinstance(it, (SProduct, SRange)):
        return enumerate(it, start)
    if isinstance(it, SRange):
        return ((S(tm.add(_t(start), _t(v))), v) for v in it)
    for r in it.its:
        if isinstance(r, range) and (r.start != 0 or r.step != 1):
            raise Unsupported("enumerate(product(..)) over ranges that do not start at 0")

    def gen():
        lens = [r.n if isinstance(r, SRange) else tm.const(len(r)) for r in it.its]
        for tup in it:
            k = tm.const(0)
            for v, n in zip(tup, lens):
                k = tm.add(tm.mul(k, n), _t(v))
            yield S(tm.add(_t(start), k)), tup
    return gen()


def slen(x):
    """len() that may return a symbolic extent for symbolic arrays."""
    if isinstance(x, SArr):
        d = x._shape[0]
        return d if is_conc(d) else S(d)
    return builtins.len(x)


def srange(*a):
    if any(isinstance(x, (S, T)) and not _t(x).is_const for x in a):
        if len(a) != 1:
            raise Unsupported("range(start, stop) with symbolic bounds")
        return SRange(a[0])
    return builtins.range(*[int(_t(x).value) if isinstance(x, (S, T)) else x for x in a])


# ---------------------------------------------------------------- numpy model

def _any_sym(*xs):
    for x in xs:
        if isinstance(x, (SArr, S)):
            return True
        if isinstance(x, (tuple, list)) and _any_sym(*x):
            return True
    return False


def np_zeros(shape, dtype=None, order="C"):
    if not isinstance(shape, (tuple, list)):
        shape = (shape,)
    sort = REAL
    if dtype is not None:
        try:
            dt = np.dtype(dtype)
            sort = BOOL if dt == np.dtype(bool) else (INT if np.issubdtype(dt, np.integer) else REAL)
        except TypeError:
            sort = REAL
    return SArr.full(tuple(shape), tm.const(Fraction(0), sort), sort)


def np_stack_axis0(parts):
    """np.array([a, b, ...]) / vstack of equal-shaped arrays along a new axis 0."""
    parts = [as_sarr(p) for p in parts]
    n = len(parts)
    shp = parts[0]._shape
    sort = REAL if any(p.sort == REAL for p in parts) else parts[0].sort

    def get(idx, parts=parts):
        r = idx[0]
        if r.is_const:
            return parts[int(r.value)]._get(idx[1:])
        out = parts[-1]._get(idx[1:])
        for k in reversed(range(n - 1)):
            out = tm.ite(tm.eq(r, tm.const(k)), parts[k]._get(idx[1:]), out)
        return out
    return SArr((n,) + shp, get, sort)


def np_concat(parts, axis):
    parts = [as_sarr(p) for p in parts]
    parts = [p for p in parts if not (is_conc(p._shape[axis]) and p._shape[axis] == 0)] or parts[:1]
    offs = [0]
    for p in parts:
        offs.append(_dim(S(_t(offs[-1])) + S(_t(p._shape[axis]))))
    shp = list(parts[0]._shape)
    shp[axis] = offs[-1]
    sort = REAL if any(p.sort == REAL for p in parts) else parts[0].sort

    def get(idx, parts=parts, offs=offs, axis=axis):
        i = idx[axis]
        out = None
        for k in reversed(range(len(parts))):
            sub = parts[k]._get(idx[:axis] + (tm.sub(i, _t(offs[k])),) + idx[axis + 1:])
            out = sub if out is None else tm.ite(tm.lt(i, _t(offs[k + 1])), sub, out)
        return out
    return SArr(tuple(shp), get, sort)


def np_hstack(parts):
    parts = [as_sarr(p) for p in parts]
    return np_concat(parts, 0 if parts[0].ndim == 1 else 1)


def np_vstack(parts):
    parts = [as_sarr(p) for p in parts]
    parts = [p if p.ndim > 1 else p[None] for p in parts]
    return np_concat(parts, 0)


def np_array(obj, dtype=None, **kw):
    if isinstance(obj, SArr):
        return obj.copy()
    if isinstance(obj, (list, tuple)) and _any_sym(*obj):
        if all(isinstance(o, (S, T, int, float, np.integer, np.floating)) for o in obj):
            ts = [_t(o) for o in obj]
            return SArr((len(ts),), lambda idx, ts=ts: ts[int(idx[0].value)] if idx[0].is_const else _ite_table(idx[0], ts), ts[0].sort)
        return np_stack_axis0([np_array(o) if isinstance(o, (list, tuple)) else o for o in obj])
    return np.array(obj, dtype=dtype, **kw)


def _ite_table(i, ts):
    out = ts[-1]
    for k in reversed(range(len(ts) - 1)):
        out = tm.ite(tm.eq(i, tm.const(k)), ts[k], out)
    return out


def np_arange(*a, dtype=None):
    if not _any_sym(*a):
        return np.arange(*a, dtype=dtype)
    if len(a) == 1:
        return SArr((a[0],), lambda idx: idx[0], INT)
    if len(a) == 2:
        lo = _t(a[0])
        return SArr((_dim(S(_t(a[1])) - S(lo)),), lambda idx, lo=lo: tm.add(lo, idx[0]), INT)
    raise Unsupported("arange with step")


def np_tile(A, reps):
    A = as_sarr(A)
    if isinstance(reps, (int, np.integer, S)):
        reps = (reps,)
    reps = tuple(reps)
    n = max(A.ndim, len(reps))
    shp = (1,) * (n - A.ndim) + A._shape
    reps = (1,) * (n - len(reps)) + tuple(_dim(r) for r in reps)
    out_shape = tuple(_dim(S(_t(s)) * S(_t(r))) for s, r in zip(shp, reps))
    off = n - A.ndim

    def get(idx, A=A, shp=shp, reps=reps, off=off):
        src = []
        for k in range(n):
            if k < off:
                continue
            if is_conc(reps[k]) and reps[k] == 1:
                src.append(idx[k])
            elif is_conc(shp[k]) and shp[k] == 1:
                src.append(tm.const(0))
            else:
                src.append(dec([reps[k], shp[k]], idx[k])[1])
        return A._get(tuple(src))
    return SArr(out_shape, get, A.sort)


def np_repeat(A, repeats, axis=None):
    A = as_sarr(A)
    if axis is None:
        if A.ndim != 1:
            A = A.flatten()
        axis = 0
    r = _dim(repeats) if not isinstance(repeats, SArr) else _unsupported("repeat with array counts")
    shp = list(A._shape)
    shp[axis] = _dim(S(_t(shp[axis])) * S(_t(r)))

    def get(idx, A=A, axis=axis, r=r):
        i = dec([A._shape[axis], r], idx[axis])[0]
        return A._get(idx[:axis] + (i,) + idx[axis + 1:])
    return SArr(tuple(shp), get, A.sort)


def np_sum(A, axis=None, **kw):
    if not isinstance(A, SArr):
        return np.sum(A, axis=axis, **kw)
    if axis is None:
        axes = tuple(range(A.ndim))
    elif isinstance(axis, int):
        axes = (axis % A.ndim,)
    else:
        axes = tuple(a % A.ndim for a in axis)
    # concrete small axes are expanded
    if all(is_conc(A._shape[a]) and A._shape[a] <= 16 for a in axes):
        keep = [k for k in range(A.ndim) if k not in axes]

        def get(idx, A=A, axes=axes, keep=keep):
            tot = None
            for combo in itertools.product(*[range(A._shape[a]) for a in axes]):
                full = [None] * A.ndim
                for k, a in enumerate(axes):
                    full[a] = tm.const(combo[k])
                for k, a in enumerate(keep):
                    full[a] = idx[k]
                v = A._get(tuple(full))
                tot = v if tot is None else tm.add(tot, v)
            return tot if tot is not None else tm.const(Fraction(0), A.sort)
        return SArr(tuple(A._shape[k] for k in keep), get, A.sort if A.sort != BOOL else INT)
    # symbolic axis: uninterpreted big operator named by the structure of the summand
    keep = [k for k in range(A.ndim) if k not in axes]
    ph = [tm.var("ph!%d" % k, INT) for k in range(A.ndim)]
    body = A._get(tuple(ph))
    bounds = [_t(A._shape[a]) for a in axes]
    # free variables in order of first occurrence (deterministic for structurally equal summands), renamed canonically
    order = []
    for n in tm.subterms(tm.app("bs!tuple", INT, body, *bounds)):
        if n.op == "var" and not n.args[0].startswith("ph!") and n not in order:
            order.append(n)
    canon = {v: tm.var("fv!%d" % k, v.sort) for k, v in enumerate(order)}
    nbody = tm.substitute(tm.app("bs!tuple", INT, body, *bounds), canon)
    name = "bigsum!%x!%s" % (nbody._h & 0xffffffffffff, "_".join(str(a) for a in axes))
    ic().axiom("sum over a symbolic axis is an uninterpreted big operator (same summand => same symbol)")
    srt = REAL if A.sort == REAL else INT

    def get(idx, keep=keep, order=order):
        return tm.app(name, srt, *idx, *order)
    out = SArr(tuple(A._shape[k] for k in keep), get, srt)
    out.bigsum = dict(name=name, of=A, axes=axes, keep=keep)
    return out


def np_max(A, axis=None):
    if not isinstance(A, SArr):
        return np.max(A, axis=axis)
    if axis is not None:
        raise Unsupported("max with axis")
    c = ic()
    c.axiom("np.max: upper bound attained by some element (non-empty array)")
    m = tm.fresh("max", A.sort)
    ph = [tm.var("mx!%d" % k, INT) for k in range(A.ndim)]
    c.add(tm.forall(ph, tm.implies(A.in_bounds(ph), tm.le(A._get(tuple(ph)), m)), patterns=[[A._get(tuple(ph))]] if A._get(tuple(ph)).op == "app" else ()))
    w = [tm.fresh("argmax", INT) for _ in range(A.ndim)]
    c.add(tm.and_(A.in_bounds(w), tm.eq(A._get(tuple(w)), m)))
    A.max_witness = (m, w)
    r = S(m)
    MAXES[m] = A
    return r


MAXES = {}


def hint_max(m, idx):
    """ground instance of the np.max axiom: A[idx] <= max(A) for in-bounds idx."""
    m = _t(m)
    if m not in MAXES:
        found = [n for n in tm.subterms(m) if n in MAXES]
        if len(found) != 1:
            raise Unsupported("hint_max: no unique np.max result inside %s" % tm.show(m, 80))
        m = found[0]
    A = MAXES[m]
    idx = tuple(_t(i) for i in idx)
    ic().add(tm.implies(A.in_bounds(idx), tm.le(A._get(idx), m)))


def lemma_mul_mono(a, b, c):
    """valid NIA fact (proved in unit lemmas/arith): a >= 0 and 0 <= b < c  =>  a*b + a <= a*c."""
    a, b, c = _t(a), _t(b), _t(c)
    return tm.implies(tm.and_(tm.le(tm.const(0), a), tm.le(tm.const(0), b), tm.lt(b, c)),
                      tm.and_(tm.le(tm.add(tm.mul(a, b), a), tm.mul(a, c)), tm.le(tm.const(0), tm.mul(a, b))))


def np_nonzero(A):
    A = as_sarr(A)
    if A.ndim != 1:
        raise Unsupported("nonzero of rank %d" % A.ndim)
    c = ic()
    c.axiom("np.nonzero: ascending enumeration of the true positions")
    _kv = tm.var("nz!key", INT)
    _kt = A._get((_kv,))
    key = (_kt, _t(A._shape[0]))
    if key in c.nz_cache:
        out, own = c.nz_cache[key]
        have = set(map(id, c.hyps))
        for h in own:                       # a unit that resets its hypotheses per path gets the enumeration's axioms again
            if id(h) not in have:
                c.add(h)
        return (out,)
    n = tm.fresh("nnz", INT)
    _h0 = len(c.hyps)
    f = tm.fresh_name("nz")
    N = _t(A._shape[0])
    c.add(tm.and_(tm.le(tm.const(0), n), tm.le(n, N)))
    j, j2, p = tm.var("nz!j", INT), tm.var("nz!j2", INT), tm.var("nz!p", INT)
    fj = tm.app(f, INT, j)

    def truth(i):
        v = A._get((i,))
        return v if v.sort == BOOL else tm.ne(v, tm.const(Fraction(0), v.sort))
    c.add(tm.forall([j], tm.implies(tm.and_(tm.le(tm.const(0), j), tm.lt(j, n)),
                                    tm.and_(tm.le(tm.const(0), fj), tm.lt(fj, N), truth(fj))), patterns=[[fj]]))
    c.add(tm.forall([j, j2], tm.implies(tm.and_(tm.le(tm.const(0), j), tm.lt(j, j2), tm.lt(j2, n)),
                                        tm.lt(fj, tm.app(f, INT, j2))), patterns=[[fj, tm.app(f, INT, j2)]]))
    rk = tm.fresh_name("nzrank")
    rp = tm.app(rk, INT, p)
    c.add(tm.forall([p], tm.implies(tm.and_(tm.le(tm.const(0), p), tm.lt(p, N), truth(p)),
                                    tm.and_(tm.le(tm.const(0), rp), tm.lt(rp, n), tm.eq(tm.app(f, INT, rp), p))), patterns=[[rp]]))
    out = SArr((n,), lambda idx, f=f: tm.app(f, INT, idx[0]), INT)
    out.nonzero_of = (A, rk)
    c.nz_cache[key] = (out, list(c.hyps[_h0:]))
    return (out,)


def sort_network(vals):
    """ascending sort of a short list of terms by compare-exchange."""
    v = list(vals)
    n = len(v)
    for i in range(n):
        for j in range(n - 1 - i):
            a, b = v[j], v[j + 1]
            c = tm.le(a, b)
            v[j], v[j + 1] = tm.ite(c, a, b), tm.ite(c, b, a)
    return v


def np_sort(A, axis=-1):
    if not isinstance(A, SArr):
        return np.sort(A, axis=axis)
    ax = axis % A.ndim
    d = A._shape[ax]
    if not is_conc(d) or d > 4:
        raise Unsupported("sort along an axis of extent %s" % (d,))

    def get(idx, A=A, ax=ax, d=d):
        vals = [A._get(idx[:ax] + (tm.const(r),) + idx[ax + 1:]) for r in range(d)]
        s = sort_network(vals)
        r = idx[ax]
        return s[int(r.value)] if r.is_const else _ite_table(r, s)
    return SArr(A._shape, get, A.sort)


def lex_lt(a, b):
    out = tm.FALSE
    for x, y in reversed(list(zip(a, b))):
        out = tm.or_(tm.lt(x, y), tm.and_(tm.eq(x, y), out))
    return out


def np_unique(A, return_index=False, return_inverse=False, return_counts=False, axis=None):
    if not isinstance(A, SArr):
        return np.unique(A, return_index=return_index, return_inverse=return_inverse, return_counts=return_counts, axis=axis)
    if return_counts:
        raise Unsupported("unique(return_counts)")
    c = ic()
    c.axiom("np.unique%s: sorted distinct %s, return_index = first occurrence, return_inverse" % ("(axis=1)" if axis == 1 else "", "columns" if axis == 1 else "values"))
    if axis == 1 and A.ndim == 2:
        r = A._shape[0]
        if not is_conc(r):
            raise Unsupported("unique(axis=1) with symbolic row count")
        P = _t(A._shape[1])
        col = lambda p: [A._get((tm.const(k), p)) for k in range(r)]
    elif axis is None and A.ndim >= 1:
        if A.ndim > 1:
            A = A.flatten()
        r = 1
        P = _t(A._shape[0])
        col = lambda p: [A._get((p,))]
    else:
        raise Unsupported("unique of rank %d with axis=%r" % (A.ndim, axis))
    ne = tm.fresh("nuniq", INT)
    U, ixa, ixb = tm.fresh_name("uq"), tm.fresh_name("uqidx"), tm.fresh_name("uqinv")
    Ucol = lambda m: [tm.app(U, A.sort, tm.const(k), m) for k in range(r)]
    p, m, m2 = tm.var("uq!p", INT), tm.var("uq!m", INT), tm.var("uq!m2", INT)
    c.add(tm.and_(tm.le(tm.const(0), ne), tm.le(ne, P), tm.implies(tm.lt(tm.const(0), P), tm.lt(tm.const(0), ne))))
    ib = tm.app(ixb, INT, p)
    c.add(tm.forall([p], tm.implies(tm.and_(tm.le(tm.const(0), p), tm.lt(p, P)),
                                    tm.and_(tm.le(tm.const(0), ib), tm.lt(ib, ne),
                                            *[tm.eq(u, a) for u, a in zip(Ucol(ib), col(p))])), patterns=[[ib]]))
    ia = tm.app(ixa, INT, m)
    c.add(tm.forall([m], tm.implies(tm.and_(tm.le(tm.const(0), m), tm.lt(m, ne)),
                                    tm.and_(tm.le(tm.const(0), ia), tm.lt(ia, P), tm.eq(tm.app(ixb, INT, ia), m),
                                            *[tm.eq(u, a) for u, a in zip(Ucol(m), col(ia))])), patterns=[[ia]]))
    # first occurrence
    c.add(tm.forall([p], tm.implies(tm.and_(tm.le(tm.const(0), p), tm.lt(p, P)), tm.le(tm.app(ixa, INT, ib), p)), patterns=[[ib]]))
    # strictly increasing (lexicographic) => distinct
    c.add(tm.forall([m, m2], tm.implies(tm.and_(tm.le(tm.const(0), m), tm.lt(m, m2), tm.lt(m2, ne)), lex_lt(Ucol(m), Ucol(m2))),
                    patterns=[[tm.app(U, A.sort, tm.const(0), m), tm.app(U, A.sort, tm.const(0), m2)]]))
    if axis == 1:
        Uarr = SArr((r, ne), lambda idx, U=U, srt=A.sort: tm.app(U, srt, idx[0], idx[1]), A.sort)
    else:
        Uarr = SArr((ne,), lambda idx, U=U, srt=A.sort: tm.app(U, srt, tm.const(0), idx[0]), A.sort)
    Uarr.unique_of = dict(src=A, ixa=ixa, ixb=ixb, ne=ne)
    out = [Uarr]
    if return_index:
        out.append(SArr((ne,), lambda idx, f=ixa: tm.app(f, INT, idx[0]), INT))
    if return_inverse:
        out.append(SArr((P,), lambda idx, f=ixb: tm.app(f, INT, idx[0]), INT))
    return out[0] if len(out) == 1 else tuple(out)


def hint_unique(Uarr, p):
    """ground instance of the np.unique membership axiom at flat position p of the (flattened) source array."""
    rec = Uarr.unique_of
    A, ixb, ne = rec["src"], rec["ixb"], rec["ne"]
    p = _t(p)
    if A.ndim != 1:
        raise Unsupported("hint_unique on axis-unique")
    P = _t(A._shape[0])
    ib = tm.app(ixb, INT, p)
    uname = Uarr.get((ib,))
    ic().add(tm.implies(tm.and_(tm.le(tm.const(0), p), tm.lt(p, P)),
                        tm.and_(tm.le(tm.const(0), ib), tm.lt(ib, ne), tm.eq(uname, A._get((p,))))))


def np_flatten_like(A, *a, **k):
    return A


class NPModel:
    """Stands in for the global `np` of skfem modules during Mode I runs."""

    def __init__(self):
        self._ov = dict(
            zeros=self._zeros, ones=self._ones, empty=self._zeros, zeros_like=self._zeros_like,
            array=np_array, asarray=np_array, ascontiguousarray=lambda a, *x, **k: a if isinstance(a, SArr) else np.ascontiguousarray(a, *x, **k),
            hstack=self._d(np_hstack, np.hstack), vstack=self._d(np_vstack, np.vstack),
            concatenate=self._concat, arange=np_arange, tile=self._d2(np_tile, np.tile), repeat=self._d2(np_repeat, np.repeat),
            sum=np_sum, max=np_max, sort=np_sort, unique=np_unique, nonzero=self._nz, abs=self._abs,
            reshape=self._reshape, moveaxis=self._moveaxis, broadcast_to=self._broadcast_to,
        )

    def _d(self, sym, real):
        def f(parts, *a, **k):
            if _any_sym(*parts):
                return sym(parts)
            return real(parts, *a, **k)
        return f

    def _d2(self, sym, real):
        def f(A, *a, **k):
            if _any_sym(A, *a):
                return sym(A, *a, **k)
            return real(A, *a, **k)
        return f

    def _concat(self, parts, axis=0):
        if _any_sym(*parts):
            return np_concat(parts, axis)
        return np.concatenate(parts, axis=axis)

    def _zeros(self, shape, dtype=None, order="C"):
        if _any_sym(shape):
            return np_zeros(shape, dtype)
        return np.zeros(shape, dtype=dtype)

    def _ones(self, shape, dtype=None, order="C"):
        if _any_sym(shape):
            z = np_zeros(shape, dtype)
            return SArr.full(z._shape, tm.const(Fraction(1), z.sort), z.sort)
        return np.ones(shape, dtype=dtype)

    def _zeros_like(self, a, dtype=None):
        if isinstance(a, SArr):
            return SArr.full(a._shape, tm.const(Fraction(0), a.sort), a.sort)
        return np.zeros_like(a, dtype=dtype)

    def _nz(self, a):
        if isinstance(a, SArr):
            return np_nonzero(a)
        return np.nonzero(a)

    def _abs(self, a):
        if isinstance(a, (SArr, S)):
            return abs(a)
        return np.abs(a)

    def _broadcast_to(self, a, shape, **kw):
        if not (isinstance(a, SArr) or _any_sym(shape)):
            return np.broadcast_to(a, shape, **kw)
        a = as_sarr(a)
        shape = tuple(_dim(d) for d in (shape if isinstance(shape, (tuple, list)) else (shape,)))
        off = len(shape) - a.ndim
        if off < 0:
            raise Unsupported("broadcast_to a smaller rank")
        ones = [is_conc(d) and int(d) == 1 for d in a._shape]

        def get(idx, a=a, off=off, ones=ones):
            return a._get(tuple(tm.const(0) if o else i for i, o in zip(idx[off:], ones)))
        return SArr(shape, get, a.sort)

    def _moveaxis(self, a, source, destination):
        if not isinstance(a, SArr):
            return np.moveaxis(a, source, destination)
        n = a.ndim
        src, dst = int(source) % n, int(destination) % n
        order = [k for k in range(n) if k != src]
        order.insert(dst, src)
        return a.transpose(*order)

    def _reshape(self, a, shape, order="C"):
        if isinstance(a, SArr) or _any_sym(shape):
            return as_sarr(a).reshape(shape, order=order)
        return np.reshape(a, shape, order=order)

    def __getattr__(self, name):
        ov = object.__getattribute__(self, "_ov")
        if name in ov:
            return ov[name]
        return getattr(np, name)


@contextlib.contextmanager
def mode_i(modules, extra_globals=None):
    """Run real code of the given modules with np -> NPModel and range -> srange."""
    model = NPModel()
    saved = []
    for mod in modules:
        if isinstance(mod, str):
            mod = sys.modules[mod]
        base = [("np", model), ("range", srange), ("len", slen)]
        if "product" in mod.__dict__:
            base.append(("product", sproduct))              # from itertools import product
            base.append(("enumerate", senumerate))
        for attr, val in base + list((extra_globals or {}).items()):
            saved.append((mod, attr, mod.__dict__.get(attr, _MISSING)))
            setattr(mod, attr, val)
    try:
        yield model
    finally:
        for mod, attr, old in reversed(saved):
            if old is _MISSING:
                try:
                    delattr(mod, attr)
                except AttributeError:
                    pass
            else:
                setattr(mod, attr, old)


_MISSING = object()

