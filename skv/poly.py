"""Exact multivariate polynomials / rational functions over Q.

Specification functions used by contracts: differentiation (power rule),
exact integrals of monomials over reference cells, substitution, degree.
Also the "ground-rational" back end: a term is normalised to P/Q.
"""
from __future__ import annotations

from fractions import Fraction
from math import factorial

from . import term as tm
from .term import T, Unsupported


class Poly:
    """dict: tuple of (var, exp) pairs sorted by var -> Fraction."""
    __slots__ = ("c",)

    def __init__(self, c=None):
        self.c = {k: v for k, v in (c or {}).items() if v != 0}

    @staticmethod
    def const(v):
        return Poly({(): Fraction(v)})

    @staticmethod
    def var(name):
        return Poly({((name, 1),): Fraction(1)})

    def is_zero(self):
        return not self.c

    def is_const(self):
        return all(k == () for k in self.c)

    def const_value(self):
        return self.c.get((), Fraction(0))

    def __add__(self, o):
        o = _p(o)
        c = dict(self.c)
        for k, v in o.c.items():
            c[k] = c.get(k, 0) + v
        return Poly(c)

    __radd__ = __add__

    def __neg__(self):
        return Poly({k: -v for k, v in self.c.items()})

    def __sub__(self, o):
        return self + (-_p(o))

    def __rsub__(self, o):
        return _p(o) - self

    def __mul__(self, o):
        o = _p(o)
        c: dict = {}
        for k1, v1 in self.c.items():
            for k2, v2 in o.c.items():
                k = _mulmono(k1, k2)
                c[k] = c.get(k, 0) + v1 * v2
        return Poly(c)

    __rmul__ = __mul__

    def __pow__(self, n):
        r = Poly.const(1)
        for _ in range(n):
            r = r * self
        return r

    def __eq__(self, o):
        return (self - _p(o)).is_zero()

    def __hash__(self):
        return hash(frozenset(self.c.items()))

    def vars(self):
        return sorted({v for k in self.c for v, _ in k})

    def degree(self, var=None):
        """total degree (var None) or degree in one variable; -1 for zero."""
        if not self.c:
            return -1
        if var is None:
            return max(sum(e for _, e in k) for k in self.c)
        return max(dict(k).get(var, 0) for k in self.c)

    def degree_in(self, vs):
        if not self.c:
            return -1
        return max(sum(e for v, e in k if v in vs) for k in self.c)

    def max_degree_per_var(self, vs):
        if not self.c:
            return -1
        return max(max((dict(k).get(v, 0) for v in vs), default=0) for k in self.c)

    def diff(self, var):
        c: dict = {}
        for k, v in self.c.items():
            d = dict(k)
            e = d.get(var, 0)
            if e == 0:
                continue
            if e == 1:
                del d[var]
            else:
                d[var] = e - 1
            kk = tuple(sorted(d.items()))
            c[kk] = c.get(kk, 0) + v * e
        return Poly(c)

    def subs(self, m: dict):
        """m: var -> Poly | number."""
        out = Poly()
        for k, v in self.c.items():
            term = Poly.const(v)
            for var, e in k:
                if var in m:
                    term = term * (_p(m[var]) ** e)
                else:
                    term = term * Poly({((var, e),): Fraction(1)})
            out = out + term
        return out

    def eval(self, m: dict):
        r = self.subs(m)
        if not r.is_const():
            raise ValueError("not all variables given")
        return r.const_value()

    def coeffs_in(self, vs):
        """Collect as polynomial in vs: dict exponent-tuple(ordered as vs) -> Poly in the rest."""
        out: dict = {}
        for k, v in self.c.items():
            d = dict(k)
            ex = tuple(d.pop(x, 0) for x in vs)
            rest = tuple(sorted(d.items()))
            out.setdefault(ex, {})
            out[ex][rest] = out[ex].get(rest, 0) + v
        return {ex: Poly(c) for ex, c in out.items() if not Poly(c).is_zero()}

    def __repr__(self):
        if not self.c:
            return "0"
        parts = []
        for k, v in sorted(self.c.items()):
            m = "*".join(("%s^%d" % (x, e)) if e != 1 else x for x, e in k)
            parts.append("%s%s" % (v, ("*" + m) if m else ""))
        return " + ".join(parts)


def _mulmono(k1, k2):
    if not k1:
        return k2
    if not k2:
        return k1
    d = dict(k1)
    for v, e in k2:
        d[v] = d.get(v, 0) + e
    return tuple(sorted(d.items()))


def _p(o):
    if isinstance(o, Poly):
        return o
    if isinstance(o, (int, Fraction)):
        return Poly.const(o)
    if isinstance(o, float):
        return Poly.const(tm.rationalize(o))
    raise TypeError(o)


class Rat:
    """P/Q, not reduced (equality by cross-multiplication)."""
    __slots__ = ("n", "d")

    def __init__(self, n, d=None):
        self.n = _p(n)
        self.d = _p(1) if d is None else _p(d)

    def __add__(self, o):
        o = _r(o)
        if self.d == o.d:
            return Rat(self.n + o.n, self.d)
        return Rat(self.n * o.d + o.n * self.d, self.d * o.d)

    def __neg__(self):
        return Rat(-self.n, self.d)

    def __sub__(self, o):
        return self + (-_r(o))

    def __mul__(self, o):
        o = _r(o)
        return Rat(self.n * o.n, self.d * o.d)

    def __truediv__(self, o):
        o = _r(o)
        return Rat(self.n * o.d, self.d * o.n)

    def is_zero(self):
        return self.n.is_zero()

    def __eq__(self, o):
        o = _r(o)
        return (self.n * o.d - o.n * self.d).is_zero()

    def is_poly(self):
        return self.d.is_const() and not self.d.is_zero()

    def as_poly(self):
        if not self.is_poly():
            raise ValueError("not a polynomial")
        return self.n * Poly.const(1 / self.d.const_value())


def _r(o):
    return o if isinstance(o, Rat) else Rat(o)


def term_to_rat(t: T, memo=None) -> Rat:
    """Normalise an arithmetic term without ite/app to a rational function."""
    if memo is None:
        memo = {}
    for n in tm.subterms(t):
        if n in memo:
            continue
        op = n.op
        a = [memo[c] for c in n.args] if op not in ("const", "var", "app") else None
        if op == "const":
            if n.sort == tm.BOOL:
                raise Unsupported("bool in arithmetic normalisation")
            r = Rat(Poly.const(n.value))
        elif op == "var":
            r = Rat(Poly.var(n.args[0]))
        elif op == "+":
            r = a[0] + a[1]
        elif op == "-":
            r = a[0] - a[1]
        elif op == "*":
            r = a[0] * a[1]
        elif op == "/":
            r = a[0] / a[1]
        elif op == "neg":
            r = -a[0]
        elif op == "to_real":
            r = a[0]
        elif op == "sqrt":
            r = Rat(Poly.var("sqrt!%d" % (n._h & 0xffffffffffff)))
        else:
            raise Unsupported("term_to_rat: operator %s" % op)
        memo[n] = r
    return memo[t]


def term_to_poly(t: T) -> Poly:
    return term_to_rat(t).as_poly()


def poly_to_term(p: Poly, sort=tm.REAL) -> T:
    out = tm.const(Fraction(0), sort)
    for k, v in sorted(p.c.items()):
        m = tm.const(v, sort)
        for var, e in k:
            m = tm.mul(m, tm.powi(tm.var(var, sort), e))
        out = tm.add(out, m)
    return out


# ------------------------------------------------------------ exact integrals

def integrate_monomial_simplex(exps):
    """Integral of prod x_i^a_i over the unit d-simplex: prod a_i! / (sum a_i + d)!"""
    d = len(exps)
    num = 1
    for a in exps:
        num *= factorial(a)
    return Fraction(num, factorial(sum(exps) + d))


def integrate_monomial_cube(exps):
    r = Fraction(1)
    for a in exps:
        r *= Fraction(1, a + 1)
    return r


def integrate_monomial_wedge(exps):
    a, b, c = exps
    return integrate_monomial_simplex((a, b)) * Fraction(1, c + 1)


def integrate(p: Poly, vs, cell: str) -> Poly:
    """Integrate polynomial p over the reference cell in variables vs
    ('line','tri','tet' simplices; 'quad','hex' cubes; 'wedge')."""
    f = {"line": integrate_monomial_simplex, "tri": integrate_monomial_simplex,
         "tet": integrate_monomial_simplex, "quad": integrate_monomial_cube,
         "hex": integrate_monomial_cube, "wedge": integrate_monomial_wedge,
         "point": lambda e: Fraction(1)}[cell]
    out = Poly()
    for ex, co in p.coeffs_in(list(vs)).items():
        out = out + co * Poly.const(f(ex))
    return out
