"""Mode F: conservative provenance analysis of mutation sites over the AST of the working tree.

For every function it lists the statements that may modify an object in place together with the ROOTS the modified object may
stem from: `param:<name>` (an operand), `closure:<name>` (state captured by a closure or module global), `fresh` (created inside
the call).  A frame obligation `modifies M` holds when no site is rooted at an operand outside M.

Conservative rules (may over-approximate, never treats an operand as fresh):
  names           -> their current root set;  unknown names -> closure:<name>
  x.attr, x[...]  -> roots of x        (fields and views alias their base; fancy indexing is not distinguished from slicing)
  x.copy(), x.astype(..), x.flatten(), x.tolist(), x.toarray(), x.tocsr()/tocsc()/tocoo(), np.array(x), arithmetic, comparisons,
  other calls     -> fresh             (assumption: library functions return fresh objects; `asarray`, `ascontiguousarray`,
                                        `_flatten_dofs`, `atleast_*`, `squeeze`, `reshape`, `ravel`, `view`, `T`/`transpose` pass their roots)
  IfExp / branches -> union
Mutation sites: subscript / attribute stores, augmented assignment on a name or subscript, calls of mutating methods
(sort, fill, resize, setdiag, eliminate_zeros, sum_duplicates, update, pop, popitem, append, extend, insert, remove, clear, setdefault,
 itemset, put), np.add.at / np.put / np.copyto / np.place / np.fill_diagonal, and `out=` arguments.
"""
from __future__ import annotations

import ast
import builtins
import os

PASS_THROUGH_FUNCS = {"asarray", "ascontiguousarray", "asanyarray", "atleast_1d", "atleast_2d", "atleast_3d", "squeeze", "reshape", "ravel",
                      "_flatten_dofs", "transpose", "swapaxes", "moveaxis", "broadcast_to", "expand_dims", "real", "imag", "view", "cast"}
PASS_THROUGH_METHODS = {"reshape", "ravel", "view", "squeeze", "transpose", "swapaxes", "T", "real", "imag"}
FRESH_METHODS = {"copy", "astype", "flatten", "tolist", "toarray", "tocsr", "tocsc", "tocoo", "todense", "sum", "mean", "max", "min", "dot", "nonzero", "diagonal",
                 "items", "keys", "values", "format", "split", "join", "multiply", "conj", "conjugate", "round", "cumsum", "argsort", "repeat", "tobytes"}
MUTATING_METHODS = {"sort", "fill", "resize", "setdiag", "eliminate_zeros", "sum_duplicates", "update", "pop", "popitem", "append", "extend", "insert", "remove",
                    "clear", "setdefault", "itemset", "put", "setflags", "partition", "byteswap"}
MUTATING_NP = {("np", "add", "at"), ("np", "put"), ("np", "copyto"), ("np", "place"), ("np", "fill_diagonal"), ("np", "putmask"), ("np", "subtract", "at"),
               ("np", "random", "seed"), ("np", "random", "shuffle")}
BUILTINS = set(dir(builtins))


class Site:
    __slots__ = ("kind", "line", "roots", "text")

    def __init__(self, kind, line, roots, text):
        self.kind, self.line, self.roots, self.text = kind, line, frozenset(roots), text

    def key(self):
        return (self.kind, tuple(sorted(r for r in self.roots if r != "fresh")))

    def __repr__(self):
        return "%s@%d roots=%s :: %s" % (self.kind, self.line, sorted(self.roots), self.text)


def _dotted(node):
    parts = []
    while isinstance(node, ast.Attribute):
        parts.append(node.attr)
        node = node.value
    if isinstance(node, ast.Name):
        parts.append(node.id)
        return tuple(reversed(parts))
    return None


class FuncAnalysis:
    def __init__(self, fn: ast.FunctionDef, module_names, src_lines):
        self.fn = fn
        self.env = {}
        self.sites = []
        self.module_names = module_names
        self.src = src_lines
        a = fn.args
        for arg in a.posonlyargs + a.args + a.kwonlyargs:
            self.env[arg.arg] = {"param:" + arg.arg}
        if a.vararg:
            self.env[a.vararg.arg] = {"param:" + a.vararg.arg}
        if a.kwarg:
            self.env[a.kwarg.arg] = {"param:" + a.kwarg.arg}
        self.locals = self._assigned(fn)

    def _assigned(self, fn):
        out = set()
        for n in ast.walk(fn):
            if isinstance(n, ast.Name) and isinstance(n.ctx, ast.Store):
                out.add(n.id)
            elif isinstance(n, (ast.FunctionDef, ast.ClassDef)) and n is not fn:
                out.add(n.name)
            elif isinstance(n, (ast.Import, ast.ImportFrom)):
                for al in n.names:
                    out.add((al.asname or al.name).split(".")[0])
        return out

    def text(self, node):
        try:
            return self.src[node.lineno - 1].strip()[:120]
        except Exception:
            return ""

    def prov(self, e):
        if e is None:
            return {"fresh"}
        if isinstance(e, ast.Name):
            if e.id in self.env:
                return set(self.env[e.id])
            if e.id in self.locals:
                return {"fresh"}
            if e.id in BUILTINS or e.id in self.module_names:
                return {"fresh"} if e.id in BUILTINS else {"global:" + e.id}
            return {"closure:" + e.id}
        if isinstance(e, ast.Attribute):
            if e.attr in PASS_THROUGH_METHODS or True:
                return self.prov(e.value)
        if isinstance(e, ast.Subscript):
            return self.prov(e.value)
        if isinstance(e, ast.Starred):
            return self.prov(e.value)
        if isinstance(e, ast.IfExp):
            return self.prov(e.body) | self.prov(e.orelse)
        if isinstance(e, (ast.Tuple, ast.List, ast.Set)):
            out = {"fresh"}
            for x in e.elts:
                out |= self.prov(x)
            return out
        if isinstance(e, ast.Dict):
            return {"fresh"}            # a new dict (its values may alias, but storing into the dict does not modify them)
        if isinstance(e, ast.NamedExpr):
            p = self.prov(e.value)
            self.env[e.target.id] = p
            return p
        if isinstance(e, ast.Call):
            f = e.func
            if isinstance(f, ast.Attribute):
                if f.attr in FRESH_METHODS:
                    return {"fresh"}
                if f.attr in PASS_THROUGH_METHODS:
                    return self.prov(f.value)
                if f.attr in PASS_THROUGH_FUNCS and e.args:
                    return self.prov(e.args[0])
                if f.attr == "get" and not e.keywords:
                    return self.prov(f.value)
                return {"fresh"}
            if isinstance(f, ast.Name):
                if f.id in PASS_THROUGH_FUNCS and e.args:
                    return self.prov(e.args[0])
                return {"fresh"}
            return {"fresh"}
        return {"fresh"}

    def bind(self, target, roots):
        if isinstance(target, ast.Name):
            self.env[target.id] = set(roots)
        elif isinstance(target, (ast.Tuple, ast.List)):
            for t in target.elts:
                self.bind(t.value if isinstance(t, ast.Starred) else t, roots)
        elif isinstance(target, ast.Subscript):
            self.sites.append(Site("store-item", target.lineno, self.prov(target.value), self.text(target)))
        elif isinstance(target, ast.Attribute):
            self.sites.append(Site("store-attr:" + target.attr, target.lineno, self.prov(target.value), self.text(target)))

    def visit_call(self, c):
        f = c.func
        if isinstance(f, ast.Attribute) and f.attr in MUTATING_METHODS:
            d = _dotted(f)
            if not (d and d[0] in ("np", "numpy", "logger", "warnings")):
                self.sites.append(Site("call:" + f.attr, c.lineno, self.prov(f.value), self.text(c)))
        d = _dotted(f)
        if d and d in MUTATING_NP:
            tgt = c.args[0] if c.args else None
            roots = self.prov(tgt) if tgt is not None else {"global:np.random"}
            if d[:2] == ("np", "random"):
                roots = {"global:np.random"}
            self.sites.append(Site("call:" + ".".join(d), c.lineno, roots, self.text(c)))
        for kw in c.keywords:
            if kw.arg == "out":
                self.sites.append(Site("out=", c.lineno, self.prov(kw.value), self.text(c)))

    def run_body(self, body):
        for st in body:
            self.stmt(st)

    def stmt(self, st):
        for n in ast.walk(st) if not isinstance(st, (ast.FunctionDef, ast.ClassDef, ast.For, ast.While, ast.If, ast.With, ast.Try)) else []:
            if isinstance(n, ast.Call):
                self.visit_call(n)
        if isinstance(st, ast.Assign):
            r = self.prov(st.value)
            for t in st.targets:
                self.bind(t, r)
        elif isinstance(st, ast.AnnAssign):
            if st.value is not None:
                self.bind(st.target, self.prov(st.value))
        elif isinstance(st, ast.AugAssign):
            t = st.target
            if isinstance(t, ast.Name):
                roots = self.prov(t)
                self.sites.append(Site("augassign", st.lineno, roots, self.text(st)))
            elif isinstance(t, ast.Subscript):
                self.sites.append(Site("store-item", st.lineno, self.prov(t.value), self.text(st)))
            elif isinstance(t, ast.Attribute):
                self.sites.append(Site("store-attr:" + t.attr, st.lineno, self.prov(t.value), self.text(st)))
        elif isinstance(st, (ast.For, ast.AsyncFor)):
            for n in ast.walk(st.iter):
                if isinstance(n, ast.Call):
                    self.visit_call(n)
            self.bind(st.target, self.prov(st.iter))
            for _ in range(2):
                self.run_body(st.body)
            self.run_body(st.orelse)
        elif isinstance(st, ast.While):
            for _ in range(2):
                self.run_body(st.body)
            self.run_body(st.orelse)
        elif isinstance(st, ast.If):
            for n in ast.walk(st.test):
                if isinstance(n, ast.Call):
                    self.visit_call(n)
            before = {k: set(v) for k, v in self.env.items()}
            self.run_body(st.body)
            after_body = self.env
            self.env = before
            self.run_body(st.orelse)
            for k, v in after_body.items():
                self.env[k] = self.env.get(k, set()) | v
        elif isinstance(st, (ast.With, ast.AsyncWith)):
            for it in st.items:
                if it.optional_vars is not None:
                    self.bind(it.optional_vars, self.prov(it.context_expr))
            self.run_body(st.body)
        elif isinstance(st, ast.Try):
            self.run_body(st.body)
            for h in st.handlers:
                self.run_body(h.body)
            self.run_body(st.orelse)
            self.run_body(st.finalbody)
        elif isinstance(st, (ast.FunctionDef, ast.AsyncFunctionDef)):
            pass     # nested functions are analysed separately (their free variables are closure:<name>)
        elif isinstance(st, ast.Delete):
            for t in st.targets:
                if isinstance(t, ast.Subscript):
                    self.sites.append(Site("del-item", st.lineno, self.prov(t.value), self.text(st)))

    def analyse(self):
        body = self.fn.body
        self.run_body(body)
        # dedupe
        seen, out = set(), []
        for s in self.sites:
            k = (s.kind, s.line, s.roots)
            if k not in seen:
                seen.add(k)
                out.append(s)
        self.sites = out
        return out


def analyse_file(path):
    """{qualname: [Site]} for every function (methods as Class.name, nested functions as outer.<locals>.inner)."""
    src = open(path).read()
    tree = ast.parse(src)
    lines = src.split("\n")
    module_names = set()
    for n in tree.body:
        if isinstance(n, (ast.Import, ast.ImportFrom)):
            for al in n.names:
                module_names.add((al.asname or al.name).split(".")[0])
        elif isinstance(n, (ast.FunctionDef, ast.ClassDef)):
            module_names.add(n.name)
        elif isinstance(n, ast.Assign):
            for t in n.targets:
                if isinstance(t, ast.Name):
                    module_names.add(t.id)
    out = {}

    def walk(node, prefix, outer_locals):
        for ch in ast.iter_child_nodes(node):
            if isinstance(ch, (ast.FunctionDef, ast.AsyncFunctionDef)):
                q = prefix + ch.name
                fa = FuncAnalysis(ch, module_names - outer_locals, lines)
                out[q] = fa.analyse()
                walk(ch, q + ".<locals>.", outer_locals | fa.locals | set(fa.env))
            elif isinstance(ch, ast.ClassDef):
                walk(ch, prefix + ch.name + ".", outer_locals)
            else:
                walk(ch, prefix, outer_locals)
    walk(tree, "", set())
    return out


def operand_sites(sites, ignore_self_cache=True):
    """sites that may modify an operand: rooted at a parameter or at closure/global state."""
    out = []
    for s in sites:
        roots = {r for r in s.roots if r != "fresh"}
        if not roots:
            continue
        if ignore_self_cache and roots == {"param:self"} and s.kind.startswith("store-attr:"):
            continue        # rebinding a field of self (lazy caches, __init__/__post_init__): COHERENCE obligations cover caches
        if roots == {"param:cls"}:
            continue
        out.append(s)
    return out
