"""Path exploration for real code whose control flow depends on symbolic
booleans: the function is re-executed once per feasible decision vector
(S.__bool__ consults the oracle installed here)."""
from __future__ import annotations

from . import solve
from . import term as tm
from .term import Unsupported


class Path:
    __slots__ = ("pc", "result", "exc", "side")

    def __init__(self, pc, result, exc, side):
        self.pc, self.result, self.exc, self.side = pc, result, exc, side

    def __repr__(self):
        return "Path(pc=%s, %s)" % ([tm.show(p, 60) for p in self.pc], self.exc or "returns")


SIDE = []   # side conditions introduced during one run (e.g. ceil/floor definitions)


def side(h):
    SIDE.append(h)


def explore(fn, hyps=(), max_paths=64, prune=True, catch=(Exception,), hyps_fn=None):
    """Yield Path objects for every feasible path of fn()."""
    pending = [[]]
    out = []
    hyps = list(hyps)
    while pending:
        if len(out) >= max_paths:
            raise Unsupported("more than %d paths" % max_paths)
        prefix = pending.pop()
        decisions, pc = [], []
        del SIDE[:]

        def brancher(t, prefix=prefix, decisions=decisions, pc=pc):
            k = len(decisions)
            if k < len(prefix):
                d = prefix[k]
            else:
                can_t = can_f = True
                if prune:
                    ctx = hyps + pc + list(SIDE) + (list(hyps_fn()) if hyps_fn else [])
                    if solve.prove(ctx, tm.not_(t), use_cvc5="never", timeout_ms=3000).status == "proved":
                        can_t = False
                    elif solve.prove(ctx, t, use_cvc5="never", timeout_ms=3000).status == "proved":
                        can_f = False
                if can_t and can_f:
                    pending.append(list(decisions) + [False])
                    d = True
                else:
                    d = can_t
            decisions.append(d)
            pc.append(t if d else tm.not_(t))
            return d

        old = tm._Ctx.brancher
        tm._Ctx.brancher = brancher
        try:
            try:
                res, exc = fn(), None
            except Unsupported:
                raise
            except catch as e:
                res, exc = None, e
        finally:
            tm._Ctx.brancher = old
        out.append(Path(list(pc), res, exc, list(SIDE)))
    return out
