"""Mode P helpers: run real repository code on symbolic points / tensors held in
NumPy object arrays, and turn the results into polynomial obligations."""
from __future__ import annotations

import contextlib
import sys
from fractions import Fraction

import numpy as np

from . import poly
from . import term as tm
from .term import S, T, Unsupported


# ---------------------------------------------------------------- numpy proxy

class NPProxy:
    """Stands in for the `np` global of skfem modules while symbolic code runs.
    Everything falls through to real NumPy except array creators, which must
    yield object arrays so that symbolic scalars can be stored into them."""

    def __init__(self, real):
        object.__setattr__(self, "_real", real)
        object.__setattr__(self, "_ov", {})

    def __getattr__(self, name):
        ov = object.__getattribute__(self, "_ov")
        if name in ov:
            return ov[name]
        return getattr(object.__getattribute__(self, "_real"), name)


def _obj_overrides():
    def zeros(shape, dtype=None, order="C"):
        a = np.empty(shape, dtype=object)
        a.fill(0)
        return a

    def ones(shape, dtype=None, order="C"):
        a = np.empty(shape, dtype=object)
        a.fill(1)
        return a

    def empty(shape, dtype=None, order="C"):
        a = np.empty(shape, dtype=object)
        a.fill(S(tm.fresh("uninit", tm.REAL)))
        return a

    def zeros_like(a, dtype=None):
        return zeros(np.shape(a))

    def ones_like(a, dtype=None):
        return ones(np.shape(a))

    def sqrt(x):
        if isinstance(x, S):
            return x.sqrt()
        return np.sqrt(x)

    def absf(x):
        if isinstance(x, S):
            return abs(x)
        return np.abs(x)

    def sign(x):
        def one(v):
            if isinstance(v, S):
                z = tm.const(Fraction(0), v.t.sort)
                return S(tm.ite(tm.gt(v.t, z), tm.const(Fraction(1), v.t.sort),
                                tm.ite(tm.lt(v.t, z), tm.const(Fraction(-1), v.t.sort), z)))
            return np.sign(v)
        if isinstance(x, S):
            return one(x)
        x = np.asarray(x)
        if x.dtype == object:
            return np.frompyfunc(one, 1, 1)(x)
        return np.sign(x)

    return dict(zeros=zeros, ones=ones, empty=empty, zeros_like=zeros_like, ones_like=ones_like,
                sqrt=sqrt, abs=absf, sign=sign)


@contextlib.contextmanager
def symbolic_numpy(extra=None, prefixes=("skfem",)):
    """Rebind the global `np` of every loaded skfem module to the proxy."""
    proxy = NPProxy(np)
    proxy._ov.update(_obj_overrides())
    if extra:
        proxy._ov.update(extra)
    patched = []
    for name, mod in list(sys.modules.items()):
        if mod is None or not name.startswith(prefixes):
            continue
        for attr in ("np", "numpy"):
            if getattr(mod, attr, None) is np:
                setattr(mod, attr, proxy)
                patched.append((mod, attr))
    try:
        yield proxy
    finally:
        for mod, attr in patched:
            setattr(mod, attr, np)


# ---------------------------------------------------------------- symbolic inputs

def sym_point(dim, names="xyz", trailing=(1,)):
    """X of shape (dim,)+trailing, every entry along the trailing axes the same
    generic point (x, y, z)."""
    vs = [tm.sreal(names[k]) for k in range(dim)]
    X = np.empty((dim,) + tuple(trailing), dtype=object)
    for k in range(dim):
        X[k] = vs[k]
    return X, list(names[:dim])


def sym_array(prefix, shape, sort=tm.REAL, trailing=()):
    a = np.empty(tuple(shape) + tuple(trailing), dtype=object)
    for idx in np.ndindex(*shape):
        a[idx] = S(tm.var(prefix + "".join(str(i) for i in idx), sort))
    return a


def first(a):
    """Scalar out of an array whose trailing axes are singleton/broadcast."""
    a = np.asarray(a, dtype=object)
    while a.ndim:
        a = a[0]
    return a.item() if isinstance(a, np.ndarray) else a


def t_of(v) -> T:
    if isinstance(v, np.ndarray):
        if v.size != 1:
            raise Unsupported("expected a scalar, got shape %s" % (v.shape,))
        v = v.reshape(-1)[0]
    return tm.lift(v)


def p_of(v) -> poly.Poly:
    return poly.term_to_poly(t_of(v))


def r_of(v) -> poly.Rat:
    return poly.term_to_rat(t_of(v))


def squeeze_tail(a, ntail):
    """Drop `ntail` trailing singleton axes -> object array of S/number."""
    a = np.asarray(a, dtype=object)
    for _ in range(ntail):
        if a.shape[-1] != 1:
            raise Unsupported("trailing axis is not singleton: %s" % (a.shape,))
        a = a[..., 0]
    return a


def model_point(model, names):
    out = {}
    for n in names:
        v = model.get(n, 0)
        if isinstance(v, str):
            v = v.lstrip("~").rstrip("?")
            try:
                v = float(Fraction(v))
            except (ValueError, ZeroDivisionError):
                v = float(v)
        out[n] = float(v)
    return out
