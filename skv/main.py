import argparse, json, os, sys


def main():
    ap = argparse.ArgumentParser()
    ap.add_argument("prop")
    ap.add_argument("--tier", default=os.environ.get("VERIF_TIER", "quick"))
    ap.add_argument("--only", action="append")
    ap.add_argument("--replay")
    ap.add_argument("--jobs", type=int)
    a = ap.parse_args()
    seed = int(os.environ.get("VERIF_SEED", "0") or 0)
    from . import core
    if a.replay:
        rp = json.load(open(a.replay))
        spec = rp.get("replay")
        if not spec:
            print("replay file names obligation %s; no concrete input (no-failing-input-found). Solver output:" % rp.get("obligation"))
            print(json.dumps({k: rp.get(k) for k in ("solver_model", "solver_detail", "clause")}, indent=1))
            sys.exit(0)
        res = core.run_native("replay.py", spec, timeout=900)
        print(json.dumps(res, indent=1))
        if res.get("confirmed"):
            print("VIOLATION property=%s replay=%s" % (rp.get("property"), a.replay))
            sys.exit(1)
        sys.exit(0)
    tier = a.tier if a.tier in ("quick", "thorough") else "quick"
    sys.exit(core.run_property(a.prop, tier=tier, seed=seed, only=a.only, jobs=a.jobs))


if __name__ == "__main__":
    main()
