"""Term language shared by all VC generators (sorts Int, Real, Bool).

Terms are hash-consed tuples; `S` wraps a term with Python operator
overloading so that *real repository code* (and real NumPy on object arrays)
can be executed on symbolic operands.  Terms are printed to SMT-LIB2 for z3 /
cvc5 and normalised to polynomials (poly.py) for the ground-rational back end.
"""
from __future__ import annotations

import itertools
import math
from fractions import Fraction

INT, REAL, BOOL = "Int", "Real", "Bool"


class Unsupported(Exception):
    """Raised when code leaves the subset the symbolic executor models."""


class T:
    __slots__ = ("op", "args", "sort", "_h", "__weakref__")
    _table: dict = {}

    def __new__(cls, op, args, sort):
        key = (op, args, sort)
        t = cls._table.get(key)
        if t is None:
            t = object.__new__(cls)
            t.op, t.args, t.sort = op, args, sort
            t._h = hash(key)
            cls._table[key] = t
        return t

    def __hash__(self):
        return self._h

    def __eq__(self, other):
        return self is other

    def __repr__(self):
        return show(self)

    def __deepcopy__(self, memo):
        return self

    def __copy__(self):
        return self

    def __reduce__(self):
        return (T, (self.op, self.args, self.sort))

    @property
    def is_const(self):
        return self.op == "const"

    @property
    def value(self):
        return self.args[0]


def clear_table():
    T._table.clear()


# ---------------------------------------------------------------- constructors

def rationalize(x: float) -> Fraction:
    """A1: float literals/operations are read as exact reals.  A double that is
    within 1 ulp of a small rational is read as that rational, otherwise as the
    exact binary value."""
    if x != x or x in (float("inf"), float("-inf")):
        raise Unsupported("non-finite float %r" % x)
    exact = Fraction(x)
    if exact.denominator <= 4096:
        return exact
    for lim in (1000, 100000):
        r = exact.limit_denominator(lim)
        if abs(r - exact) <= Fraction(3, 10 ** 16) * max(1, abs(exact)):
            return r
    return exact


def const(v, sort=None) -> T:
    if isinstance(v, bool):
        return T("const", (bool(v),), BOOL)
    if isinstance(v, int):
        return T("const", (Fraction(v),), sort or INT)
    if isinstance(v, Fraction):
        if sort is None:
            sort = INT if v.denominator == 1 else REAL
        return T("const", (v,), sort)
    if isinstance(v, float):
        return T("const", (rationalize(v),), REAL)
    try:
        import numpy as np
        if isinstance(v, np.bool_):
            return const(bool(v))
        if isinstance(v, np.integer):
            return const(int(v), sort)
        if isinstance(v, np.floating):
            return const(float(v))
    except ImportError:
        pass
    raise Unsupported("cannot make a constant from %r" % (type(v),))


TRUE = const(True)
FALSE = const(False)


def var(name: str, sort: str) -> T:
    return T("var", (name,), sort)


def app(fname: str, sort: str, *args) -> T:
    """Uninterpreted function application."""
    return T("app", (fname,) + tuple(args), sort)


def to_real(a: T) -> T:
    if a.sort == REAL:
        return a
    if a.sort == BOOL:
        return ite(a, const(Fraction(1), REAL), const(Fraction(0), REAL))
    if a.is_const:
        return const(a.value, REAL)
    return T("to_real", (a,), REAL)


def b2i(a: T) -> T:
    if a.sort == BOOL:
        return ite(a, const(1), const(0))
    return a


def _coerce2(a: T, b: T):
    a, b = b2i(a), b2i(b)
    if a.sort == b.sort:
        return a, b, a.sort
    return to_real(a), to_real(b), REAL


def add(a: T, b: T) -> T:
    a, b, s = _coerce2(a, b)
    if a.is_const and b.is_const:
        return const(a.value + b.value, s)
    if a.is_const and a.value == 0:
        return b
    if b.is_const and b.value == 0:
        return a
    return T("+", (a, b), s)


def neg(a: T) -> T:
    a = b2i(a)
    if a.is_const:
        return const(-a.value, a.sort)
    if a.op == "neg":
        return a.args[0]
    return T("neg", (a,), a.sort)


def sub(a: T, b: T) -> T:
    a, b, s = _coerce2(a, b)
    if a.is_const and b.is_const:
        return const(a.value - b.value, s)
    if b.is_const and b.value == 0:
        return a
    if a is b:
        return const(Fraction(0), s)
    return T("-", (a, b), s)


def mul(a: T, b: T) -> T:
    a, b, s = _coerce2(a, b)
    if a.is_const and b.is_const:
        return const(a.value * b.value, s)
    for p, q in ((a, b), (b, a)):
        if p.is_const:
            if p.value == 0:
                return const(Fraction(0), s)
            if p.value == 1:
                return q
    return T("*", (a, b), s)


def div(a: T, b: T) -> T:
    """Real division."""
    a, b = to_real(b2i(a)), to_real(b2i(b))
    if b.is_const:
        if b.value == 0:
            raise Unsupported("division by literal zero")
        if a.is_const:
            return const(a.value / b.value, REAL)
        if b.value == 1:
            return a
        return mul(a, const(1 / b.value, REAL))
    return T("/", (a, b), REAL)


def idiv(a: T, b: T) -> T:
    """Floor division on integers (Python //, divisor assumed positive in
    SMT-LIB `div`; callers add the sign hypothesis)."""
    if a.sort != INT or b.sort != INT:
        raise Unsupported("idiv on non-integers")
    if a.is_const and b.is_const and b.value != 0:
        return const(Fraction(math.floor(a.value / b.value)), INT)
    if b.is_const and b.value == 1:
        return a
    return T("div", (a, b), INT)


def mod(a: T, b: T) -> T:
    if a.sort != INT or b.sort != INT:
        raise Unsupported("mod on non-integers")
    if a.is_const and b.is_const and b.value != 0:
        return const(Fraction(a.value % b.value), INT)
    if b.is_const and b.value == 1:
        return const(0)
    return T("mod", (a, b), INT)


def powi(a: T, n: int) -> T:
    a = b2i(a)
    if n < 0:
        return div(const(Fraction(1), REAL), powi(a, -n))
    if n == 0:
        return const(Fraction(1), a.sort)
    if a.is_const:
        return const(a.value ** n, a.sort)
    r = a
    for _ in range(n - 1):
        r = mul(r, a)
    return r


def absv(a: T) -> T:
    a = b2i(a)
    if a.is_const:
        return const(abs(a.value), a.sort)
    return ite(ge(a, const(Fraction(0), a.sort)), a, neg(a))


def sqrt(a: T) -> T:
    """sqrt as an uninterpreted function with the defining axiom added by the
    prover (sqrt(a) >= 0 and sqrt(a)^2 = a for a >= 0)."""
    a = to_real(b2i(a))
    if a.is_const:
        v = a.value
        if v < 0:
            raise Unsupported("sqrt of negative constant")
        n, d = math.isqrt(v.numerator), math.isqrt(v.denominator)
        if n * n == v.numerator and d * d == v.denominator:
            return const(Fraction(n, d), REAL)
    return T("sqrt", (a,), REAL)


def ite(c: T, a: T, b: T) -> T:
    if c.sort != BOOL:
        raise Unsupported("ite on non-bool")
    if a.sort != b.sort:
        if BOOL in (a.sort, b.sort):
            a, b = b2i(a), b2i(b)
        if a.sort != b.sort:
            a, b = to_real(a), to_real(b)
    if c is TRUE:
        return a
    if c is FALSE:
        return b
    if a is b:
        return a
    return T("ite", (c, a, b), a.sort)


def _cmp(op, a, b, f):
    a, b, _ = _coerce2(a, b)
    if a.is_const and b.is_const:
        return const(bool(f(a.value, b.value)))
    return T(op, (a, b), BOOL)


def eq(a: T, b: T) -> T:
    if a.sort == BOOL and b.sort == BOOL:
        if a is b:
            return TRUE
        if a.is_const and b.is_const:
            return const(a.value == b.value)
        return T("=", (a, b), BOOL)
    a, b, _ = _coerce2(a, b)
    if a is b:
        return TRUE
    if a.is_const and b.is_const:
        return const(a.value == b.value)
    return T("=", (a, b), BOOL)


def ne(a, b):
    return not_(eq(a, b))


def lt(a, b):
    return _cmp("<", a, b, lambda x, y: x < y)


def le(a, b):
    return _cmp("<=", a, b, lambda x, y: x <= y)


def gt(a, b):
    return lt(b, a)


def ge(a, b):
    return le(b, a)


def not_(a: T) -> T:
    if a.sort != BOOL:
        raise Unsupported("not on non-bool")
    if a is TRUE:
        return FALSE
    if a is FALSE:
        return TRUE
    if a.op == "not":
        return a.args[0]
    return T("not", (a,), BOOL)


def and_(*xs) -> T:
    out = []
    for x in xs:
        if isinstance(x, (list, tuple)):
            x = and_(*x)
        if x.sort != BOOL:
            raise Unsupported("and on non-bool")
        if x is FALSE:
            return FALSE
        if x is TRUE:
            continue
        if x.op == "and":
            out.extend(x.args)
        else:
            out.append(x)
    if not out:
        return TRUE
    if len(out) == 1:
        return out[0]
    return T("and", tuple(dict.fromkeys(out)), BOOL)


def or_(*xs) -> T:
    out = []
    for x in xs:
        if isinstance(x, (list, tuple)):
            x = or_(*x)
        if x.sort != BOOL:
            raise Unsupported("or on non-bool")
        if x is TRUE:
            return TRUE
        if x is FALSE:
            continue
        if x.op == "or":
            out.extend(x.args)
        else:
            out.append(x)
    if not out:
        return FALSE
    if len(out) == 1:
        return out[0]
    return T("or", tuple(dict.fromkeys(out)), BOOL)


def implies(a: T, b: T) -> T:
    if a is TRUE:
        return b
    if a is FALSE or b is TRUE:
        return TRUE
    return T("=>", (a, b), BOOL)


def xor(a: T, b: T) -> T:
    return not_(eq(a, b))


def forall(vs, body: T, patterns=()) -> T:
    """vs: tuple of var terms; patterns: tuple of tuples of terms."""
    vs = tuple(vs)
    if not vs or body is TRUE:
        return body
    return T("forall", (vs, body, tuple(tuple(p) for p in patterns)), BOOL)


def exists(vs, body: T) -> T:
    vs = tuple(vs)
    if not vs:
        return body
    return T("exists", (vs, body), BOOL)


_fresh = itertools.count()


def fresh(prefix: str, sort: str) -> T:
    return var("%s!%d" % (prefix, next(_fresh)), sort)


def fresh_name(prefix: str) -> str:
    return "%s!%d" % (prefix, next(_fresh))


# ---------------------------------------------------------------- traversal

def subterms(t: T, seen=None):
    """Post-order DAG traversal (each node once)."""
    if seen is None:
        seen = set()
    stack = [(t, False)]
    while stack:
        n, done = stack.pop()
        if done:
            yield n
            continue
        if n in seen:
            continue
        seen.add(n)
        stack.append((n, True))
        for c in children(n):
            if c not in seen:
                stack.append((c, False))


def children(t: T):
    if t.op in ("const", "var"):
        return ()
    if t.op == "app":
        return t.args[1:]
    if t.op == "forall":
        return (t.args[1],) + tuple(x for p in t.args[2] for x in p)
    if t.op == "exists":
        return (t.args[1],)
    return t.args


def substitute(t: T, mapping: dict) -> T:
    """Replace terms (usually vars) by terms; mapping keys are T."""
    memo = dict(mapping)

    def go(n):
        r = memo.get(n)
        if r is not None:
            return r
        if n.op in ("const", "var"):
            r = n
        elif n.op == "app":
            r = app(n.args[0], n.sort, *[go(c) for c in n.args[1:]])
        elif n.op == "forall":
            vs, body, pats = n.args
            inner = {k: v for k, v in memo.items() if k not in vs}
            r = forall(vs, substitute(body, {k: v for k, v in mapping.items() if k not in vs}),
                       [[substitute(x, {k: v for k, v in mapping.items() if k not in vs}) for x in p] for p in pats])
            del inner
        elif n.op == "exists":
            vs, body = n.args
            r = exists(vs, substitute(body, {k: v for k, v in mapping.items() if k not in vs}))
        else:
            r = rebuild(n.op, [go(c) for c in n.args], n.sort)
        memo[n] = r
        return r

    import sys
    old = sys.getrecursionlimit()
    sys.setrecursionlimit(max(old, 20000))
    try:
        return go(t)
    finally:
        sys.setrecursionlimit(old)


def rebuild(op, args, sort):
    a = args
    if op == "+":
        return add(*a)
    if op == "-":
        return sub(*a)
    if op == "*":
        return mul(*a)
    if op == "/":
        return div(*a)
    if op == "neg":
        return neg(*a)
    if op == "div":
        return idiv(*a)
    if op == "mod":
        return mod(*a)
    if op == "ite":
        return ite(*a)
    if op == "=":
        return eq(*a)
    if op == "<":
        return lt(*a)
    if op == "<=":
        return le(*a)
    if op == "not":
        return not_(*a)
    if op == "and":
        return and_(*a)
    if op == "or":
        return or_(*a)
    if op == "=>":
        return implies(*a)
    if op == "to_real":
        return to_real(*a)
    if op == "sqrt":
        return sqrt(*a)
    raise Unsupported("rebuild %s" % op)


def free_symbols(ts):
    """(vars, funcs) used in the given terms; bound vars excluded."""
    vs, fs, sq = {}, {}, set()
    bound = set()
    if isinstance(ts, T):
        ts = [ts]
    seen = set()
    for t in ts:
        for n in subterms(t, seen):
            if n.op == "var":
                vs[n.args[0]] = n.sort
            elif n.op == "app":
                fs[n.args[0]] = (tuple(a.sort for a in n.args[1:]), n.sort)
            elif n.op in ("forall", "exists"):
                for v in n.args[0]:
                    bound.add(v.args[0])
            elif n.op == "sqrt":
                sq.add(n)
    for b in bound:
        vs.pop(b, None)
    return vs, fs, sq


# ---------------------------------------------------------------- printing

def _num(v: Fraction, sort: str) -> str:
    if sort == INT:
        n = int(v)
        return str(n) if n >= 0 else "(- %d)" % -n
    n, d = v.numerator, v.denominator
    s = "%d.0" % abs(n) if d == 1 else "(/ %d.0 %d.0)" % (abs(n), d)
    return s if n >= 0 else "(- %s)" % s


def _sym(name: str) -> str:
    return "|%s|" % name


def smt2_lines(terms, share=True):
    """Return (defs, exprs): `defs` are define-fun lines for shared subterms,
    `exprs` the SMT-LIB text of each term."""
    refs: dict = {}
    under_binder = set()

    def count(t, inside):
        stack = [(t, inside)]
        while stack:
            n, ins = stack.pop()
            refs[n] = refs.get(n, 0) + 1
            if ins:
                under_binder.add(n)
            if refs[n] > 1 and not ins:
                continue
            if n.op in ("forall", "exists"):
                for c in children(n):
                    stack.append((c, True))
            else:
                for c in children(n):
                    stack.append((c, ins))

    for t in terms:
        count(t, False)

    names: dict = {}
    defs: list = []
    memo: dict = {}
    ctr = itertools.count()

    def pr(n):
        r = memo.get(n)
        if r is not None:
            return r
        op = n.op
        if op == "const":
            r = ("true" if n.value else "false") if n.sort == BOOL else _num(n.value, n.sort)
        elif op == "var":
            r = _sym(n.args[0])
        elif op == "app":
            r = "(%s %s)" % (_sym(n.args[0]), " ".join(pr(c) for c in n.args[1:])) if len(n.args) > 1 else _sym(n.args[0])
        elif op == "neg":
            r = "(- %s)" % pr(n.args[0])
        elif op == "sqrt":
            r = _sym("sqrt!%d" % (n._h & 0xffffffffffff))
        elif op == "forall":
            vs, body, pats = n.args
            b = pr(body)
            if pats:
                b = "(! %s %s)" % (b, " ".join(":pattern (%s)" % " ".join(pr(x) for x in p) for p in pats))
            r = "(forall (%s) %s)" % (" ".join("(%s %s)" % (_sym(v.args[0]), v.sort) for v in vs), b)
        elif op == "exists":
            vs, body = n.args
            r = "(exists (%s) %s)" % (" ".join("(%s %s)" % (_sym(v.args[0]), v.sort) for v in vs), pr(body))
        else:
            r = "(%s %s)" % (op, " ".join(pr(c) for c in n.args))
        if share and refs.get(n, 0) > 1 and n not in under_binder and op not in ("const", "var") and len(r) > 24:
            nm = "s!%d" % next(ctr)
            defs.append("(define-fun %s () %s %s)" % (_sym(nm), n.sort, r))
            r = _sym(nm)
        memo[n] = r
        return r

    import sys
    old = sys.getrecursionlimit()
    sys.setrecursionlimit(max(old, 50000))
    try:
        exprs = [pr(t) for t in terms]
    finally:
        sys.setrecursionlimit(old)
    return defs, exprs


def show(t: T, limit=400) -> str:
    try:
        _, (e,) = smt2_lines([t], share=False)
    except RecursionError:
        return "<deep term>"
    e = e.replace("|", "")
    return e if len(e) <= limit else e[:limit] + "…"


# ---------------------------------------------------------------- S wrapper

def lift(v) -> T:
    if isinstance(v, S):
        return v.t
    if isinstance(v, T):
        return v
    return const(v)


class _Ctx:
    """Branch oracle used by path exploration (see paths.py)."""
    brancher = None


class S:
    """Symbolic scalar with operator overloading (Int / Real / Bool)."""
    __slots__ = ("t",)
    __array_priority__ = 1000
    __array_ufunc__ = None

    def __init__(self, t):
        self.t = t if isinstance(t, T) else lift(t)

    @property
    def sort(self):
        return self.t.sort

    def __deepcopy__(self, memo):
        return self

    def __copy__(self):
        return self

    # arithmetic
    def __add__(self, o): return _wrap(add, self, o)
    def __radd__(self, o): return _wrap(add, o, self)
    def __sub__(self, o): return _wrap(sub, self, o)
    def __rsub__(self, o): return _wrap(sub, o, self)
    def __mul__(self, o): return _wrap(mul, self, o)
    def __rmul__(self, o): return _wrap(mul, o, self)
    def __truediv__(self, o): return _wrap(div, self, o)
    def __rtruediv__(self, o): return _wrap(div, o, self)
    def __floordiv__(self, o): return _wrap(idiv, self, o)
    def __rfloordiv__(self, o): return _wrap(idiv, o, self)
    def __mod__(self, o): return _wrap(mod, self, o)
    def __rmod__(self, o): return _wrap(mod, o, self)
    def __neg__(self): return S(neg(self.t))
    def __pos__(self): return self
    def __abs__(self): return S(absv(self.t))

    def __pow__(self, n):
        if isinstance(n, S):
            if n.t.is_const:
                n = n.t.value
            else:
                raise Unsupported("symbolic exponent")
        if isinstance(n, float):
            if n == 0.5:
                return S(sqrt(self.t))
            if n != int(n):
                raise Unsupported("fractional power %r" % n)
        if isinstance(n, Fraction):
            if n.denominator != 1:
                raise Unsupported("fractional power")
        return S(powi(self.t, int(n)))

    def __rpow__(self, o):
        if self.t.is_const and self.t.sort == INT:
            return S(powi(lift(o), int(self.t.value)))
        raise Unsupported("symbolic exponent")

    # numpy object-array ufunc hooks
    def sqrt(self): return S(sqrt(self.t))
    def conjugate(self): return self
    def conj(self): return self

    # comparisons
    def __eq__(self, o): return _wrapb(eq, self, o)
    def __ne__(self, o): return _wrapb(ne, self, o)
    def __lt__(self, o): return _wrapb(lt, self, o)
    def __le__(self, o): return _wrapb(le, self, o)
    def __gt__(self, o): return _wrapb(gt, self, o)
    def __ge__(self, o): return _wrapb(ge, self, o)
    __hash__ = None

    # boolean connectives (bitwise operators as on numpy bool arrays)
    def __and__(self, o): return _wrapl(and_, self, o)
    def __rand__(self, o): return _wrapl(and_, o, self)
    def __or__(self, o): return _wrapl(or_, self, o)
    def __ror__(self, o): return _wrapl(or_, o, self)
    def __xor__(self, o): return _wrapl(xor, self, o)
    def __invert__(self):
        if self.t.sort != BOOL:
            raise Unsupported("~ on non-bool")
        return S(not_(self.t))

    def __bool__(self):
        t = self.t
        if t.sort != BOOL:
            t = ne(t, const(Fraction(0), t.sort))
        if t is TRUE:
            return True
        if t is FALSE:
            return False
        if _Ctx.brancher is None:
            raise Unsupported("control flow depends on a symbolic value: %s" % show(t, 120))
        return _Ctx.brancher(t)

    def __index__(self):
        if self.t.is_const and self.t.sort == INT:
            return int(self.t.value)
        raise Unsupported("symbolic value used as a concrete index")

    def __int__(self):
        if self.t.is_const:
            return int(self.t.value)
        raise Unsupported("int() of symbolic value")

    def __float__(self):
        if self.t.is_const:
            return float(self.t.value)
        raise Unsupported("float() of symbolic value")

    def __repr__(self):
        return "S(%s)" % show(self.t, 200)


def _unwrap(o):
    if isinstance(o, S):
        return o.t
    if isinstance(o, T):
        return o
    try:
        return const(o)
    except Unsupported:
        return None


def _wrap(f, a, b):
    if type(a).__module__ == "numpy" and hasattr(a, "shape") and getattr(a, "ndim", 0) > 0 or type(b).__module__ == "numpy" and hasattr(b, "shape") and getattr(b, "ndim", 0) > 0:
        import numpy as np
        if isinstance(a, np.ndarray):
            out = np.empty(a.shape, dtype=object)
            for idx in np.ndindex(*a.shape):
                out[idx] = _wrap(f, a[idx], b)
            return out
        out = np.empty(b.shape, dtype=object)
        for idx in np.ndindex(*b.shape):
            out[idx] = _wrap(f, a, b[idx])
        return out
    ta, tb = _unwrap(a), _unwrap(b)
    if ta is None or tb is None:
        return NotImplemented
    return S(f(ta, tb))


_wrapb = _wrap


def _wrapl(f, a, b):
    ta, tb = _unwrap(a), _unwrap(b)
    if ta is None or tb is None:
        return NotImplemented
    if ta.sort != BOOL or tb.sort != BOOL:
        raise Unsupported("bitwise operator on non-bool symbolic values")
    return S(f(ta, tb))


def sreal(name): return S(var(name, REAL))
def sint(name): return S(var(name, INT))
def sbool(name): return S(var(name, BOOL))
