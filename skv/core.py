"""Obligation bookkeeping, unit runner, verdicts, evidence, replay files."""
from __future__ import annotations

import hashlib
import importlib
import json
import multiprocessing as mp
import os
import subprocess
import sys
import time
import traceback

from . import solve
from . import term as tm
from .term import Unsupported

VERIF = os.path.dirname(os.path.dirname(os.path.abspath(__file__)))
REPO = os.environ.get("SKFEM_REPO", "/repo")
VENV_PY = "/venv/bin/python"

MAX_REPORTED = 12   # VIOLATION lines per run (all refuted obligations are listed in the evidence file)
MAX_REPLAYS = 6     # native replays per run
DISCHARGED, REFUTED, UNKNOWN, UNSUPPORTED, ERROR = "discharged", "refuted", "unknown", "unsupported", "error"


class Ctx:
    """Collects the obligations generated and discharged by one unit."""

    def __init__(self, prop, unit, tier, seed):
        self.prop, self.unit, self.tier, self.seed = prop, unit, tier, seed
        self.obs = []          # obligation result dicts
        self.standins = []     # bounded stand-in result dicts
        self.functions = {}    # file::qualname -> info
        self.notes = []
        self.assumptions = set()
        self.hyps = []         # ambient hypotheses (axiom instances, preconditions)

    # -- functions under contract ------------------------------------------------
    def function(self, fn, **info):
        """Register a real function object as under contract; returns file::qualname."""
        if isinstance(fn, str):
            key = fn
        else:
            f = getattr(fn, "__func__", fn)
            code = getattr(f, "__code__", None)
            path = os.path.relpath(code.co_filename, REPO) if code else "?"
            key = "%s::%s" % (path, getattr(f, "__qualname__", repr(f)))
            if code:
                info.setdefault("first_line", code.co_firstlineno)
        d = self.functions.setdefault(key, {})
        d.update(info)
        return key

    def assume(self, text):
        self.assumptions.add(text)

    def add_hyp(self, h):
        self.hyps.append(h)

    # -- obligations ----------------------------------------------------------------
    def _rec(self, oid, function, status, backend, time_s, **kw):
        r = dict(id="%s/%s" % (self.prop, oid), unit=self.unit, function=function, status=status,
                 backend=backend, time_s=round(time_s, 4))
        r.update({k: v for k, v in kw.items() if v not in (None, "", {}, [])})
        self.obs.append(r)
        return r

    def prove(self, oid, function, goal, hyps=(), replay=None, clause=None, both=None, first=None):
        """SMT obligation: ambient hyps + hyps |= goal."""
        if isinstance(goal, tm.S):
            goal = goal.t
        hs = [h.t if isinstance(h, tm.S) else h for h in list(self.hyps) + list(hyps)]
        use = "both" if (both if both is not None else self.tier == "thorough") else "fallback"
        if first == "cvc5":
            use = "first"
        try:
            res = solve.prove(hs, goal, use_cvc5=use)
        except RecursionError:
            return self._rec(oid, function, UNKNOWN, "none", 0.0, detail="term too deep")
        st = {"proved": DISCHARGED, "refuted": REFUTED, "unknown": UNKNOWN}[res.status]
        return self._rec(oid, function, st, res.backend, res.time_s, model=res.model if st == REFUTED else None,
                         detail=res.detail, replay=replay if st != DISCHARGED else None,
                         clause=clause or tm.show(goal, 300), smt_size=res.smt_size)

    def fact(self, oid, function, ok, detail="", replay=None, clause=None, backend="ground-rational", time_s=0.0):
        """Obligation decided by exact (rational / finite) evaluation of the
        clause on values extracted from the real code (finite family member)."""
        return self._rec(oid, function, DISCHARGED if ok else REFUTED, backend, time_s,
                         detail=detail if not ok else "", replay=None if ok else replay, clause=clause)

    def unsupported(self, oid, function, reason):
        return self._rec(oid, function, UNSUPPORTED, "none", 0.0, detail=str(reason)[:500])

    def standin(self, what, bound, cases, failures, exhaustive=False, nontrivial=None, samples=None, time_s=0.0):
        """Record a bounded stand-in (never counted as proved).  failures: list
        of dicts with at least 'input' and 'observed'."""
        self.standins.append(dict(prop=self.prop, unit=self.unit, what=what, bound=bound, cases=cases,
                                  failures=failures, exhaustive=exhaustive,
                                  nontrivial=cases if nontrivial is None else nontrivial,
                                  samples=samples or [], time_s=round(time_s, 3)))


# ------------------------------------------------------------------ native side

def run_native(script, payload, timeout=3600):
    """Run /verif/native/<script> under /venv's python on the working tree;
    payload and result are JSON."""
    env = dict(os.environ)
    env["PYTHONPATH"] = REPO + os.pathsep + VERIF
    env["SKFEM_VERIF"] = "1"
    env.setdefault("OMP_NUM_THREADS", "1")
    env.setdefault("OPENBLAS_NUM_THREADS", "1")
    env["JAX_PLATFORMS"] = "cpu"
    p = subprocess.run([VENV_PY, os.path.join(VERIF, "native", script)], input=json.dumps(payload),
                       capture_output=True, text=True, timeout=timeout, env=env, cwd=VERIF)
    if p.returncode != 0:
        raise RuntimeError("native %s failed (%d): %s" % (script, p.returncode, p.stderr[-3000:]))
    out = p.stdout
    k = out.rfind("\n@@JSON@@")
    if k < 0:
        raise RuntimeError("native %s: no JSON in output: %s" % (script, out[-2000:]))
    return json.loads(out[k + 9:])


# ------------------------------------------------------------------ unit runner

def _run_unit(args):
    prop, name, tier, seed = args
    t0 = time.time()
    sys.setrecursionlimit(20000)
    ctx = Ctx(prop, name, tier, seed)
    try:
        mod = importlib.import_module("props." + prop)
        fn = mod.UNITS[name]
        fn(ctx)
    except Unsupported as e:
        ctx.unsupported("%s/unit" % name, name, "%s\n%s" % (e, traceback.format_exc()[-1500:]))
    except Exception as e:
        # An exception of a kind that symbolic stand-ins cannot provoke (index/key/assertion/zero division/unbound name), raised by a frame of the REAL
        # code while the harness's inputs satisfy the contract's precondition, refutes the implicit clause "returns normally": a violation, not a crash of
        # the checker.  Everything else (type errors of the symbolic values, errors inside /verif) stays a checker error (exit 3).
        tb = traceback.extract_tb(e.__traceback__)
        in_repo = bool(tb) and os.path.abspath(tb[-1].filename).startswith(os.path.abspath(REPO) + os.sep)
        if in_repo and isinstance(e, (IndexError, KeyError, AssertionError, ZeroDivisionError, NameError)):
            where = "%s:%d in %s" % (os.path.relpath(tb[-1].filename, REPO), tb[-1].lineno, tb[-1].name)
            ctx._rec("%s/returns-normally" % name, where, REFUTED, "symbolic-execution", 0.0, clause="the function returns normally on every input satisfying its precondition",
                     detail="%s: %s raised at %s\n%s" % (type(e).__name__, e, where, traceback.format_exc()[-2500:]))
        else:
            ctx._rec("%s/unit" % name, name, ERROR, "none", 0.0,
                     detail="%s: %s\n%s" % (type(e).__name__, e, traceback.format_exc()[-3000:]))
    return dict(unit=name, obs=ctx.obs, standins=ctx.standins, functions=ctx.functions,
                notes=ctx.notes, assumptions=sorted(ctx.assumptions), wall_s=round(time.time() - t0, 3))


def _model_floats(model):
    from fractions import Fraction
    out = {}
    for k, v in model.items():
        try:
            if isinstance(v, bool):
                out[k] = v
            elif isinstance(v, (int, float)):
                out[k] = float(v)
            elif isinstance(v, str):
                w = v.lstrip("~").rstrip("?")
                out[k] = float(Fraction(w)) if "/" in w else float(w)
        except (ValueError, ZeroDivisionError, OverflowError):
            pass
    return out


def tree_hash():
    try:
        h = subprocess.run(["git", "-C", REPO, "rev-parse", "HEAD"], capture_output=True, text=True).stdout.strip()
        d = subprocess.run(["git", "-C", REPO, "diff", "HEAD", "--", "skfem"], capture_output=True, text=True).stdout
        return h[:12] + ("+" + hashlib.sha1(d.encode()).hexdigest()[:8] if d else "")
    except Exception:
        return "unknown"


def load_findings():
    path = os.path.join(VERIF, "KNOWN_FINDINGS.jsonl")
    out = []
    if os.path.exists(path):
        for line in open(path):
            line = line.strip()
            if line and not line.startswith("#"):
                out.append(json.loads(line))
    return out


def match_finding(findings, prop, oid, witness=""):
    for f in findings:
        if f.get("status") != "open" or f.get("property") != prop:
            continue
        pat = f.get("obligation", "")
        if pat and (oid == pat or oid.startswith(pat.rstrip("*")) and pat.endswith("*")):
            w = f.get("witness_class")
            ws = ([w] if w else []) + list(f.get("witness_all", []))
            if all(x in witness for x in ws):
                return f
    return None


def write_replay(prop, tag, payload):
    d = os.path.join(VERIF, "replays")
    os.makedirs(d, exist_ok=True)
    h = hashlib.sha1(json.dumps(payload, sort_keys=True, default=str).encode()).hexdigest()[:10]
    safe = "".join(c if c.isalnum() or c in "-_." else "_" for c in tag)[:80]
    path = os.path.join(d, "%s-%s-%s.json" % (prop, safe, h))
    with open(path, "w") as f:
        json.dump(payload, f, indent=1, default=str)
    return os.path.relpath(path, VERIF)


def run_property(prop, tier="quick", seed=0, only=None, jobs=None):
    """Run all units of a property, decide, write evidence; returns exit code."""
    t0 = time.time()
    sys.path.insert(0, VERIF)
    mod = importlib.import_module("props." + prop)
    names = [n for n in mod.UNITS if (only is None or any(o in n for o in only))]
    if tier == "quick" and hasattr(mod, "QUICK_SKIP"):
        names = [n for n in names if n not in mod.QUICK_SKIP]
    jobs = jobs or int(os.environ.get("SKV_JOBS", "16"))
    order = getattr(mod, "HEAVY_FIRST", [])
    names.sort(key=lambda n: (0 if n in order else 1))
    work = [(prop, n, tier, seed) for n in names]
    if jobs > 1 and len(work) > 1:
        with mp.get_context("fork").Pool(min(jobs, len(work)), maxtasksperchild=8) as pool:
            results = pool.map(_run_unit, work, chunksize=1)
    else:
        results = [_run_unit(w) for w in work]

    findings = load_findings()
    obs = [o for r in results for o in r["obs"]]
    standins = [s for r in results for s in r["standins"]]
    functions = {}
    for r in results:
        for k, v in r["functions"].items():
            functions.setdefault(k, {}).update(v)
    assumptions = sorted({a for r in results for a in r["assumptions"]} | set(getattr(mod, "ASSUMPTIONS", [])))

    lines, violations, known_hits, undecided, errors = [], 0, [], [], []
    n_refuted, suppressed = 0, []
    th = tree_hash()
    for o in obs:
        if o["status"] == DISCHARGED:
            continue
        if o["status"] == REFUTED:
            f = match_finding(findings, prop, o["id"], json.dumps(o.get("model", "")) + o.get("detail", ""))
            if f:
                known_hits.append(o["id"])
                lines.append("KNOWN-FINDING: property=%s %s (%s)" % (prop, f.get("what", o["id"]), o["id"]))
                continue
            confirmed, native = None, None
            n_refuted += 1
            if n_refuted > MAX_REPORTED:
                suppressed.append(o["id"])
                violations += 1
                continue
            if o.get("replay") and n_refuted <= MAX_REPLAYS:
                try:
                    o["replay"] = dict(o["replay"])
                    o["replay"].setdefault("point", _model_floats(o.get("model") or {}))
                    native = run_native("replay.py", o["replay"], timeout=600)
                    confirmed = native.get("confirmed")
                    confirmed = None if confirmed is None else bool(confirmed)
                except Exception as e:
                    native = {"error": str(e)[-1500:]}
            payload = dict(property=prop, obligation=o["id"], function=o["function"], clause=o.get("clause"),
                           backend=o["backend"], solver_model=o.get("model"), solver_detail=o.get("detail"),
                           replay=o.get("replay"), native_result=native, tree=th)
            if confirmed is False:
                errors.append(o["id"])
                path = write_replay(prop, o["id"].split("/", 1)[1], payload)
                lines.append("CHECKER-ERROR property=%s obligation=%s refuted by the solver but the real code satisfies "
                             "the clause on the model input (%s)" % (prop, o["id"], path))
                continue
            path = write_replay(prop, o["id"].split("/", 1)[1], payload)
            violations += 1
            suffix = "" if confirmed else " no-failing-input-found"
            lines.append("VIOLATION property=%s replay=%s%s" % (prop, path, suffix))
            lines.append("  obligation %s on %s refuted by %s: %s" % (o["id"], o["function"], o["backend"],
                                                                      (o.get("detail") or json.dumps(o.get("model")))[:300]))
        elif o["status"] in (UNKNOWN, UNSUPPORTED):
            undecided.append(o["id"])
            lines.append("UNDECIDED property=%s obligation=%s (%s) %s" % (prop, o["id"], o["status"], o.get("detail", "")[:300]))
        else:
            errors.append(o["id"])
            lines.append("CHECKER-ERROR property=%s obligation=%s %s" % (prop, o["id"], o.get("detail", "")[:3000]))
    for s in standins:
        for fl in s["failures"]:
            wit = json.dumps(fl, default=str)
            f = match_finding(findings, prop, "standin/" + s["what"], wit)
            if f:
                known_hits.append("standin/" + s["what"])
                ln = "KNOWN-FINDING: property=%s %s" % (prop, f.get("what", s["what"]))
                if ln not in lines:
                    lines.append(ln)
                continue
            payload = dict(property=prop, obligation="standin/" + s["what"], bound=s["bound"], failure=fl,
                           replay=fl.get("replay"), tree=th)
            path = write_replay(prop, "standin-" + s["what"], payload)
            violations += 1
            lines.append("VIOLATION property=%s replay=%s" % (prop, path))
            lines.append("  bounded stand-in '%s' failed: %s" % (s["what"], wit[:400]))

    if suppressed:
        lines.append("  ... %d further refuted obligations (listed in the evidence file under coverage.refuted): %s ..."
                     % (len(suppressed), ", ".join(suppressed[:6])))
    n_ob = len(obs)
    n_dis = sum(1 for o in obs if o["status"] == DISCHARGED)
    if n_ob == 0 and not standins:
        errors.append("no-obligations")
        lines.append("CHECKER-ERROR property=%s zero obligations generated" % prop)

    by_backend, solver_time = {}, 0.0
    for o in obs:
        if o["status"] == DISCHARGED:
            by_backend[o["backend"]] = by_backend.get(o["backend"], 0) + 1
        solver_time += o["time_s"]
    per_fn = {}
    for o in obs:
        d = per_fn.setdefault(o["function"], [0, 0])
        d[0] += 1
        d[1] += o["status"] == DISCHARGED
    samples = []
    seen_fn = set()
    for o in obs:
        if o["function"] not in seen_fn and len(samples) < 12:
            seen_fn.add(o["function"])
            samples.append({k: o[k] for k in ("id", "function", "status", "backend", "time_s", "clause", "smt_size") if k in o})
    level = getattr(mod, "LEVEL", "proof")
    expl = getattr(mod, "EXPLANATION", "")
    if known_hits:
        expl = ("OPEN KNOWN FINDINGS (not a complete proof of the property): %s. " % sorted(set(known_hits))) + expl
    standin_cases = sum(s["cases"] for s in standins)
    ev = dict(
        property_id=prop, tier=tier, seed=seed, level=level,
        coverage=dict(
            obligations=n_ob, discharged=n_dis,
            checker_cmd="cd /verif && ./check %s --tier %s" % (prop, tier),
            trusted_base=getattr(mod, "TRUSTED", []) + [
                "VC generator /verif/skv (symbolic execution of the real function objects under python3-vt)",
                "z3 5.1 (python API), cvc5 1.0.3 (CLI) on z3 unknowns%s" % (" and as second opinion" if tier == "thorough" else "")],
            explanation=expl,
            functions_under_contract=[dict(function=k, obligations=per_fn.get(k, [0, 0])[0],
                                           discharged=per_fn.get(k, [0, 0])[1], **v) for k, v in sorted(functions.items())],
            obligations_by_function={k: dict(obligations=v[0], discharged=v[1]) for k, v in sorted(per_fn.items())},
            by_backend=by_backend, solver_time_s=round(solver_time, 3),
            bounded_standins=[dict(what=s["what"], bound=s["bound"], cases=s["cases"], exhaustive=s["exhaustive"],
                                   failures=len(s["failures"]), samples=s["samples"][:3]) for s in standins],
            evaluations=n_ob + standin_cases,
            distinct_nontrivial=len({o["id"] for o in obs}) + sum(s["nontrivial"] for s in standins),
            rule="obligations: one per (function, clause, case) generated from the current /repo source, distinct by id; "
                 "stand-in cases: as enumerated by each stand-in's stated bound (bounded, never counted in discharged)",
            samples=samples or [dict(standin=s["what"], sample=s["samples"][:1]) for s in standins][:5],
            exhaustive=False,
            open_known_findings=sorted(set(known_hits)), undecided=undecided, checker_errors=errors,
            refuted=[o["id"] for o in obs if o["status"] == REFUTED],
            tree=th, units=[dict(unit=r["unit"], wall_s=r["wall_s"], obligations=len(r["obs"])) for r in results],
        ),
        assumptions=assumptions,
        wall_s=round(time.time() - t0, 2), violations=violations)
    os.makedirs(os.path.join(VERIF, "evidence"), exist_ok=True)
    with open(os.path.join(VERIF, "evidence", prop + ".json"), "w") as f:
        json.dump(ev, f, indent=1, default=str)
    for ln in lines:
        print(ln)
    print("%s tier=%s: %d obligations, %d discharged (%s), %d stand-in cases in %d stand-ins, %d violations, "
          "%d known, %d undecided, %d checker errors, %.1fs"
          % (prop, tier, n_ob, n_dis, ", ".join("%s:%d" % kv for kv in sorted(by_backend.items())), standin_cases,
             len(standins), violations, len(known_hits), len(undecided), len(errors), time.time() - t0))
    if violations:
        return 1
    if errors:
        return 3
    if undecided:
        return 2
    return 0
