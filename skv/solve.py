"""Discharging obligations: SMT-LIB2 emission, z3 (python API, in process),
cvc5 (CLI) on z3's unknowns or as second opinion."""
from __future__ import annotations

import os
import subprocess
import time
from fractions import Fraction

from . import term as tm
from .term import T

Z3_TIMEOUT_MS = int(os.environ.get("SKV_Z3_MS", "20000"))
CVC5_TIMEOUT_MS = int(os.environ.get("SKV_CVC5_MS", "30000"))
CVC5_BIN = "/usr/bin/cvc5"
Z3_FIRST_MS = int(os.environ.get("SKV_Z3_FIRST_MS", "4000"))


class Result:
    __slots__ = ("status", "backend", "time_s", "model", "detail", "smt_size")

    def __init__(self, status, backend, time_s, model=None, detail="", smt_size=0):
        self.status = status      # 'proved' | 'refuted' | 'unknown'
        self.backend = backend
        self.time_s = time_s
        self.model = model or {}
        self.detail = detail
        self.smt_size = smt_size

    def __repr__(self):
        return "Result(%s,%s,%.3fs)" % (self.status, self.backend, self.time_s)


def build_smt2(hyps, goal: T, logic=None, produce_models=True):
    hyps = [h for h in hyps if h is not tm.TRUE]
    allterms = list(hyps) + [goal]
    vs, fs, sq = tm.free_symbols(allterms)
    # sqrt axioms
    sqax = []
    for s in sq:
        a = s.args[0]
        sv = tm.var("sqrt!%d" % (s._h & 0xffffffffffff), tm.REAL)
        vs[sv.args[0]] = tm.REAL
        zero = tm.const(Fraction(0), tm.REAL)
        sqax.append(tm.implies(tm.ge(a, zero), tm.and_(tm.ge(sv, zero), tm.eq(tm.mul(sv, sv), a))))
    # sqrt inside sqrt arguments: collect symbols again
    if sqax:
        v2, f2, _ = tm.free_symbols(sqax)
        vs.update(v2)
        fs.update(f2)
    terms = list(hyps) + sqax + [tm.not_(goal)]
    defs, exprs = tm.smt2_lines(terms)
    lines = []
    if logic:
        lines.append("(set-logic %s)" % logic)
    for name, sort in sorted(vs.items()):
        lines.append("(declare-const |%s| %s)" % (name, sort))
    for name, (asorts, rsort) in sorted(fs.items()):
        lines.append("(declare-fun |%s| (%s) %s)" % (name, " ".join(asorts), rsort))
    lines.extend(defs)
    for e in exprs:
        lines.append("(assert %s)" % e)
    return "\n".join(lines), vs


def _z3_value(v):
    import z3
    if z3.is_int_value(v):
        return int(v.as_long())
    if z3.is_rational_value(v):
        return str(Fraction(v.numerator_as_long(), v.denominator_as_long()))
    if z3.is_true(v):
        return True
    if z3.is_false(v):
        return False
    if z3.is_algebraic_value(v):
        return "~" + v.approx(20).as_decimal(20)
    return str(v)


def z3_check(smt: str, vs: dict, timeout_ms=None):
    import z3
    t0 = time.time()
    s = z3.Solver()
    s.set("timeout", timeout_ms or Z3_TIMEOUT_MS)
    try:
        s.from_string(smt)
        r = s.check()
    except z3.Z3Exception as e:
        return Result("unknown", "z3", time.time() - t0, detail="z3 exception: %s" % e, smt_size=len(smt))
    dt = time.time() - t0
    if r == z3.unsat:
        return Result("proved", "z3", dt, smt_size=len(smt))
    if r == z3.sat:
        m = s.model()
        model = {}
        for d in m.decls():
            try:
                if d.arity() == 0:
                    model[d.name()] = _z3_value(m[d])
                else:
                    model[d.name()] = str(m[d])[:2000]
            except Exception as e:  # pragma: no cover
                model[d.name()] = "?%s" % e
        return Result("refuted", "z3", dt, model=model, smt_size=len(smt))
    return Result("unknown", "z3", dt, detail=s.reason_unknown(), smt_size=len(smt))


def cvc5_check(smt: str, vs: dict, timeout_ms=None, quantified=False):
    t0 = time.time()
    text = "(set-option :produce-models true)\n(set-logic ALL)\n" + smt + "\n(check-sat)\n"
    args = [CVC5_BIN, "--lang=smt2", "--tlimit=%d" % (timeout_ms or CVC5_TIMEOUT_MS), "--nl-ext-tplanes"]
    try:
        p = subprocess.run(args, input=text, capture_output=True, text=True,
                           timeout=(timeout_ms or CVC5_TIMEOUT_MS) / 1000 + 5)
        out = p.stdout.strip().splitlines()
        first = out[0].strip() if out else ""
    except subprocess.TimeoutExpired:
        first = "timeout"
        p = None
    dt = time.time() - t0
    if first == "unsat":
        return Result("proved", "cvc5", dt, smt_size=len(smt))
    if first == "sat":
        return Result("refuted", "cvc5", dt, smt_size=len(smt), detail="cvc5 sat (model not extracted)")
    return Result("unknown", "cvc5", dt, detail=(first + " " + (p.stderr[:200] if p else "")).strip(), smt_size=len(smt))


def prove(hyps, goal: T, use_cvc5="fallback", timeout_ms=None) -> Result:
    """Try to prove `hyps => goal`.

    use_cvc5: 'never' | 'fallback' (only when z3 says unknown) | 'both'
    (both solvers must agree on 'proved').
    """
    if goal is tm.TRUE:
        return Result("proved", "simplifier", 0.0)
    smt, vs = build_smt2(hyps, goal)
    if use_cvc5 == "never":
        return z3_check(smt, vs, timeout_ms)
    if use_cvc5 == "first":
        # queries known to be quick for cvc5 and slow for z3 (nonlinear integer case analyses): cvc5, then the usual stages
        r0 = cvc5_check(smt, vs)
        if r0.status != "unknown":
            return r0
        r = prove(hyps, goal, use_cvc5="never", timeout_ms=timeout_ms)
        r.time_s += r0.time_s
        return r
    # staged: z3 short, cvc5, z3 long (a slow query on one solver is usually fast on the other)
    r = z3_check(smt, vs, min(Z3_FIRST_MS, timeout_ms or Z3_TIMEOUT_MS))
    if r.status == "unknown":
        r2 = cvc5_check(smt, vs)
        if r2.status != "unknown":
            r2.time_s += r.time_s
            return r2
        r3 = z3_check(smt, vs, timeout_ms)
        r3.time_s += r.time_s + r2.time_s
        if r3.status == "unknown":
            r3.detail += " | cvc5: " + r2.detail
        return r3
    if use_cvc5 == "both" and r.status == "proved":
        r2 = cvc5_check(smt, vs)
        if r2.status == "refuted":
            return Result("unknown", "z3+cvc5", r.time_s + r2.time_s, detail="solver disagreement: z3 unsat, cvc5 sat")
        if r2.status == "proved":
            return Result("proved", "z3+cvc5", r.time_s + r2.time_s, smt_size=r.smt_size)
        # cvc5 unknown: keep z3's verdict but say so
        r.detail = "cvc5 unknown: " + r2.detail
        return r
    return r


def satisfiable(hyps, timeout_ms=None) -> Result:
    """Vacuity guard: are the hypotheses jointly satisfiable?  ('refuted' of
    the goal False means sat.)"""
    return prove(hyps, tm.FALSE, use_cvc5="fallback", timeout_ms=timeout_ms)
