"""Catalogue of the exported element classes, read from the working tree's
skfem.element.__all__ on every run (so a newly exported element is covered
without editing /verif) and classified by base class."""
from __future__ import annotations

import logging
import math

import numpy as np

logging.getLogger("skfem").setLevel(logging.ERROR)      # e.g. "Replace ElementQuadP(2) by ElementQuad2() for performance." on every construction


def exported():
    import skfem.element as E
    seen, out = set(), []
    for n in E.__all__:
        c = getattr(E, n)
        if isinstance(c, type) and issubclass(c, E.Element) and c not in seen:
            seen.add(c)
            out.append(c)
    return out


ABSTRACT = ("Element", "ElementH1", "ElementHdiv", "ElementHcurl", "ElementGlobal", "ElementMatrix")
WRAPPERS = ("ElementVector", "ElementComposite", "ElementDG")
PARAM = {"ElementLinePp": [(3,), (4,), (5,)], "ElementQuadP": [(2,), (3,), (4,)]}


def family(cls):
    names = [c.__name__ for c in cls.__mro__]
    for f in ("ElementGlobal", "ElementMatrix", "ElementHdiv", "ElementHcurl", "ElementH1"):
        if f in names:
            return f
    return "other"


def reference_elements():
    """[(label, cls, ctor_args)] of exported elements defined through lbasis on a
    reference cell (everything except abstract bases, wrappers, ElementGlobal)."""
    out = []
    for c in exported():
        n = c.__name__
        if n in ABSTRACT or n in WRAPPERS:
            continue
        if family(c) == "ElementGlobal":
            continue
        if n in PARAM:
            for a in PARAM[n]:
                out.append(("%s(%s)" % (n, ",".join(map(str, a))), c, a))
        else:
            out.append((n, c, ()))
    return out


def global_elements():
    return [(c.__name__, c, ()) for c in exported()
            if family(c) == "ElementGlobal" and c.__name__ not in ABSTRACT]


def make(label):
    import skfem.element as E
    if "(" in label:
        n, a = label[:-1].split("(")
        return getattr(E, n)(*[int(x) for x in a.split(",") if x])
    return getattr(E, label)()


def refdom_kind(refdom):
    return {"RefPoint": "point", "RefLine": "line", "RefTri": "tri", "RefQuad": "quad", "RefTet": "tet",
            "RefHex": "hex", "RefWedge": "wedge"}[refdom.__name__]


def local_dofs(e):
    """Per local basis index i: (kind, slot, r, name), in the row order the DOF
    numbering uses (nodal, edge, facet, interior) with names read in the
    element's dofnames layout (nodal, facet, edge, interior)."""
    rd = e.refdom
    nn, ne, nf = rd.nnodes, rd.nedges, rd.nfacets
    names = list(e.dofnames)
    nd, fd, ed, idf = e.nodal_dofs, e.facet_dofs, e.edge_dofs, e.interior_dofs

    def nm(k):
        return names[k] if k < len(names) else None
    out = []
    for s in range(nn):
        for r in range(nd):
            out.append(("nodal", s, r, nm(r)))
    for s in range(ne):
        for r in range(ed):
            out.append(("edge", s, r, nm(nd + fd + r)))
    for s in range(nf):
        for r in range(fd):
            out.append(("facet", s, r, nm(nd + r)))
    for r in range(idf):
        out.append(("interior", 0, r, nm(nd + fd + ed + r)))
    return out


def has_nan(row):
    return any(isinstance(v, float) and math.isnan(v) for v in np.asarray(row, dtype=float).tolist())
